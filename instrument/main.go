// Command instrument rewrites the non-test sources of trpc-mcp-go so that every synchronisation
// operation goes through the controlled scheduler (verif.local/engine/...), and writes the result
// plus a `go build -overlay` file. /repo itself is never modified.
//
// Exit status: 0 ok, 2 "harness broken" (a construct that cannot be rewritten soundly).
package main

import (
	"bytes"
	"encoding/json"
	"flag"
	"fmt"
	"go/ast"
	"go/format"
	"go/printer"
	"go/token"
	"go/types"
	"os"
	"path/filepath"
	"sort"
	"strconv"
	"strings"

	"golang.org/x/tools/go/ast/astutil"
	"golang.org/x/tools/go/packages"
)

var shimImports = map[string][2]string{
	"sync":        {"verif.local/engine/vsync", "sync"},
	"sync/atomic": {"verif.local/engine/vatomic", "atomic"},
	"time":        {"verif.local/engine/vtime", "time"},
	"crypto/rand": {"verif.local/engine/vrand", "rand"},
	"context":     {"verif.local/engine/vcontext", "context"},
}

const vcontextPath = "verif.local/engine/vcontext"

const vschedPath = "verif.local/engine/vsched"
const vschedName = "vsched__"

type stats struct {
	Files, Selects, Sends, Recvs, Closes, Gos, Ranges, MapRanges, Imports, CtxErr int
}

var st stats

func broken(format string, a ...interface{}) {
	fmt.Fprintf(os.Stderr, "HARNESS-BROKEN instrument: "+format+"\n", a...)
	os.Exit(2)
}

func main() {
	repo := flag.String("repo", "/repo", "repository root")
	out := flag.String("out", "", "output directory")
	tags := flag.String("tags", "verif", "build tags")
	extra := flag.String("extra", "", "JSON file {path: replacementPath} merged into the overlay (mutants)")
	flag.Parse()
	if *out == "" {
		broken("missing -out")
	}
	if err := os.MkdirAll(*out, 0o755); err != nil {
		broken("%v", err)
	}
	cfg := &packages.Config{
		Mode: packages.NeedName | packages.NeedFiles | packages.NeedCompiledGoFiles | packages.NeedSyntax |
			packages.NeedTypes | packages.NeedTypesInfo | packages.NeedImports | packages.NeedDeps,
		Dir:        *repo,
		BuildFlags: []string{"-tags", *tags},
		Env:        append(os.Environ(), "GOFLAGS=-mod=mod", "GOPROXY=off", "GOSUMDB=off", "GOTOOLCHAIN=local"),
	}
	if *extra != "" {
		b, err := os.ReadFile(*extra)
		if err != nil {
			broken("%v", err)
		}
		m := map[string]string{}
		if err := json.Unmarshal(b, &m); err != nil {
			broken("%v", err)
		}
		cfg.Overlay = map[string][]byte{}
		for k, v := range m {
			c, err := os.ReadFile(v)
			if err != nil {
				broken("%v", err)
			}
			cfg.Overlay[k] = c
		}
	}
	pkgs, err := packages.Load(cfg, "trpc.group/trpc-go/trpc-mcp-go", "trpc.group/trpc-go/trpc-mcp-go/internal/...")
	if err != nil {
		broken("load: %v", err)
	}
	overlay := map[string]string{}
	sort.Slice(pkgs, func(i, j int) bool { return pkgs[i].PkgPath < pkgs[j].PkgPath })
	for _, p := range pkgs {
		if len(p.Errors) > 0 {
			broken("package %s: %v", p.PkgPath, p.Errors)
		}
		for i, f := range p.Syntax {
			path := p.CompiledGoFiles[i]
			if strings.HasSuffix(path, "_test.go") {
				continue
			}
			r := &rewriter{fset: p.Fset, info: p.TypesInfo, file: f, path: path, skip: map[ast.Node]bool{}}
			changed := r.run()
			if !changed {
				continue
			}
			st.Files++
			rel, _ := filepath.Rel(*repo, path)
			dst := filepath.Join(*out, strings.ReplaceAll(rel, string(filepath.Separator), "__"))
			var buf bytes.Buffer
			if r.buildLine != "" {
				buf.WriteString(r.buildLine + "\n\n")
			}
			if err := printer.Fprint(&buf, p.Fset, f); err != nil {
				broken("print %s: %v", path, err)
			}
			src, err := format.Source(buf.Bytes())
			if err != nil {
				os.WriteFile(dst+".bad", buf.Bytes(), 0o644)
				broken("rewritten %s does not parse: %v (see %s.bad)", path, err, dst)
			}
			if err := os.WriteFile(dst, src, 0o644); err != nil {
				broken("%v", err)
			}
			overlay[path] = dst
		}
	}
	ov := map[string]interface{}{"Replace": overlay}
	b, _ := json.MarshalIndent(ov, "", " ")
	if err := os.WriteFile(filepath.Join(*out, "overlay.json"), b, 0o644); err != nil {
		broken("%v", err)
	}
	sb, _ := json.Marshal(st)
	os.WriteFile(filepath.Join(*out, "instrument-stats.json"), sb, 0o644)
	fmt.Printf("instrumented %s\n", sb)
}

type rewriter struct {
	fset      *token.FileSet
	info      *types.Info
	file      *ast.File
	path      string
	skip      map[ast.Node]bool
	needSched bool
	needCtx   bool
	ctxName   string
	changed   bool
	buildLine string
	tmp       int
}

func (r *rewriter) pos(n ast.Node) string {
	p := r.fset.Position(n.Pos())
	return fmt.Sprintf("%s:%d", filepath.Base(p.Filename), p.Line)
}

func id(name string) *ast.Ident { return ast.NewIdent(name) }

func sched(fn string) ast.Expr { return &ast.SelectorExpr{X: id(vschedName), Sel: id(fn)} }

func call(fun ast.Expr, args ...ast.Expr) *ast.CallExpr { return &ast.CallExpr{Fun: fun, Args: args} }

func strlit(s string) ast.Expr { return &ast.BasicLit{Kind: token.STRING, Value: strconv.Quote(s)} }

func (r *rewriter) fresh(prefix string) *ast.Ident {
	r.tmp++
	return id(fmt.Sprintf("_v%s%d", prefix, r.tmp))
}

func unparen(e ast.Expr) ast.Expr {
	for {
		p, ok := e.(*ast.ParenExpr)
		if !ok {
			return e
		}
		e = p.X
	}
}

func (r *rewriter) isChan(e ast.Expr) bool {
	t := r.info.TypeOf(e)
	if t == nil {
		return false
	}
	_, ok := t.Underlying().(*types.Chan)
	return ok
}

func (r *rewriter) isContext(e ast.Expr) bool {
	t := r.info.TypeOf(e)
	if t == nil {
		return false
	}
	n, ok := t.(*types.Named)
	if !ok {
		return false
	}
	o := n.Obj()
	return o != nil && o.Pkg() != nil && o.Pkg().Path() == "context" && o.Name() == "Context"
}

// orderedMap reports whether e is a map whose key type can be sorted (strings, integers).
func (r *rewriter) orderedMap(e ast.Expr) bool {
	t := r.info.TypeOf(e)
	if t == nil {
		return false
	}
	m, ok := t.Underlying().(*types.Map)
	if !ok {
		return false
	}
	b, ok := m.Key().Underlying().(*types.Basic)
	if !ok {
		return false
	}
	return b.Info()&(types.IsString|types.IsInteger) != 0
}

// for k, v := range m { body }
//
//	=>  { _m := m; for _, k := range SortedKeys(_m) { v, _ok := _m[k]; if !_ok { continue }; body } }
//
// Go leaves the iteration order of a map unspecified; fixing one legal order makes executions
// reproducible (entries deleted before they are reached are skipped, as the spec requires).
func (r *rewriter) rewriteRangeMap(n *ast.RangeStmt) ast.Stmt {
	mv := r.fresh("m")
	okv := r.fresh("ok")
	var keyExpr ast.Expr
	var pre []ast.Stmt
	loopKey := ast.Expr(r.fresh("k"))
	keyIsBlank := n.Key == nil
	if kid, ok := n.Key.(*ast.Ident); ok && kid.Name == "_" {
		keyIsBlank = true
	}
	tok := token.DEFINE
	if !keyIsBlank {
		if n.Tok == token.DEFINE {
			loopKey = n.Key
		} else {
			pre = append(pre, &ast.AssignStmt{Lhs: []ast.Expr{n.Key}, Tok: token.ASSIGN, Rhs: []ast.Expr{loopKey}})
		}
	}
	keyExpr = loopKey
	valIsBlank := n.Value == nil
	if vid, ok := n.Value.(*ast.Ident); ok && vid.Name == "_" {
		valIsBlank = true
	}
	var body []ast.Stmt
	idx := &ast.IndexExpr{X: mv, Index: keyExpr}
	if valIsBlank {
		body = append(body, &ast.AssignStmt{Lhs: []ast.Expr{id("_"), okv}, Tok: token.DEFINE, Rhs: []ast.Expr{idx}})
	} else if n.Tok == token.DEFINE {
		body = append(body, &ast.AssignStmt{Lhs: []ast.Expr{n.Value, okv}, Tok: token.DEFINE, Rhs: []ast.Expr{idx}})
	} else {
		tmp := r.fresh("mv")
		body = append(body, &ast.AssignStmt{Lhs: []ast.Expr{tmp, okv}, Tok: token.DEFINE, Rhs: []ast.Expr{idx}})
		pre = append(pre, &ast.AssignStmt{Lhs: []ast.Expr{n.Value}, Tok: token.ASSIGN, Rhs: []ast.Expr{tmp}})
	}
	body = append(body, &ast.IfStmt{Cond: &ast.UnaryExpr{Op: token.NOT, X: okv}, Body: &ast.BlockStmt{List: []ast.Stmt{&ast.BranchStmt{Tok: token.CONTINUE}}}})
	body = append(body, pre...)
	body = append(body, n.Body.List...)
	loop := &ast.RangeStmt{Key: id("_"), Value: loopKey, Tok: tok, X: call(sched("SortedKeys"), mv), Body: &ast.BlockStmt{List: body}}
	return &ast.BlockStmt{List: []ast.Stmt{
		&ast.AssignStmt{Lhs: []ast.Expr{mv}, Tok: token.DEFINE, Rhs: []ast.Expr{n.X}},
		loop,
	}}
}

func (r *rewriter) chanOf(e ast.Expr) *types.Chan {
	t := r.info.TypeOf(e)
	if t == nil {
		return nil
	}
	c, _ := t.Underlying().(*types.Chan)
	return c
}

func (r *rewriter) run() bool {
	// 1. imports
	for _, imp := range r.file.Imports {
		p, _ := strconv.Unquote(imp.Path.Value)
		if sh, ok := shimImports[p]; ok {
			name := sh[1]
			if imp.Name != nil {
				if imp.Name.Name == "_" || imp.Name.Name == "." {
					broken("%s: unsupported import form of %s", r.path, p)
				}
				name = imp.Name.Name
			}
			if p == "context" {
				r.ctxName = name
			}
			imp.Path.Value = strconv.Quote(sh[0])
			imp.Name = id(name)
			imp.EndPos = 0
			r.changed = true
			st.Imports++
		}
		if p == "os/exec" || p == "net" {
			// allowed (exec only behind the stdio hook); nothing to rewrite
		}
	}
	// remember build constraint, then drop all comments (generated nodes have no positions)
	for _, cg := range r.file.Comments {
		for _, c := range cg.List {
			if strings.HasPrefix(c.Text, "//go:build ") && c.Pos() < r.file.Package {
				r.buildLine = c.Text
			}
			if strings.HasPrefix(c.Text, "//go:") && !strings.HasPrefix(c.Text, "//go:build") && !strings.HasPrefix(c.Text, "//go:generate") {
				broken("%s: compiler directive %q would be lost by the rewrite", r.path, c.Text)
			}
		}
	}

	pre := func(c *astutil.Cursor) bool {
		switch n := c.Node().(type) {
		case *ast.CommClause:
			if n.Comm != nil {
				switch s := n.Comm.(type) {
				case *ast.SendStmt:
					r.skip[s] = true
				case *ast.ExprStmt:
					r.skip[unparen(s.X)] = true
				case *ast.AssignStmt:
					if len(s.Rhs) == 1 {
						r.skip[unparen(s.Rhs[0])] = true
					}
				}
			}
		}
		return true
	}
	post := func(c *astutil.Cursor) bool {
		switch n := c.Node().(type) {
		case *ast.SendStmt:
			if r.skip[n] {
				return true
			}
			if cap0(r, n.Chan) {
				// fine: checked dynamically by the probe (unbuffered data channel panics loudly)
			}
			c.Replace(&ast.ExprStmt{X: call(sched("Send"), n.Chan, n.Value)})
			r.mark()
			st.Sends++
		case *ast.UnaryExpr:
			if n.Op != token.ARROW || r.skip[n] {
				return true
			}
			// v, ok := <-ch ?
			fn := "Recv"
			if as, ok := c.Parent().(*ast.AssignStmt); ok && len(as.Lhs) == 2 && len(as.Rhs) == 1 {
				fn = "Recv2"
			}
			if vs, ok := c.Parent().(*ast.ValueSpec); ok && len(vs.Names) == 2 && len(vs.Values) == 1 {
				fn = "Recv2"
			}
			c.Replace(call(sched(fn), n.X))
			r.mark()
			st.Recvs++
		case *ast.ParenExpr:
			// (<-ch) inside v, ok := (<-ch) is not supported
			if u, ok := n.X.(*ast.UnaryExpr); ok && u.Op == token.ARROW {
				if as, ok := c.Parent().(*ast.AssignStmt); ok && len(as.Lhs) == 2 {
					broken("%s: parenthesised two-value receive", r.pos(n))
				}
			}
		case *ast.CallExpr:
			if sel, ok := n.Fun.(*ast.SelectorExpr); ok && sel.Sel.Name == "Err" && len(n.Args) == 0 && r.isContext(sel.X) {
				name := r.ctxName
				if name == "" {
					name = "vcontext__"
					r.needCtx = true
				}
				c.Replace(call(&ast.SelectorExpr{X: id(name), Sel: id("Err")}, sel.X))
				r.changed = true
				st.CtxErr++
				return true
			}
			if fid, ok := n.Fun.(*ast.Ident); ok && fid.Name == "close" && len(n.Args) == 1 {
				if _, isBuiltin := r.info.Uses[fid].(*types.Builtin); isBuiltin {
					n.Fun = sched("Close")
					r.mark()
					st.Closes++
				}
			}
		case *ast.GoStmt:
			c.Replace(r.rewriteGo(n))
			r.mark()
			st.Gos++
		case *ast.RangeStmt:
			if mt := r.orderedMap(n.X); mt {
				if _, labeled := c.Parent().(*ast.LabeledStmt); labeled {
					broken("%s: labeled range over map", r.pos(n))
				}
				c.Replace(r.rewriteRangeMap(n))
				r.mark()
				st.MapRanges++
				return true
			}
			if r.isChan(n.X) {
				if _, labeled := c.Parent().(*ast.LabeledStmt); labeled {
					broken("%s: labeled range over channel", r.pos(n))
				}
				c.Replace(r.rewriteRangeChan(n))
				r.mark()
				st.Ranges++
			}
		case *ast.SelectStmt:
			if _, labeled := c.Parent().(*ast.LabeledStmt); labeled {
				broken("%s: labeled select", r.pos(n))
			}
			c.Replace(r.rewriteSelect(n))
			r.mark()
			st.Selects++
		}
		return true
	}
	astutil.Apply(r.file, pre, post)
	if !r.changed {
		return false
	}
	r.file.Comments = nil
	ast.Inspect(r.file, func(n ast.Node) bool {
		switch d := n.(type) {
		case *ast.File:
			d.Doc = nil
		case *ast.GenDecl:
			d.Doc = nil
		case *ast.FuncDecl:
			d.Doc = nil
		case *ast.Field:
			d.Doc, d.Comment = nil, nil
		case *ast.ValueSpec:
			d.Doc, d.Comment = nil, nil
		case *ast.TypeSpec:
			d.Doc, d.Comment = nil, nil
		case *ast.ImportSpec:
			d.Doc, d.Comment = nil, nil
		}
		return true
	})
	if r.needSched {
		astutil.AddNamedImport(r.fset, r.file, vschedName, vschedPath)
	}
	if r.needCtx {
		astutil.AddNamedImport(r.fset, r.file, "vcontext__", vcontextPath)
	}
	return true
}

func cap0(r *rewriter, e ast.Expr) bool { return false }

// pureExpr: identifiers, selectors of pure expressions, &pure, *pure, literals, parenthesised.
func pureExpr(e ast.Expr) bool {
	switch x := e.(type) {
	case *ast.Ident, *ast.BasicLit:
		return true
	case *ast.SelectorExpr:
		return pureExpr(x.X)
	case *ast.ParenExpr:
		return pureExpr(x.X)
	case *ast.StarExpr:
		return pureExpr(x.X)
	case *ast.UnaryExpr:
		return x.Op == token.AND && pureExpr(x.X)
	}
	return false
}

func (r *rewriter) mark() { r.changed = true; r.needSched = true }

// go f(a, b)  =>  { _fn := f; _a0, _a1 := a, b; vsched.Go(site, func() { _fn(_a0, _a1) }) }
func (r *rewriter) rewriteGo(n *ast.GoStmt) ast.Stmt {
	site := r.pos(n)
	callx := n.Call
	var stmts []ast.Stmt
	var fun ast.Expr
	if fl, ok := callx.Fun.(*ast.FuncLit); ok && len(callx.Args) == 0 {
		// go func() {...}()  — pass the literal directly
		return &ast.ExprStmt{X: call(sched("Go"), strlit(site), fl)}
	}
	fn := r.fresh("fn")
	stmts = append(stmts, &ast.AssignStmt{Lhs: []ast.Expr{fn}, Tok: token.DEFINE, Rhs: []ast.Expr{callx.Fun}})
	fun = fn
	var args []ast.Expr
	for _, a := range callx.Args {
		tv, ok := r.info.Types[a]
		if ok && tv.Value != nil {
			if b, isBasic := tv.Type.(*types.Basic); isBasic && b.Info()&types.IsUntyped != 0 {
				broken("%s: untyped constant argument in go statement", site)
			}
		}
		if tup, isTuple := r.info.TypeOf(a).(*types.Tuple); isTuple && tup.Len() > 1 {
			broken("%s: multi-value argument in go statement", site)
		}
		t := r.fresh("a")
		stmts = append(stmts, &ast.AssignStmt{Lhs: []ast.Expr{t}, Tok: token.DEFINE, Rhs: []ast.Expr{a}})
		args = append(args, t)
	}
	inner := &ast.CallExpr{Fun: fun, Args: args, Ellipsis: callx.Ellipsis}
	if callx.Ellipsis.IsValid() {
		inner.Ellipsis = 1
	}
	lit := &ast.FuncLit{Type: &ast.FuncType{Params: &ast.FieldList{}}, Body: &ast.BlockStmt{List: []ast.Stmt{&ast.ExprStmt{X: inner}}}}
	stmts = append(stmts, &ast.ExprStmt{X: call(sched("Go"), strlit(site), lit)})
	return &ast.BlockStmt{List: stmts}
}

// for k := range ch { body }  =>  { _ch := ch; for { k, _ok := Recv2(_ch); if !_ok { break }; body } }
func (r *rewriter) rewriteRangeChan(n *ast.RangeStmt) ast.Stmt {
	chv := r.fresh("ch")
	okv := r.fresh("ok")
	var lhs ast.Expr = id("_")
	tok := token.DEFINE
	var pre []ast.Stmt
	if n.Key != nil {
		if n.Tok == token.DEFINE {
			lhs = n.Key
		} else {
			tmp := r.fresh("rv")
			lhs = tmp
			pre = append(pre, &ast.AssignStmt{Lhs: []ast.Expr{n.Key}, Tok: token.ASSIGN, Rhs: []ast.Expr{tmp}})
		}
	}
	recv := &ast.AssignStmt{Lhs: []ast.Expr{lhs, okv}, Tok: tok, Rhs: []ast.Expr{call(sched("Recv2"), chv)}}
	brk := &ast.IfStmt{Cond: &ast.UnaryExpr{Op: token.NOT, X: okv}, Body: &ast.BlockStmt{List: []ast.Stmt{&ast.BranchStmt{Tok: token.BREAK}}}}
	body := append([]ast.Stmt{recv, brk}, pre...)
	body = append(body, n.Body.List...)
	loop := &ast.ForStmt{Body: &ast.BlockStmt{List: body}}
	return &ast.BlockStmt{List: []ast.Stmt{
		&ast.AssignStmt{Lhs: []ast.Expr{chv}, Tok: token.DEFINE, Rhs: []ast.Expr{n.X}},
		loop,
	}}
}

func (r *rewriter) rewriteSelect(n *ast.SelectStmt) ast.Stmt {
	var pre []ast.Stmt
	var cases []ast.Expr
	var clauses []ast.Stmt
	hasDefault := false
	idx := 0
	for _, cs := range n.Body.List {
		cc := cs.(*ast.CommClause)
		if cc.Comm == nil {
			hasDefault = true
			clauses = append(clauses, &ast.CaseClause{List: nil, Body: cc.Body})
			continue
		}
		chv := r.fresh("c")
		var op ast.Stmt
		switch s := cc.Comm.(type) {
		case *ast.SendStmt:
			// Go evaluates the value on entry to the select; evaluating it in the chosen arm is
			// equivalent only for side-effect free operands, so anything else is refused.
			pre = append(pre,
				&ast.AssignStmt{Lhs: []ast.Expr{chv}, Tok: token.DEFINE, Rhs: []ast.Expr{s.Chan}},
			)
			vv := s.Value
			if !pureExpr(s.Value) {
				// Go evaluates every send value once, on entry to the select, in source order: an
				// operand with possible side effects (a call, an index, ...) is bound to a temporary
				// there. Its static type is the operand's own; the send converts it as before.
				if tv, ok := r.info.Types[s.Value]; ok && tv.Value != nil {
					broken("%s: constant expression as send value in select", r.pos(cc))
				}
				tmp := r.fresh("sv")
				pre = append(pre, &ast.AssignStmt{Lhs: []ast.Expr{tmp}, Tok: token.DEFINE, Rhs: []ast.Expr{s.Value}})
				vv = tmp
			}
			cases = append(cases, call(sched("SendCase"), chv))
			op = &ast.SendStmt{Chan: chv, Value: vv}
		case *ast.ExprStmt:
			u := unparen(s.X).(*ast.UnaryExpr)
			pre = append(pre, &ast.AssignStmt{Lhs: []ast.Expr{chv}, Tok: token.DEFINE, Rhs: []ast.Expr{u.X}})
			cases = append(cases, call(sched("RecvCase"), chv))
			op = &ast.ExprStmt{X: &ast.UnaryExpr{Op: token.ARROW, X: chv}}
		case *ast.AssignStmt:
			u := unparen(s.Rhs[0]).(*ast.UnaryExpr)
			pre = append(pre, &ast.AssignStmt{Lhs: []ast.Expr{chv}, Tok: token.DEFINE, Rhs: []ast.Expr{u.X}})
			cases = append(cases, call(sched("RecvCase"), chv))
			op = &ast.AssignStmt{Lhs: s.Lhs, Tok: s.Tok, Rhs: []ast.Expr{&ast.UnaryExpr{Op: token.ARROW, X: chv}}}
		default:
			broken("%s: unknown comm clause", r.pos(cc))
		}
		body := append([]ast.Stmt{op}, cc.Body...)
		clauses = append(clauses, &ast.CaseClause{List: []ast.Expr{&ast.BasicLit{Kind: token.INT, Value: strconv.Itoa(idx)}}, Body: body})
		idx++
	}
	hd := id("false")
	if hasDefault {
		hd = id("true")
	} else {
		// keep the statement "terminating" when the select was (Go spec: a switch needs a default)
		clauses = append(clauses, &ast.CaseClause{List: nil, Body: []ast.Stmt{
			&ast.ExprStmt{X: call(id("panic"), strlit("vsched: unreachable select arm"))}}})
	}
	args := append([]ast.Expr{hd}, cases...)
	sw := &ast.SwitchStmt{Tag: call(sched("Select"), args...), Body: &ast.BlockStmt{List: clauses}}
	return &ast.BlockStmt{List: append(pre, sw)}
}
