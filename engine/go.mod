module verif.local/engine

go 1.20
