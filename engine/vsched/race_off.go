//go:build !race

package vsched

// RaceEnabled reports whether the binary was built with -race.
const RaceEnabled = false

func raceIgnoreBegin() {}
func raceIgnoreEnd()   {}
