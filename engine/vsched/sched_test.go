package vsched_test

import (
	"fmt"
	"testing"

	"verif.local/engine/explore"
	"verif.local/engine/vsched"
	sync "verif.local/engine/vsync"
)

// lost update: needs exactly one preemption between load and store.
func lostUpdate(withLock bool) explore.RunFunc {
	return func(prefix []int, meta []vsched.ChoicePoint) explore.Outcome {
		var x int
		var mu sync.Mutex
		done := 0
		res := vsched.Run(vsched.Config{Prefix: prefix}, func() {
			for i := 0; i < 2; i++ {
				vsched.Go("inc", func() {
					if withLock {
						mu.Lock()
					}
					vsched.Yield("load")
					v := x
					vsched.Yield("store")
					x = v + 1
					if withLock {
						mu.Unlock()
					}
					done++
				})
			}
			vsched.Quiesce()
		})
		o := explore.Outcome{Trace: res.Trace, ObsKey: fmt.Sprint(x), Nontrivial: true}
		if res.Deadlock || done != 2 {
			o.Violations = append(o.Violations, explore.Violation{Key: "deadlock", Msg: fmt.Sprint(res.Blocked)})
		}
		if x != 2 {
			o.Violations = append(o.Violations, explore.Violation{Key: "lost", Msg: fmt.Sprintf("x=%d", x)})
		}
		return o
	}
}

func TestLostUpdate(t *testing.T) {
	for p := 0; p <= 2; p++ {
		st := explore.NewStats()
		explore.Subtree(lostUpdate(false), nil, explore.Bounds{Preempt: p}, st)
		t.Logf("nolock P=%d execs=%d viol=%d outcomes=%v", p, st.Executions, st.ViolCount, st.Outcomes)
		if p == 0 && st.ViolCount != 0 {
			t.Fatalf("P=0 must not find the lost update")
		}
		if p >= 1 && st.ViolCount == 0 {
			t.Fatalf("P=%d must find the lost update", p)
		}
		st = explore.NewStats()
		explore.Subtree(lostUpdate(true), nil, explore.Bounds{Preempt: p}, st)
		t.Logf("lock   P=%d execs=%d viol=%d outcomes=%v", p, st.Executions, st.ViolCount, st.Outcomes)
		if st.ViolCount != 0 {
			t.Fatalf("locked version must hold: %+v", st.Violations)
		}
	}
}

func TestDeadlockABBA(t *testing.T) {
	run := func(prefix []int, meta []vsched.ChoicePoint) explore.Outcome {
		var a, b sync.Mutex
		res := vsched.Run(vsched.Config{Prefix: prefix}, func() {
			vsched.Go("ab", func() { a.Lock(); b.Lock(); b.Unlock(); a.Unlock() })
			vsched.Go("ba", func() { b.Lock(); a.Lock(); a.Unlock(); b.Unlock() })
			vsched.Quiesce()
		})
		o := explore.Outcome{Trace: res.Trace, ObsKey: fmt.Sprint(len(res.Blocked))}
		if len(res.Blocked) > 0 {
			o.Violations = append(o.Violations, explore.Violation{Key: "deadlock", Msg: fmt.Sprint(res.Blocked)})
		}
		return o
	}
	st := explore.NewStats()
	explore.Subtree(run, nil, explore.Bounds{Preempt: 1}, st)
	t.Logf("execs=%d viol=%d", st.Executions, st.ViolCount)
	if st.ViolCount == 0 {
		t.Fatal("AB-BA deadlock not found")
	}
	// replay determinism
	v := st.Violations[0]
	o1 := run(v.Choices, nil)
	o2 := run(v.Choices, nil)
	if len(o1.Violations) == 0 || len(o2.Violations) == 0 || fmt.Sprint(o1.Trace) != fmt.Sprint(o2.Trace) {
		t.Fatal("replay not deterministic")
	}
}

func TestChannelsAndSelect(t *testing.T) {
	run := func(prefix []int, meta []vsched.ChoicePoint) explore.Outcome {
		got := ""
		res := vsched.Run(vsched.Config{Prefix: prefix}, func() {
			c1 := make(chan int, 1)
			c2 := make(chan int, 1)
			done := make(chan struct{})
			vsched.Go("p1", func() { vsched.Send(c1, 1) })
			vsched.Go("p2", func() { vsched.Send(c2, 2) })
			vsched.Go("closer", func() { vsched.Close(done) })
			for i := 0; i < 3; i++ {
				switch vsched.Select(false, vsched.RecvCase(c1), vsched.RecvCase(c2), vsched.RecvCase(done)) {
				case 0:
					got += fmt.Sprint(<-c1)
				case 1:
					got += fmt.Sprint(<-c2)
				case 2:
					<-done
					got += "d"
				}
			}
		})
		o := explore.Outcome{Trace: res.Trace, ObsKey: got}
		if res.Deadlock {
			o.Violations = append(o.Violations, explore.Violation{Key: "deadlock"})
		}
		return o
	}
	st := explore.NewStats()
	explore.Subtree(run, nil, explore.Bounds{Preempt: 2, Dev: 3}, st)
	t.Logf("execs=%d outcomes=%v", st.Executions, st.Outcomes)
	if st.ViolCount != 0 {
		t.Fatalf("unexpected: %+v", st.Violations)
	}
	if len(st.Outcomes) < 6 {
		t.Fatalf("expected many distinct orders, got %v", st.Outcomes)
	}
}

func TestTimersAndAbort(t *testing.T) {
	for i := 0; i < 200; i++ {
		fired := false
		res := vsched.Run(vsched.Config{}, func() {
			tk := vsched.NewTicker(1000)
			vsched.Go("daemon", func() {
				for {
					vsched.Recv(tk.C)
				}
			})
			vsched.Go("blocked-forever", func() {
				var m sync.Mutex
				m.Lock()
				defer m.Unlock()
				m.Lock()
			})
			tm := vsched.NewTimer(5000)
			vsched.Recv(tm.C)
			fired = true
		})
		if !fired || res.Deadlock {
			t.Fatalf("timer did not fire: %+v", res)
		}
	}
}
