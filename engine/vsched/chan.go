package vsched

import (
	"reflect"
	"runtime"
	"sort"
)

// Case is one communication clause of a rewritten select statement.
type Case struct {
	p   Prober
	obj uintptr
}

type recvProbe[T any] struct{ ch <-chan T }

// Ready: a receive can proceed iff a value is buffered or the channel is closed. With an empty
// buffer a successful non-blocking receive can only mean "closed" because no controlled sender is
// ever parked inside the runtime (all data channels of the library are buffered; see DESIGN A.2).
//
//go:norace
func (p recvProbe[T]) Ready() bool {
	if p.ch == nil {
		return false
	}
	if len(p.ch) > 0 {
		return true
	}
	select {
	case _, ok := <-p.ch:
		if ok {
			panic("vsched: value received from a channel with empty buffer (unbuffered data channel?)")
		}
		return true
	default:
		return false
	}
}

type sendProbe[T any] struct{ ch chan<- T }

//go:norace
func (p sendProbe[T]) Ready() bool {
	if p.ch == nil {
		return false
	}
	if cap(p.ch) == 0 {
		panic("vsched: send on unbuffered channel is not modelled")
	}
	if len(p.ch) < cap(p.ch) {
		return true
	}
	return isMarkedClosed(chanPtr(p.ch)) // if closed the real send will panic, exactly as in Go
}

// NOTE: //go:norace is not honoured for instantiations of generic functions, so the generic
// helpers in this file never touch scheduler state directly; they call the non-generic functions
// below.

//go:norace
func isMarkedClosed(p uintptr) bool {
	s := cur
	return s != nil && s.closed[p]
}

//go:norace
func markClosed(p uintptr) {
	s := cur
	if s != nil {
		s.closed[p] = true
	}
}

//go:norace
func chanPtr(ch interface{}) uintptr { return reflect.ValueOf(ch).Pointer() }

// RecvCase / SendCase build select clauses.
//
//go:norace
func RecvCase[T any](ch <-chan T) Case { return Case{recvProbe[T]{ch}, chanPtrOrZero(ch)} }

//go:norace
func SendCase[T any](ch chan<- T) Case { return Case{sendProbe[T]{ch}, chanPtrOrZero(ch)} }

// Send is the rewritten `ch <- v`.
//
//go:norace
func Send[T any](ch chan<- T, v T) {
	if Active() {
		BlockObj("chan.send", sendProbe[T]{ch}, chanPtrOrZero(ch), true)
		if Exiting() {
			runtime.Goexit()
		}
	}
	ch <- v
}

// Recv is the rewritten `<-ch`.
//
//go:norace
func Recv[T any](ch <-chan T) T {
	if Active() {
		BlockObj("chan.recv", recvProbe[T]{ch}, chanPtrOrZero(ch), true)
		if Exiting() {
			runtime.Goexit()
		}
	}
	return <-ch
}

// Recv2 is the rewritten `v, ok := <-ch`.
//
//go:norace
func Recv2[T any](ch <-chan T) (T, bool) {
	if Active() {
		BlockObj("chan.recv", recvProbe[T]{ch}, chanPtrOrZero(ch), true)
		if Exiting() {
			runtime.Goexit()
		}
	}
	v, ok := <-ch
	return v, ok
}

// Close is the rewritten close(ch).
//
//go:norace
func Close[T any](ch chan<- T) {
	if Active() {
		YieldObj("chan.close", chanPtrOrZero(ch), true)
		markClosed(chanPtr(ch))
	}
	close(ch)
}

type selectProbe struct{ cases []Case }

//go:norace
func (p selectProbe) Ready() bool {
	for _, c := range p.cases {
		if c.p.Ready() {
			return true
		}
	}
	return false
}

// Select is the rewritten select statement. It returns the index of the clause to execute; the
// corresponding real channel operation is then guaranteed not to block. With hasDefault it
// returns -1 when no clause is ready. If several clauses are ready the scheduler enumerates the
// choice (Go picks pseudo-randomly).
//
//go:norace
func Select(hasDefault bool, cases ...Case) int {
	s := cur
	if s == nil {
		panic("vsched.Select outside an execution")
	}
	var objs [16]uintptr
	no := 0
	for _, c := range cases {
		if c.obj != 0 && no < len(objs) {
			objs[no] = c.obj
			no++
		}
	}
	if hasDefault {
		BlockObjs("select.poll", nil, objs[:no], false)
	} else {
		BlockObjs("select", selectProbe{cases}, objs[:no], true)
	}
	if Exiting() {
		runtime.Goexit()
	}
	var ready [16]int
	n := 0
	for i, c := range cases {
		if c.p.Ready() && n < len(ready) {
			ready[n] = i
			n++
		}
	}
	if n == 0 {
		if hasDefault {
			return -1
		}
		panic("vsched.Select: scheduled with no ready case")
	}
	if n == 1 {
		return ready[0]
	}
	return ready[Choose("select", n)]
}

// ElemOf returns v typed as the element type of ch (used by the select rewrite to evaluate a send
// value once, up front, with the type the send statement would have given it).
//
//go:norace
func ElemOf[T any](ch chan<- T, v T) T { return v }

// chanPtrOrZero is chanPtr tolerating nil channels (a nil channel is no object: never ready).
// A distinct non-zero id is returned for nil so that it is not mistaken for "unknown effect".
//
//go:norace
func chanPtrOrZero(ch interface{}) uintptr {
	p := reflect.ValueOf(ch).Pointer()
	if p == 0 {
		return 1
	}
	return p
}

type orderedKey interface {
	~int | ~int8 | ~int16 | ~int32 | ~int64 | ~uint | ~uint8 | ~uint16 | ~uint32 | ~uint64 | ~uintptr | ~string
}

// SortedKeys returns the keys of m in ascending order (used by the rewritten `for range` over
// maps: Go leaves the iteration order unspecified, the checker fixes one legal order so that an
// execution is a function of its choice list).
func SortedKeys[K orderedKey, V any](m map[K]V) []K {
	keys := make([]K, 0, len(m))
	for k := range m {
		keys = append(keys, k)
	}
	sort.Slice(keys, func(i, j int) bool { return keys[i] < keys[j] })
	return keys
}
