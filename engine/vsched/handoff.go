package vsched

import (
	"syscall"
	"unsafe"
)

const (
	futexWaitPrivate = 0 | 128
	futexWakePrivate = 1 | 128
)

//go:norace
func futexWait(addr *uint32, val uint32) {
	syscall.Syscall6(syscall.SYS_FUTEX, uintptr(unsafe.Pointer(addr)), futexWaitPrivate, uintptr(val), 0, 0, 0)
}

//go:norace
func futexWake(addr *uint32) {
	syscall.Syscall6(syscall.SYS_FUTEX, uintptr(unsafe.Pointer(addr)), futexWakePrivate, 1, 0, 0, 0)
}

// park blocks the calling goroutine until unpark. Plain memory accesses plus a raw futex: the
// race detector sees no synchronisation here.
//
//go:norace
func (t *thread) park() {
	for t.wake == 0 {
		futexWait(&t.wake, 0)
	}
	t.wake = 0
}

//go:norace
func (t *thread) unpark() {
	t.wake = 1
	futexWake(&t.wake)
}
