//go:build race

package vsched

import "runtime"

// RaceEnabled reports whether the binary was built with -race.
const RaceEnabled = true

//go:norace
func raceIgnoreBegin() { runtime.RaceDisable() }

//go:norace
func raceIgnoreEnd() { runtime.RaceEnable() }
