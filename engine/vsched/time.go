package vsched

import "time"

// Timer is a virtual timer; its channel receives the virtual time when the scheduler fires it.
type Timer struct {
	C       chan time.Time
	when    int64
	period  int64
	stopped bool
	seq     int
	tid     int // creating thread and its per-thread sequence number: the tie-break among equal
	tseq    int // deadlines must not depend on the interleaving of independent creations
}

var epoch = time.Date(2030, 1, 1, 0, 0, 0, 0, time.UTC)

// NowNanos returns virtual nanoseconds since the epoch of the execution.
//
//go:norace
func NowNanos() int64 {
	s := cur
	if s == nil {
		return 0
	}
	return s.now
}

// Now returns the virtual wall clock.
//
//go:norace
func Now() time.Time {
	s := cur
	if s == nil {
		return time.Now()
	}
	return epoch.Add(time.Duration(s.now))
}

// AdvanceClock moves the virtual clock forward without firing timers that are not yet due.
//
//go:norace
func AdvanceClock(d time.Duration) {
	s := cur
	if s == nil {
		return
	}
	s.now += int64(d)
}

//go:norace
func newTimer(d time.Duration, period time.Duration) *Timer {
	s := cur
	t := &Timer{C: make(chan time.Time, 1)}
	if s == nil {
		panic("vsched: virtual timer outside an execution")
	}
	if d < 0 {
		d = 0
	}
	t.when = s.now + int64(d)
	t.period = int64(period)
	t.seq = len(s.timers)
	if s.running != nil {
		t.tid = s.running.id
		s.running.timers++
		t.tseq = s.running.timers
	}
	s.timers = append(s.timers, t)
	return t
}

// NewTimer registers a one-shot virtual timer.
//
//go:norace
func NewTimer(d time.Duration) *Timer { return newTimer(d, 0) }

// NewTicker registers a periodic virtual timer.
//
//go:norace
func NewTicker(d time.Duration) *Timer { return newTimer(d, d) }

// Stop prevents the timer from firing.
//
//go:norace
func (t *Timer) Stop() bool {
	was := !t.stopped
	t.stopped = true
	return was
}

//go:norace
func (s *Sched) earliestTimer() *Timer {
	var best *Timer
	for _, t := range s.timers {
		if t.stopped {
			continue
		}
		if best == nil || t.when < best.when || (t.when == best.when && (t.tid < best.tid || (t.tid == best.tid && t.tseq < best.tseq))) {
			best = t
		}
	}
	return best
}

// fireEarliestTimer advances the clock to the earliest pending timer and delivers it.
//
//go:norace
func (s *Sched) fireEarliestTimer(dev bool) bool {
	t := s.earliestTimer()
	if t == nil {
		return false
	}
	if s.fired >= s.cfg.MaxTimerFire {
		return false
	}
	s.fired++
	if t.when > s.now {
		s.now = t.when
	}
	select {
	case t.C <- epoch.Add(time.Duration(s.now)):
	default:
	}
	if t.period > 0 {
		t.when += t.period
	} else {
		t.stopped = true
	}
	return true
}

// PendingTimers reports the number of armed virtual timers.
//
//go:norace
func PendingTimers() int {
	s := cur
	if s == nil {
		return 0
	}
	n := 0
	for _, t := range s.timers {
		if !t.stopped {
			n++
		}
	}
	return n
}

// Sleep blocks the caller for d of virtual time.
//
//go:norace
func Sleep(d time.Duration) {
	if cur == nil {
		time.Sleep(d)
		return
	}
	t := NewTimer(d)
	Recv(t.C)
}

// ClockRead is the scheduling point of a clock read. With cfg.ClockTick the environment may let
// the millisecond clock tick before the read (a deviation).
//
//go:norace
func ClockRead() {
	s := cur
	if s == nil {
		return
	}
	if s.aborting || s.ending {
		return
	}
	if s.cfg.ClockTick {
		if s.choose("env:clocktick", 2, false, true) == 1 {
			s.now += int64(time.Millisecond)
		}
	}
}

// FireEarliestTimer lets a harness thread play the clock: the earliest armed timer fires now
// (virtual time jumps to its deadline). It is a scheduling point with unknown effects.
//
//go:norace
func FireEarliestTimer() bool {
	s := cur
	if s == nil {
		return false
	}
	Yield("clock.fire")
	if Exiting() {
		return false
	}
	return s.fireEarliestTimer(true)
}
