// Package vsched is a cooperative, fully controlled scheduler for model checking real Go code.
//
// Exactly one controlled thread (a real goroutine) runs at any time. A thread gives up control
// only at Points: calls made by the shims (vsync, vatomic, vtime, memnet) and by the rewritten
// channel operations. Every nondeterministic decision is a recorded integer choice, so that an
// execution is a pure function of its choice list and can be replayed or systematically varied.
//
// All scheduler state is touched with plain loads/stores from //go:norace code and hand-offs use
// raw futex system calls, so the scheduler itself creates no happens-before edges that the Go
// race detector could see: under -race each explored execution is judged by exactly the
// synchronisation the program under test performs.
package vsched

import (
	"fmt"
	"sync"
	"runtime"
	"runtime/debug"
	"strings"
)

// Prober is a side-effect free enabledness test of a blocked operation.
// Implementations must be //go:norace methods (closures do not inherit the pragma).
type Prober interface{ Ready() bool }

const (
	tNew = iota
	tReady
	tBlocked
	tQuiesce
	tDone
)

type thread struct {
	id      int
	site    string
	wake    uint32
	state   int
	probe   Prober
	what    string
	exiting bool
	steps   int
	fn      func()
}

// ChoicePoint is one recorded nondeterministic decision.
type ChoicePoint struct {
	Kind    string `json:"k"`
	N       int    `json:"n"`
	Chosen  int    `json:"c"`
	Preempt bool   `json:"p,omitempty"` // a non-zero alternative here costs one preemption
	Dev     bool   `json:"d,omitempty"` // a non-zero alternative here costs one deviation
}

// PanicInfo records a panic that escaped a controlled thread.
type PanicInfo struct {
	Thread  string `json:"thread"`
	Value   string `json:"value"`
	Stack   string `json:"stack"`
	Handler bool   `json:"handler"` // recovered at an HTTP-handler boundary (net/http would survive)
}

// Result describes one finished execution.
type Result struct {
	Trace      []ChoicePoint
	Deadlock   bool
	Horizon    bool
	Blocked    []string // description of threads that were still blocked when the execution ended
	Panics     []PanicInfo
	Steps      int
	Threads    int
	Divergence string // non-empty: replay prefix did not match (harness broken)
	Switches   int
}

// Config of one execution.
type Config struct {
	Prefix       []int         // choices to replay; beyond it choice 0 is taken
	PrefixMeta   []ChoicePoint // optional: expected kind/N of the prefix choices (divergence check)
	MaxSteps     int           // horizon in scheduling points (default 200000)
	MaxTimerFire int           // bound on spontaneous virtual-timer firings when idle (default 64)
	TimerDev     bool          // offer "earliest timer fires now" as an environment deviation
	ClockTick    bool          // offer "the millisecond clock ticks before this Now()" as a deviation
}

// Sched is the state of the running execution.
type Sched struct {
	cfg      Config
	threads  []*thread
	running  *thread
	ctl      thread
	trace    []ChoicePoint
	aborting bool
	ending   bool
	res      *Result
	now      int64
	timers   []*Timer
	fired    int
	steps    int
	closed   map[uintptr]bool
	locals   map[string]interface{}
	nextTID  int
	noBranch bool
}

var cur *Sched

// endSync gives the controller a real happens-before edge from the end of every controlled thread
// (so that harness code may read what the threads wrote once Run has returned). It is touched only
// at thread exit, hence it orders nothing inside an execution.
var endSync sync.Mutex

// Cur returns the active scheduler or nil.
//
//go:norace
func Cur() *Sched { return cur }

// Active reports whether a controlled execution is in progress.
//
//go:norace
func Active() bool { return cur != nil }

// Run executes body as controlled thread 0 under cfg and returns when the execution has ended
// and every controlled goroutine has exited.
//
//go:norace
func Run(cfg Config, body func()) *Result {
	if cur != nil {
		panic("vsched: nested Run")
	}
	if cfg.MaxSteps == 0 {
		cfg.MaxSteps = 200000
	}
	if cfg.MaxTimerFire == 0 {
		cfg.MaxTimerFire = 64
	}
	s := &Sched{cfg: cfg, res: &Result{}, closed: map[uintptr]bool{}, locals: map[string]interface{}{}}
	s.ctl.site = "controller"
	cur = s
	t0 := s.newThread("driver", body)
	s.running = t0
	t0.unpark()
	s.ctl.park()
	// the execution has ended (driver finished, deadlock, horizon or crash): tear down.
	s.aborting = true
	for i := 0; i < len(s.threads); i++ { // threads slice cannot grow in abort mode
		t := s.threads[i]
		if t.state != tDone {
			s.running = t
			t.unpark()
			s.ctl.park()
		}
	}
	endSync.Lock()
	endSync.Unlock()
	s.res.Trace = s.trace
	s.res.Steps = s.steps
	s.res.Threads = len(s.threads)
	cur = nil
	return s.res
}

//go:norace
func (s *Sched) newThread(site string, fn func()) *thread {
	t := &thread{id: s.nextTID, site: site, state: tNew, fn: fn}
	s.nextTID++
	s.threads = append(s.threads, t)
	go threadMain(s, t)
	return t
}

//go:norace
func threadMain(s *Sched, t *thread) {
	t.park()
	normal := false
	defer threadExit(s, t, &normal)
	if s.aborting {
		return
	}
	t.state = tReady
	t.fn()
	normal = true
}

//go:norace
func threadExit(s *Sched, t *thread, normal *bool) {
	endSync.Lock()
	endSync.Unlock()
	if !*normal {
		// recover unconditionally: a deferred function may panic (e.g. double close) while the
		// goroutine is being unwound by Goexit during tear-down; that must not kill the checker.
		if r := recover(); r != nil && !s.aborting && !s.ending {
			s.res.Panics = append(s.res.Panics, PanicInfo{Thread: t.name(), Value: fmt.Sprint(r), Stack: trimStack(debug.Stack())})
			// an unrecovered panic in any goroutine kills a real process: end the execution.
			t.state = tDone
			s.endExecution()
			return
		}
	}
	t.state = tDone
	if s.aborting {
		s.ctl.unpark()
		return
	}
	if t.id == 0 {
		s.endExecution()
		return
	}
	s.reschedule(t)
}

// endExecution hands control back to Run; the calling goroutine must return/exit afterwards.
//
//go:norace
func (s *Sched) endExecution() {
	if s.ending {
		return
	}
	s.ending = true
	for _, t := range s.threads {
		if t.state == tBlocked || t.state == tQuiesce {
			s.res.Blocked = append(s.res.Blocked, t.name()+": "+t.what)
		}
	}
	s.ctl.unpark()
}

//go:norace
func (t *thread) name() string { return fmt.Sprintf("T%d[%s]", t.id, t.site) }

//go:norace
func trimStack(b []byte) string {
	lines := strings.Split(string(b), "\n")
	out := []string{}
	for _, l := range lines {
		if strings.Contains(l, "runtime/debug") || strings.Contains(l, "vsched.threadExit") {
			continue
		}
		out = append(out, l)
		if len(out) > 60 {
			break
		}
	}
	return strings.Join(out, "\n")
}

// Go starts f as a new controlled thread (or a plain goroutine when no execution is active).
//
//go:norace
func Go(site string, f func()) {
	s := cur
	if s == nil {
		go f()
		return
	}
	if s.aborting {
		return
	}
	s.newThread(site, f)
}

// enabledList computes the enabled threads in canonical order: self first (if enabled), then ids.
//
//go:norace
func (s *Sched) enabledList(self *thread) []*thread {
	var en []*thread
	if self != nil && s.isEnabled(self) {
		en = append(en, self)
	}
	for _, t := range s.threads {
		if t == self {
			continue
		}
		if s.isEnabled(t) {
			en = append(en, t)
		}
	}
	return en
}

//go:norace
func (s *Sched) isEnabled(t *thread) bool {
	switch t.state {
	case tNew, tReady:
		return true
	case tBlocked:
		return t.probe.Ready()
	}
	return false
}

// reschedule is called by the thread holding the baton (self) after it has published its state.
// It returns when self has been chosen again (never, if self is done).
//
//go:norace
func (s *Sched) reschedule(self *thread) {
	// synchronisation events caused by probing (len/closed checks on channels, context polling)
	// must not become happens-before edges of the program under test.
	raceIgnoreBegin()
	s.rescheduleInner(self)
	raceIgnoreEnd()
	if self.state != tDone && s.aborting {
		self.exiting = true
		runtime.Goexit()
	}
}

//go:norace
func (s *Sched) rescheduleInner(self *thread) {
	for {
		s.steps++
		if s.steps > s.cfg.MaxSteps {
			s.res.Horizon = true
			s.endExecution()
			s.leave(self)
			return
		}
		selfEnabled := self.state != tDone && s.isEnabled(self)
		en := s.enabledList(self)
		nopts := len(en)
		timerOpt := false
		if s.cfg.TimerDev && nopts > 0 && s.earliestTimer() != nil {
			timerOpt = true
		}
		if nopts == 0 {
			if q := s.quiescer(); q != nil {
				// quiescence is reached without advancing virtual time
				q.state = tReady
				en = []*thread{q}
				nopts = 1
			} else if s.fireEarliestTimer(false) {
				continue
			} else {
				s.res.Deadlock = true
				s.endExecution()
				s.leave(self)
				return
			}
		}
		if timerOpt {
			if s.choose("env:timer", 2, false, true) == 1 {
				s.fireEarliestTimer(true)
				continue
			}
		}
		k := 0
		if nopts > 1 {
			k = s.choose("thread", nopts, selfEnabled, false)
		}
		next := en[k]
		if next == self {
			self.state = tReady
			self.probe = nil
			return
		}
		s.res.Switches++
		s.running = next
		next.unpark()
		s.leave(self)
		return
	}
}

// leave parks self until it is scheduled again (or exits the goroutine if self is done).
//
//go:norace
func (s *Sched) leave(self *thread) {
	if self.state == tDone {
		return
	}
	self.park()
	if s.aborting {
		return // reschedule() unwinds the goroutine after re-enabling race synchronisation events
	}
	self.state = tReady
	self.probe = nil
}

//go:norace
func (s *Sched) quiescer() *thread {
	for _, t := range s.threads {
		if t.state == tQuiesce {
			return t
		}
	}
	return nil
}

//go:norace
func (s *Sched) choose(kind string, n int, preempt, dev bool) int {
	if s.noBranch {
		return 0
	}
	idx := len(s.trace)
	c := 0
	if idx < len(s.cfg.Prefix) {
		c = s.cfg.Prefix[idx]
		if c >= n || c < 0 {
			s.diverge(fmt.Sprintf("choice %d: replayed value %d out of range (n=%d, kind=%s)", idx, c, n, kind))
			c = 0
		}
		if idx < len(s.cfg.PrefixMeta) {
			m := s.cfg.PrefixMeta[idx]
			if m.Kind != kind || m.N != n {
				s.diverge(fmt.Sprintf("choice %d: expected %s/%d, got %s/%d", idx, m.Kind, m.N, kind, n))
			}
		}
	}
	s.trace = append(s.trace, ChoicePoint{Kind: kind, N: n, Chosen: c, Preempt: preempt, Dev: dev})
	return c
}

//go:norace
func (s *Sched) diverge(msg string) {
	if s.res.Divergence == "" {
		s.res.Divergence = msg
	}
}

// inAbort handles a Point reached while the execution is being torn down. It returns true when
// the caller must skip scheduling (deferred functions running during Goexit).
//
//go:norace
func (s *Sched) inAbort(blocking bool) bool {
	if !s.aborting && !s.ending {
		return false
	}
	t := s.running
	if s.ending && !s.aborting {
		// the execution ended on this very goroutine (panic/horizon/deadlock); unwind it.
		if t != nil {
			t.exiting = true
		}
		runtime.Goexit()
	}
	if t != nil && t.exiting && !blocking {
		return true
	}
	if t != nil {
		t.exiting = true
	}
	runtime.Goexit()
	return true
}

// Yield is an always-enabled scheduling point.
//
//go:norace
func Yield(what string) {
	s := cur
	if s == nil {
		return
	}
	if s.inAbort(false) {
		return
	}
	t := s.running
	t.steps++
	t.state = tReady
	t.probe = nil
	t.what = what
	s.reschedule(t)
}

// Block is a scheduling point at which the calling thread waits until p.Ready().
//
//go:norace
func Block(what string, p Prober) {
	s := cur
	if s == nil {
		panic("vsched.Block outside an execution: " + what)
	}
	if s.inAbort(true) {
		return
	}
	t := s.running
	t.steps++
	t.state = tBlocked
	t.probe = p
	t.what = what
	s.reschedule(t)
}

// Quiesce blocks the caller until no other thread is enabled (virtual time is not advanced).
//
//go:norace
func Quiesce() {
	s := cur
	if s == nil {
		return
	}
	if s.inAbort(true) {
		return
	}
	t := s.running
	t.state = tQuiesce
	t.probe = nil
	t.what = "quiesce"
	s.reschedule(t)
}

// Choose is an environment decision with n alternatives; alternative 0 is the default and any
// other one costs one deviation.
//
//go:norace
func Choose(kind string, n int) int {
	s := cur
	if s == nil || n <= 1 {
		return 0
	}
	if s.aborting || s.ending {
		return 0
	}
	return s.choose("env:"+kind, n, false, true)
}

// ChooseFree is an environment decision whose alternatives are all free of cost (used for
// genuinely symmetric choices such as Go's select among several ready cases).
//
//go:norace
func ChooseFree(kind string, n int) int {
	s := cur
	if s == nil || n <= 1 {
		return 0
	}
	if s.aborting || s.ending {
		return 0
	}
	return s.choose("free:"+kind, n, false, false)
}

// RecordPanic lets an HTTP-handler boundary (memnet) report a recovered panic.
//
//go:norace
func RecordPanic(where string, v interface{}, stack []byte) {
	s := cur
	if s == nil {
		return
	}
	s.res.Panics = append(s.res.Panics, PanicInfo{Thread: s.running.name() + " " + where, Value: fmt.Sprint(v), Stack: trimStack(stack), Handler: true})
}

// ThreadID returns the id of the running controlled thread (-1 outside an execution).
//
//go:norace
func ThreadID() int {
	s := cur
	if s == nil || s.running == nil {
		return -1
	}
	return s.running.id
}

// LiveThreads describes the controlled threads that have not finished, excluding the caller.
//
//go:norace
func LiveThreads() []string {
	s := cur
	if s == nil {
		return nil
	}
	var out []string
	for _, t := range s.threads {
		if t.state != tDone && t != s.running {
			out = append(out, t.site+": "+t.what)
		}
	}
	return out
}

// Local returns a per-execution value slot (created by mk on first use).
//
//go:norace
func Local(key string, mk func() interface{}) interface{} {
	s := cur
	if s == nil {
		return mk()
	}
	v, ok := s.locals[key]
	if !ok {
		v = mk()
		s.locals[key] = v
	}
	return v
}

// Exiting reports whether the calling thread is unwinding because the execution is over.
//
//go:norace
func Exiting() bool {
	s := cur
	if s == nil {
		return false
	}
	return s.aborting || s.ending
}

// SetBranching switches the recording of choice points on or off. While it is off every decision
// takes its default (choice 0): harnesses use this for deterministic preludes (handshakes) whose
// interleavings are not the subject of the scenario.
//
//go:norace
func SetBranching(on bool) {
	s := cur
	if s == nil {
		return
	}
	s.noBranch = !on
}
