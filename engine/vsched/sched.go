// Package vsched is a cooperative, fully controlled scheduler for model checking real Go code.
//
// Exactly one controlled thread (a real goroutine) runs at any time. A thread gives up control
// only at Points: calls made by the shims (vsync, vatomic, vtime, memnet) and by the rewritten
// channel operations. Every nondeterministic decision is a recorded integer choice, so that an
// execution is a pure function of its choice list and can be replayed or systematically varied.
//
// All scheduler state is touched with plain loads/stores from //go:norace code and hand-offs use
// raw futex system calls, so the scheduler itself creates no happens-before edges that the Go
// race detector could see: under -race each explored execution is judged by exactly the
// synchronisation the program under test performs.
package vsched

import (
	"fmt"
	"runtime"
	"runtime/debug"
	"strings"
	"sync"
)

// Prober is a side-effect free enabledness test of a blocked operation.
// Implementations must be //go:norace methods (closures do not inherit the pragma).
type Prober interface{ Ready() bool }

const (
	tNew = iota
	tReady
	tBlocked
	tQuiesce
	tDone
)

// Access is one element of a transition's footprint: an object (lock, channel, atomic variable,
// stream, context ...) identified by an address, and whether the access can conflict with reads.
// Obj == 0 stands for "unknown effect" and conflicts with everything.
type Access struct {
	Obj   uintptr `json:"o"`
	Write bool    `json:"w,omitempty"`
}

// Footprint of a transition (the code a thread executes from one scheduling point to the next).
type Footprint []Access

// Conflicts reports whether two transitions may not commute.
//
//go:norace
func (a Footprint) Conflicts(b Footprint) bool {
	for _, x := range a {
		if x.Obj == 0 {
			return true
		}
	}
	for _, y := range b {
		if y.Obj == 0 {
			return true
		}
	}
	for _, x := range a {
		for _, y := range b {
			if x.Obj == y.Obj && (x.Write || y.Write) {
				return true
			}
		}
	}
	return false
}

// Sleeper is a thread whose next transition has already been explored from an equivalent state.
// Object identities are addresses, which differ from one execution to the next, so nothing but
// the thread id is carried between executions: the footprint of a sleeping thread's next
// transition is recomputed in the current execution from what the thread has announced (the
// operation it is parked at) plus the locks it holds (the only other objects a transition can
// affect, by unlocking them); transitions with any other effect are "wild" and never put to sleep.
type Sleeper struct {
	Thread int `json:"t"`
}

type thread struct {
	pend    Footprint // footprint announced for the next transition
	held    Footprint // locks currently held (a transition may release them)
	id      int
	site    string
	wake    uint32
	state   int
	probe   Prober
	what    string
	exiting bool
	steps   int
	fn      func()
	timers  int
}

// ChoicePoint is one recorded nondeterministic decision.
type ChoicePoint struct {
	Kind    string `json:"k"`
	N       int    `json:"n"`
	Chosen  int    `json:"c"`
	Preempt bool   `json:"p,omitempty"` // a non-zero alternative here costs one preemption
	Dev     bool   `json:"d,omitempty"` // a non-zero alternative here costs one deviation
	// partial-order reduction bookkeeping (thread choices only)
	Threads []int     `json:"th,omitempty"` // thread id of every alternative
	Sleep   []Sleeper `json:"sl,omitempty"` // sleep set at this node (before the choice)
	Wild    bool      `json:"w,omitempty"`  // the transition executed after the choice had effects beyond its announced footprint
	Done    bool      `json:"dn,omitempty"` // that transition has completed (its Wild flag is final)
}

// PanicInfo records a panic that escaped a controlled thread.
type PanicInfo struct {
	Thread  string `json:"thread"`
	Value   string `json:"value"`
	Stack   string `json:"stack"`
	Handler bool   `json:"handler"` // recovered at an HTTP-handler boundary (net/http would survive)
}

// Result describes one finished execution.
type Result struct {
	Trace      []ChoicePoint
	Deadlock   bool
	Horizon    bool
	Blocked    []string // description of threads that were still blocked when the execution ended
	Panics     []PanicInfo
	Steps      int
	Threads    int
	Divergence string // non-empty: replay prefix did not match (harness broken)
	Switches   int
	Pruned     bool // the execution was cut because every enabled thread was asleep (redundant)
}

// Config of one execution.
type Config struct {
	Prefix       []int         // choices to replay; beyond it choice 0 is taken
	PrefixMeta   []ChoicePoint // optional: expected kind/N of the prefix choices (divergence check)
	MaxSteps     int           // horizon in scheduling points (default 200000)
	MaxTimerFire int           // bound on spontaneous virtual-timer firings when idle (default 64)
	TimerDev     bool          // offer "earliest timer fires now" as an environment deviation
	ClockTick    bool          // offer "the millisecond clock ticks before this Now()" as a deviation
	POR          bool          // maintain sleep sets (partial-order reduction)
	SleepAt      int           // index of the choice point at which Sleep is installed (with POR)
	Sleep        []Sleeper     // sleep set valid at choice point SleepAt, before its choice
}

// Sched is the state of the running execution.
type Sched struct {
	cfg      Config
	threads  []*thread
	running  *thread
	ctl      thread
	trace    []ChoicePoint
	aborting bool
	ending   bool
	res      *Result
	now      int64
	timers   []*Timer
	fired    int
	steps    int
	closed   map[uintptr]bool
	locals   map[string]interface{}
	nextTID  int
	noBranch bool
	// partial-order reduction state
	sleep    []Sleeper
	seg      Footprint // footprint of the transition currently executing
	segOwner *thread
	segCP    int // index of the trace entry that started the current transition (-1: not recorded)
	ctxKids  map[uintptr][]uintptr
}

var cur *Sched

// TeardownHook, when set, is called at the beginning (true) and at the end (false) of the phase
// in which the goroutines of a finished execution are unwound. Deferred functions of the library
// run there with locking switched off, so what a race detector says during that phase is an
// artefact of the harness and must be discarded (see props/racemon.go).
var TeardownHook func(begin bool)

// endSync gives the controller a real happens-before edge from the end of every controlled thread
// (so that harness code may read what the threads wrote once Run has returned). It is touched only
// at thread exit, hence it orders nothing inside an execution.
var endSync sync.Mutex

// Cur returns the active scheduler or nil.
//
//go:norace
func Cur() *Sched { return cur }

// Active reports whether a controlled execution is in progress.
//
//go:norace
func Active() bool { return cur != nil }

// Run executes body as controlled thread 0 under cfg and returns when the execution has ended
// and every controlled goroutine has exited.
//
//go:norace
func Run(cfg Config, body func()) *Result {
	if cur != nil {
		panic("vsched: nested Run")
	}
	if cfg.MaxSteps == 0 {
		cfg.MaxSteps = 200000
	}
	if cfg.MaxTimerFire == 0 {
		cfg.MaxTimerFire = 64
	}
	s := &Sched{cfg: cfg, res: &Result{}, closed: map[uintptr]bool{}, locals: map[string]interface{}{}}
	s.ctl.site = "controller"
	s.segCP = -1
	cur = s
	t0 := s.newThread("driver", body)
	s.running = t0
	t0.unpark()
	s.ctl.park()
	// the execution has ended (driver finished, deadlock, horizon or crash): tear down.
	if TeardownHook != nil {
		TeardownHook(true)
	}
	s.aborting = true
	for i := 0; i < len(s.threads); i++ { // threads slice cannot grow in abort mode
		t := s.threads[i]
		if t.state != tDone {
			s.running = t
			t.unpark()
			s.ctl.park()
		}
	}
	endSync.Lock()
	endSync.Unlock()
	if TeardownHook != nil {
		TeardownHook(false)
	}
	s.res.Trace = s.trace
	s.res.Steps = s.steps
	s.res.Threads = len(s.threads)
	cur = nil
	return s.res
}

//go:norace
func (s *Sched) newThread(site string, fn func()) *thread {
	t := &thread{id: s.nextTID, site: site, state: tNew, fn: fn}
	s.nextTID++
	s.threads = append(s.threads, t)
	go threadMain(s, t)
	return t
}

//go:norace
func threadMain(s *Sched, t *thread) {
	t.park()
	normal := false
	defer threadExit(s, t, &normal)
	if s.aborting {
		return
	}
	t.state = tReady
	t.fn()
	normal = true
}

//go:norace
func threadExit(s *Sched, t *thread, normal *bool) {
	endSync.Lock()
	endSync.Unlock()
	if !*normal {
		// recover unconditionally: a deferred function may panic (e.g. double close) while the
		// goroutine is being unwound by Goexit during tear-down; that must not kill the checker.
		if r := recover(); r != nil && !s.aborting && !s.ending {
			s.res.Panics = append(s.res.Panics, PanicInfo{Thread: t.name(), Value: fmt.Sprint(r), Stack: trimStack(debug.Stack())})
			// an unrecovered panic in any goroutine kills a real process: end the execution.
			t.state = tDone
			s.endExecution()
			return
		}
	}
	t.state = tDone
	if s.aborting {
		s.ctl.unpark()
		return
	}
	if t.id == 0 {
		s.endExecution()
		return
	}
	s.reschedule(t)
}

// endExecution hands control back to Run; the calling goroutine must return/exit afterwards.
//
//go:norace
func (s *Sched) endExecution() {
	if s.ending {
		return
	}
	s.ending = true
	for _, t := range s.threads {
		if t.state == tBlocked || t.state == tQuiesce {
			s.res.Blocked = append(s.res.Blocked, t.name()+": "+t.what)
		}
	}
	s.ctl.unpark()
}

//go:norace
func (t *thread) name() string { return fmt.Sprintf("T%d[%s]", t.id, t.site) }

//go:norace
func trimStack(b []byte) string {
	lines := strings.Split(string(b), "\n")
	out := []string{}
	for _, l := range lines {
		if strings.Contains(l, "runtime/debug") || strings.Contains(l, "vsched.threadExit") {
			continue
		}
		out = append(out, l)
		if len(out) > 60 {
			break
		}
	}
	return strings.Join(out, "\n")
}

// Go starts f as a new controlled thread (or a plain goroutine when no execution is active).
//
//go:norace
func Go(site string, f func()) {
	s := cur
	if s == nil {
		go f()
		return
	}
	if s.aborting {
		return
	}
	s.newThread(site, f)
}

// enabledList computes the enabled threads in canonical order: self first (if enabled), then ids.
//
//go:norace
func (s *Sched) enabledList(self *thread) []*thread {
	var en []*thread
	if self != nil && s.isEnabled(self) {
		en = append(en, self)
	}
	for _, t := range s.threads {
		if t == self {
			continue
		}
		if s.isEnabled(t) {
			en = append(en, t)
		}
	}
	return en
}

//go:norace
func (s *Sched) isEnabled(t *thread) bool {
	switch t.state {
	case tNew, tReady:
		return true
	case tBlocked:
		return t.probe.Ready()
	}
	return false
}

// reschedule is called by the thread holding the baton (self) after it has published its state.
// It returns when self has been chosen again (never, if self is done).
//
//go:norace
func (s *Sched) reschedule(self *thread) {
	// synchronisation events caused by probing (len/closed checks on channels, context polling)
	// must not become happens-before edges of the program under test.
	raceIgnoreBegin()
	s.rescheduleInner(self)
	raceIgnoreEnd()
	if self.state != tDone && s.aborting {
		self.exiting = true
		runtime.Goexit()
	}
}

//go:norace
func (s *Sched) rescheduleInner(self *thread) {
	s.endSegment()
	for {
		s.steps++
		if s.steps > s.cfg.MaxSteps {
			s.res.Horizon = true
			s.endExecution()
			s.leave(self)
			return
		}
		selfEnabled := self.state != tDone && s.isEnabled(self)
		en := s.enabledList(self)
		nopts := len(en)
		timerOpt := false
		if s.cfg.TimerDev && nopts > 0 && s.earliestTimer() != nil {
			timerOpt = true
		}
		if nopts == 0 {
			if q := s.quiescer(); q != nil {
				// quiescence is reached without advancing virtual time
				q.state = tReady
				en = []*thread{q}
				nopts = 1
			} else if s.fireEarliestTimer(false) {
				s.sleep = s.sleep[:0]
				continue
			} else {
				s.res.Deadlock = true
				s.endExecution()
				s.leave(self)
				return
			}
		}
		if timerOpt {
			if s.choose("env:timer", 2, false, true) == 1 {
				s.fireEarliestTimer(true)
				s.sleep = s.sleep[:0] // a timer event may affect any thread
				continue
			}
		}
		k := 0
		if s.cfg.POR && !s.noBranch {
			k = s.choosePOR(en, selfEnabled)
			if k < 0 {
				// every enabled thread is asleep: this execution is a permutation of one already explored
				s.res.Pruned = true
				s.endExecution()
				s.leave(self)
				return
			}
		} else if nopts > 1 {
			k = s.choose("thread", nopts, selfEnabled, false)
		}
		next := en[k]
		s.beginSegment(next)
		if next == self {
			self.state = tReady
			self.probe = nil
			return
		}
		s.res.Switches++
		s.running = next
		next.unpark()
		s.leave(self)
		return
	}
}

// leave parks self until it is scheduled again (or exits the goroutine if self is done).
//
//go:norace
func (s *Sched) leave(self *thread) {
	if self.state == tDone {
		return
	}
	self.park()
	if s.aborting {
		return // reschedule() unwinds the goroutine after re-enabling race synchronisation events
	}
	self.state = tReady
	self.probe = nil
}

//go:norace
func (s *Sched) quiescer() *thread {
	for _, t := range s.threads {
		if t.state == tQuiesce {
			return t
		}
	}
	return nil
}

//go:norace
func (s *Sched) choose(kind string, n int, preempt, dev bool) int {
	if s.noBranch {
		return 0
	}
	idx := len(s.trace)
	c := 0
	if idx < len(s.cfg.Prefix) {
		c = s.cfg.Prefix[idx]
		if c >= n || c < 0 {
			s.diverge(fmt.Sprintf("choice %d: replayed value %d out of range (n=%d, kind=%s)", idx, c, n, kind))
			c = 0
		}
		if idx < len(s.cfg.PrefixMeta) {
			m := s.cfg.PrefixMeta[idx]
			if m.Kind != kind || m.N != n {
				s.diverge(fmt.Sprintf("choice %d: expected %s/%d, got %s/%d", idx, m.Kind, m.N, kind, n))
			}
		}
	}
	s.trace = append(s.trace, ChoicePoint{Kind: kind, N: n, Chosen: c, Preempt: preempt, Dev: dev})
	return c
}

//go:norace
func (s *Sched) diverge(msg string) {
	if s.res.Divergence == "" {
		s.res.Divergence = msg
	}
}

// inAbort handles a Point reached while the execution is being torn down. It returns true when
// the caller must skip scheduling (deferred functions running during Goexit).
//
//go:norace
func (s *Sched) inAbort(blocking bool) bool {
	if !s.aborting && !s.ending {
		return false
	}
	t := s.running
	if s.ending && !s.aborting {
		// the execution ended on this very goroutine (panic/horizon/deadlock); unwind it.
		if t != nil {
			t.exiting = true
		}
		runtime.Goexit()
	}
	if t != nil && t.exiting && !blocking {
		return true
	}
	if t != nil {
		t.exiting = true
	}
	runtime.Goexit()
	return true
}

// Yield is an always-enabled scheduling point.
//
//go:norace
func Yield(what string) {
	s := cur
	if s == nil {
		return
	}
	if s.inAbort(false) {
		return
	}
	t := s.running
	t.steps++
	t.state = tReady
	t.probe = nil
	t.what = what
	t.pend = append(t.pend[:0], Access{0, true}) // unknown effect: conflicts with everything
	s.reschedule(t)
}

// Block is a scheduling point at which the calling thread waits until p.Ready().
//
//go:norace
func Block(what string, p Prober) {
	s := cur
	if s == nil {
		panic("vsched.Block outside an execution: " + what)
	}
	if s.inAbort(true) {
		return
	}
	t := s.running
	t.steps++
	t.state = tBlocked
	t.probe = p
	t.what = what
	t.pend = append(t.pend[:0], Access{0, true})
	s.reschedule(t)
}

// Quiesce blocks the caller until no other thread is enabled (virtual time is not advanced).
//
//go:norace
func Quiesce() {
	s := cur
	if s == nil {
		return
	}
	if s.inAbort(true) {
		return
	}
	t := s.running
	t.state = tQuiesce
	t.probe = nil
	t.what = "quiesce"
	t.pend = append(t.pend[:0], Access{0, true})
	s.reschedule(t)
}

// Choose is an environment decision with n alternatives; alternative 0 is the default and any
// other one costs one deviation.
//
//go:norace
func Choose(kind string, n int) int {
	s := cur
	if s == nil || n <= 1 {
		return 0
	}
	if s.aborting || s.ending {
		return 0
	}
	c := s.choose("env:"+kind, n, false, true)
	s.noteEnvChoice()
	return c
}

// ChooseFree is an environment decision whose alternatives are all free of cost (used for
// genuinely symmetric choices such as Go's select among several ready cases).
//
//go:norace
func ChooseFree(kind string, n int) int {
	s := cur
	if s == nil || n <= 1 {
		return 0
	}
	if s.aborting || s.ending {
		return 0
	}
	c := s.choose("free:"+kind, n, false, false)
	s.noteEnvChoice()
	return c
}

// RecordPanic lets an HTTP-handler boundary (memnet) report a recovered panic.
//
//go:norace
func RecordPanic(where string, v interface{}, stack []byte) {
	s := cur
	if s == nil {
		return
	}
	s.res.Panics = append(s.res.Panics, PanicInfo{Thread: s.running.name() + " " + where, Value: fmt.Sprint(v), Stack: trimStack(stack), Handler: true})
}

// ThreadID returns the id of the running controlled thread (-1 outside an execution).
//
//go:norace
func ThreadID() int {
	s := cur
	if s == nil || s.running == nil {
		return -1
	}
	return s.running.id
}

// LiveThreads describes the controlled threads that have not finished, excluding the caller.
//
//go:norace
func LiveThreads() []string {
	s := cur
	if s == nil {
		return nil
	}
	var out []string
	for _, t := range s.threads {
		if t.state != tDone && t != s.running {
			out = append(out, t.site+": "+t.what)
		}
	}
	return out
}

// Local returns a per-execution value slot (created by mk on first use).
//
//go:norace
func Local(key string, mk func() interface{}) interface{} {
	s := cur
	if s == nil {
		return mk()
	}
	v, ok := s.locals[key]
	if !ok {
		v = mk()
		s.locals[key] = v
	}
	return v
}

// Exiting reports whether the calling thread is unwinding because the execution is over.
//
//go:norace
func Exiting() bool {
	s := cur
	if s == nil {
		return false
	}
	return s.aborting || s.ending
}

// SetBranching switches the recording of choice points on or off. While it is off every decision
// takes its default (choice 0): harnesses use this for deterministic preludes (handshakes) whose
// interleavings are not the subject of the scenario.
//
//go:norace
func SetBranching(on bool) {
	s := cur
	if s == nil {
		return
	}
	s.noBranch = !on
}

// ---- partial-order reduction: footprints and sleep sets ---------------------------------

//go:norace
func (s *Sched) beginSegment(t *thread) {
	s.segOwner = t
	s.seg = append(s.seg[:0], t.pend...)
	t.pend = nil
}

// endSegment is called when the running thread reaches its next scheduling point (or exits):
// the transition is complete, its footprint is known.
//
//go:norace
func (s *Sched) endSegment() {
	if s.segOwner == nil {
		return
	}
	wild := false
	for _, a := range s.seg {
		if a.Obj == 0 {
			wild = true
		}
	}
	if s.segCP >= 0 && s.segCP < len(s.trace) {
		s.trace[s.segCP].Wild = wild
		s.trace[s.segCP].Done = true
	}
	s.segCP = -1
	if len(s.sleep) > 0 {
		kept := s.sleep[:0]
		for _, sl := range s.sleep {
			if sl.Thread == s.segOwner.id || wild {
				continue
			}
			u := s.threadByID(sl.Thread)
			if u == nil || u.state == tDone {
				continue
			}
			if u.pend.Conflicts(s.seg) || u.held.Conflicts(s.seg) {
				continue // dependent: wake it
			}
			kept = append(kept, sl)
		}
		s.sleep = kept
	}
	s.segOwner = nil
}

//go:norace
func (s *Sched) threadByID(id int) *thread {
	if id >= 0 && id < len(s.threads) {
		return s.threads[id]
	}
	return nil
}

//go:norace
func (s *Sched) asleep(id int) bool {
	for _, sl := range s.sleep {
		if sl.Thread == id {
			return true
		}
	}
	return false
}

// choosePOR is the thread choice under sleep sets. The recorded index refers to the full enabled
// list (stable under replay); alternatives that are asleep are never taken by default.
//
//go:norace
func (s *Sched) choosePOR(en []*thread, selfEnabled bool) int {
	idx := len(s.trace)
	if len(en) == 1 {
		// never a recorded choice point (exactly as without POR)
		if s.asleep(en[0].id) {
			return -1
		}
		return 0
	}
	forced := idx < len(s.cfg.Prefix)
	if forced && s.cfg.SleepAt == idx && s.cfg.Sleep != nil {
		s.sleep = append(s.sleep[:0], s.cfg.Sleep...)
	}
	def := -1
	for i, t := range en {
		if !s.asleep(t.id) {
			def = i
			break
		}
	}
	c := def
	if forced {
		c = s.cfg.Prefix[idx]
		if c >= len(en) || c < 0 {
			s.diverge(fmt.Sprintf("choice %d: replayed thread index %d out of range (n=%d)", idx, c, len(en)))
			c = 0
		}
	} else if def < 0 {
		return -1
	}
	ids := make([]int, len(en))
	for i, t := range en {
		ids[i] = t.id
	}
	cp := ChoicePoint{Kind: "thread", N: len(en), Chosen: c, Preempt: selfEnabled, Threads: ids}
	if len(s.sleep) > 0 {
		cp.Sleep = append([]Sleeper(nil), s.sleep...)
	}
	s.trace = append(s.trace, cp)
	s.segCP = idx
	return c
}

// Touch adds an access to the footprint of the transition that is executing (for effects that
// are not scheduling points themselves: unlocks, context cancellation, harness flags ...).
//
//go:norace
func Touch(obj uintptr, write bool) {
	s := cur
	if s == nil || !s.cfg.POR {
		return
	}
	s.seg = append(s.seg, Access{obj, write})
}

// TouchAll marks the executing transition as conflicting with everything.
//
//go:norace
func TouchAll() { Touch(0, true) }

// YieldObj is Yield with a declared footprint.
//
//go:norace
func YieldObj(what string, obj uintptr, write bool) {
	s := cur
	if s == nil {
		return
	}
	if s.inAbort(false) {
		return
	}
	t := s.running
	t.steps++
	t.state = tReady
	t.probe = nil
	t.what = what
	t.pend = t.pend[:0]
	if obj != 0 {
		t.pend = append(t.pend, Access{obj, write})
	}
	s.reschedule(t)
}

// BlockObj is Block with a declared footprint.
//
//go:norace
func BlockObj(what string, p Prober, obj uintptr, write bool) {
	s := cur
	if s == nil {
		panic("vsched.BlockObj outside an execution: " + what)
	}
	if s.inAbort(true) {
		return
	}
	t := s.running
	t.steps++
	t.state = tBlocked
	t.probe = p
	t.what = what
	t.pend = append(t.pend[:0], Access{obj, write})
	s.reschedule(t)
}

// BlockObjs is Block with several objects (select).
//
//go:norace
func BlockObjs(what string, p Prober, objs []uintptr, blocking bool) {
	s := cur
	if s == nil {
		panic("vsched.BlockObjs outside an execution: " + what)
	}
	if s.inAbort(blocking) {
		return
	}
	t := s.running
	t.steps++
	if blocking {
		t.state = tBlocked
		t.probe = p
	} else {
		t.state = tReady
		t.probe = nil
	}
	t.what = what
	t.pend = t.pend[:0]
	for _, o := range objs {
		if o != 0 {
			t.pend = append(t.pend, Access{o, true})
		}
	}
	s.reschedule(t)
}

// PORActive reports whether sleep sets are maintained in this execution.
//
//go:norace
func PORActive() bool {
	s := cur
	return s != nil && s.cfg.POR
}

// noteEnvChoice records the sleep set at an environment choice point (children inherit it) and
// installs an injected sleep set when this is the node the explorer branched at.
//
//go:norace
func (s *Sched) noteEnvChoice() {
	if !s.cfg.POR || s.noBranch || len(s.trace) == 0 {
		return
	}
	idx := len(s.trace) - 1
	if idx < len(s.cfg.Prefix) && s.cfg.SleepAt == idx && s.cfg.Sleep != nil {
		s.sleep = append(s.sleep[:0], s.cfg.Sleep...)
	}
	if len(s.sleep) > 0 {
		s.trace[idx].Sleep = append([]Sleeper(nil), s.sleep...)
	}
}

// ---- contexts -----------------------------------------------------------------------------

// CtxID identifies a cancellable context by its Done channel (0: never cancelled).
//
//go:norace
func CtxID(ctx interface{ Done() <-chan struct{} }) uintptr {
	if ctx == nil {
		return 0
	}
	ch := ctx.Done()
	if ch == nil {
		return 0
	}
	return chanPtr(ch)
}

// CtxRegisterChild records that cancelling parent also cancels child.
//
//go:norace
func CtxRegisterChild(parent, child uintptr) {
	s := cur
	if s == nil || !s.cfg.POR || parent == 0 || child == 0 || parent == child {
		return
	}
	if s.ctxKids == nil {
		s.ctxKids = map[uintptr][]uintptr{}
	}
	s.ctxKids[parent] = append(s.ctxKids[parent], child)
}

// CtxCancelled declares that the executing transition cancels the context id (and its children).
//
//go:norace
func CtxCancelled(id uintptr) {
	s := cur
	if s == nil || !s.cfg.POR || id == 0 {
		return
	}
	s.seg = append(s.seg, Access{id, true})
	for _, k := range s.ctxKids[id] {
		CtxCancelled(k)
	}
}

// Hold / Release maintain the set of locks held by the running thread.
//
//go:norace
func Hold(obj uintptr, write bool) {
	s := cur
	if s == nil || !s.cfg.POR || s.running == nil {
		return
	}
	s.running.held = append(s.running.held, Access{obj, write})
}

//go:norace
func Release(obj uintptr) {
	s := cur
	if s == nil || !s.cfg.POR || s.running == nil {
		return
	}
	h := s.running.held
	for i := len(h) - 1; i >= 0; i-- {
		if h[i].Obj == obj {
			s.running.held = append(h[:i], h[i+1:]...)
			return
		}
	}
}

// YieldObjs is YieldObj with several objects.
//
//go:norace
func YieldObjs(what string, objs []uintptr) { BlockObjs(what, nil, objs, false) }

// CtxFootprint returns id and all registered descendants.
//
//go:norace
func CtxFootprint(id uintptr) []uintptr {
	s := cur
	if s == nil || id == 0 {
		return nil
	}
	out := []uintptr{id}
	for _, k := range s.ctxKids[id] {
		out = append(out, CtxFootprint(k)...)
	}
	return out
}
