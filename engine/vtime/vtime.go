// Package vtime replaces package time for instrumented code: the clock is virtual and timers are
// fired by the controlled scheduler. Only goroutine/clock related identifiers differ from time.
package vtime

import (
	"time"

	"verif.local/engine/vsched"
)

type (
	Time     = time.Time
	Duration = time.Duration
	Month    = time.Month
	Weekday  = time.Weekday
	Location = time.Location
)

const (
	Nanosecond  = time.Nanosecond
	Microsecond = time.Microsecond
	Millisecond = time.Millisecond
	Second      = time.Second
	Minute      = time.Minute
	Hour        = time.Hour

	RFC3339     = time.RFC3339
	RFC3339Nano = time.RFC3339Nano
	RFC1123     = time.RFC1123
	RFC822      = time.RFC822
	Kitchen     = time.Kitchen
	DateTime    = "2006-01-02 15:04:05"
	DateOnly    = "2006-01-02"
	TimeOnly    = "15:04:05"
)

var (
	UTC   = time.UTC
	Local = time.Local
)

func Unix(sec, nsec int64) Time                { return time.Unix(sec, nsec) }
func UnixMilli(ms int64) Time                  { return time.UnixMilli(ms) }
func Parse(l, v string) (Time, error)          { return time.Parse(l, v) }
func ParseDuration(s string) (Duration, error) { return time.ParseDuration(s) }
func Date(y int, m Month, d, h, mi, s, ns int, l *Location) Time {
	return time.Date(y, m, d, h, mi, s, ns, l)
}

// Now is a scheduling point (the clock is environment state) and reads the virtual clock.
//
//go:norace
func Now() Time {
	if !vsched.Active() {
		return time.Now()
	}
	vsched.ClockRead()
	return vsched.Now()
}

//go:norace
func Since(t Time) Duration { return Now().Sub(t) }

//go:norace
func Until(t Time) Duration { return t.Sub(Now()) }

//go:norace
func Sleep(d Duration) { vsched.Sleep(d) }

//go:norace
func After(d Duration) <-chan Time {
	if !vsched.Active() {
		return time.After(d)
	}
	return vsched.NewTimer(d).C
}

//go:norace
func Tick(d Duration) <-chan Time { return NewTicker(d).C }

// Ticker mirrors time.Ticker.
type Ticker struct {
	C    <-chan Time
	vt   *vsched.Timer
	real *time.Ticker
}

//go:norace
func NewTicker(d Duration) *Ticker {
	if !vsched.Active() {
		r := time.NewTicker(d)
		return &Ticker{C: r.C, real: r}
	}
	vt := vsched.NewTicker(d)
	return &Ticker{C: vt.C, vt: vt}
}

//go:norace
func (t *Ticker) Stop() {
	if t.real != nil {
		t.real.Stop()
		return
	}
	t.vt.Stop()
}

// Timer mirrors time.Timer.
type Timer struct {
	C    <-chan Time
	vt   *vsched.Timer
	real *time.Timer
}

//go:norace
func NewTimer(d Duration) *Timer {
	if !vsched.Active() {
		r := time.NewTimer(d)
		return &Timer{C: r.C, real: r}
	}
	vt := vsched.NewTimer(d)
	return &Timer{C: vt.C, vt: vt}
}

//go:norace
func (t *Timer) Stop() bool {
	if t.real != nil {
		return t.real.Stop()
	}
	return t.vt.Stop()
}
