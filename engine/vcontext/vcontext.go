// Package vcontext replaces package context for instrumented code. Contexts are the real ones;
// what is added is that cancellation — an effect other threads observe through Done channels
// and Err() — is declared to the scheduler's partial-order reduction (vsched.CtxCancelled), and
// that parent/child relations are recorded so that cancelling a parent is known to affect the
// children.
package vcontext

import (
	"context"
	"time"

	"verif.local/engine/vsched"
)

type (
	Context         = context.Context
	CancelFunc      = context.CancelFunc
	CancelCauseFunc = context.CancelCauseFunc
)

var (
	Canceled         = context.Canceled
	DeadlineExceeded = context.DeadlineExceeded
)

func Background() Context { return context.Background() }
func TODO() Context       { return context.TODO() }

func WithValue(parent Context, key, val interface{}) Context {
	return context.WithValue(parent, key, val)
}

func Cause(c Context) error { return context.Cause(c) }

//go:norace
func wrap(parent, ctx Context, cancel CancelFunc) CancelFunc {
	id := vsched.CtxID(ctx)
	vsched.CtxRegisterChild(vsched.CtxID(parent), id)
	return func() {
		// cancellation is observed by other threads (Done channels, Err): a scheduling point whose
		// announced footprint is the context and everything derived from it
		vsched.YieldObjs("ctx.cancel", vsched.CtxFootprint(id))
		cancel()
	}
}

func WithCancel(parent Context) (Context, CancelFunc) {
	ctx, cancel := context.WithCancel(parent)
	return ctx, wrap(parent, ctx, cancel)
}

func WithCancelCause(parent Context) (Context, CancelCauseFunc) {
	ctx, cancel := context.WithCancelCause(parent)
	id := vsched.CtxID(ctx)
	vsched.CtxRegisterChild(vsched.CtxID(parent), id)
	return ctx, func(cause error) {
		vsched.YieldObjs("ctx.cancel", vsched.CtxFootprint(id))
		cancel(cause)
	}
}

// WithTimeout / WithDeadline keep the real (wall-clock) timer of package context: executions last
// milliseconds, the library's timeouts are tens of seconds, so that timer never fires inside an
// execution; expiry races are explored through the virtual-time paths (time.After) instead.
func WithTimeout(parent Context, d time.Duration) (Context, CancelFunc) {
	ctx, cancel := context.WithTimeout(parent, d)
	return ctx, wrap(parent, ctx, cancel)
}

func WithDeadline(parent Context, t time.Time) (Context, CancelFunc) {
	ctx, cancel := context.WithDeadline(parent, t)
	return ctx, wrap(parent, ctx, cancel)
}

// Err is what the instrumenter substitutes for ctx.Err(): a declared read of the context state.
//
//go:norace
func Err(ctx Context) error {
	vsched.YieldObj("ctx.err", vsched.CtxID(ctx), false) // a declared read of the cancellation state
	return ctx.Err()
}
