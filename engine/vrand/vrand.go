// Package vrand replaces crypto/rand for instrumented code: Read is an environment answer.
// Under the controlled scheduler the bytes come from a deterministic per-execution stream (or a
// harness-supplied source) and every request is logged.
package vrand

import (
	crand "crypto/rand"
	"io"
	"unsafe"

	"verif.local/engine/vsched"
)

type state struct {
	ctr  uint64
	log  []int
	src  func(call int, b []byte)
	call int
}

//go:norace
func st() *state {
	return vsched.Local("vrand", func() interface{} { return &state{} }).(*state)
}

// Reader mirrors crypto/rand.Reader.
var Reader io.Reader = reader{}

type reader struct{}

//go:norace
func (reader) Read(b []byte) (int, error) { return Read(b) }

// Read fills b.
//
//go:norace
func Read(b []byte) (int, error) {
	if !vsched.Active() {
		return crand.Read(b)
	}
	vsched.YieldObj("rand.Read", randObj(), true) // the stream position is shared state
	s := st()
	s.log = append(s.log, len(b))
	if s.src != nil {
		s.src(s.call, b)
		s.call++
		return len(b), nil
	}
	s.call++
	for i := range b {
		// splitmix-style deterministic stream
		s.ctr += 0x9e3779b97f4a7c15
		z := s.ctr
		z = (z ^ (z >> 30)) * 0xbf58476d1ce4e5b9
		z = (z ^ (z >> 27)) * 0x94d049bb133111eb
		b[i] = byte(z ^ (z >> 31))
	}
	return len(b), nil
}

var randMark byte

//go:norace
func randObj() uintptr { return uintptr(unsafe.Pointer(&randMark)) }

// SetSource installs a harness-controlled byte source for the current execution.
//
//go:norace
func SetSource(f func(call int, b []byte)) { st().src = f }

// Requests returns the sizes of all Read requests of the current execution.
//
//go:norace
func Requests() []int { return append([]int(nil), st().log...) }
