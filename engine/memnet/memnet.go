// Package memnet is the in-memory environment of the checks: an HTTP fabric that connects
// http.Client (as a RoundTripper) directly to an http.Handler, and byte pipes for stdio. Every
// I/O step is a scheduling point of the controlled scheduler and may be subjected to faults.
//
// It replaces the kernel and net/http's connection handling. What it models of net/http:
//   - the handler runs in its own thread; the request context is cancelled when the client goes
//     away or the handler returns;
//   - response headers are frozen at WriteHeader/first Write and reach the client at the first
//     Flush, when more than 4 KiB are buffered, or when the handler returns; unflushed body bytes
//     are invisible to the client until then; Content-Type is sniffed when absent;
//   - a panic in a handler aborts only that response (the client sees EOF) — but is reported.
package memnet

import (
	"bytes"
	"context"
	"errors"
	"fmt"
	"io"
	"net/http"
	"runtime"
	"runtime/debug"
	"strings"
	"sync"
	"time"
	"unsafe"

	"verif.local/engine/vsched"
)

const bufferLimit = 4096

// Exchange is the record of one HTTP request/response.
type Exchange struct {
	Seq         int
	Method      string
	URL         string
	Path        string
	Query       string
	Host        string
	ReqHeader   http.Header
	ReqBody     []byte
	Status      int
	RespHeader  http.Header
	Writes      [][]byte // every Write call of the handler, in order
	HeaderSent  bool
	HandlerDone bool
	Panicked    bool
	ClientGone  bool
	ClientTID   int
	st          *stream
}

// Body returns everything the handler wrote.
//
//go:norace
func (x *Exchange) Body() []byte { return bytes.Join(x.Writes, nil) }

// ObjID identifies the response stream of this exchange for footprint declarations.
//
//go:norace
func (x *Exchange) ObjID() uintptr {
	if x == nil || x.st == nil {
		return 0
	}
	return x.st.id()
}

// Delivered returns the bytes that became visible to the client.
//
//go:norace
func (x *Exchange) Delivered() []byte { return x.st.delivered }

// Fabric routes requests to handlers by URL host.
type Fabric struct {
	Hosts map[string]http.Handler
	// Intercept, when set, may answer a request without any handler (connection-level faults,
	// canned responses). Return handled=false to let the request through.
	Intercept func(req *http.Request, x *Exchange) (resp *http.Response, err error, handled bool)
	// OnHeaders is called (in the handler's thread) when response headers reach the client.
	OnHeaders func(x *Exchange)
	// Lost counts the exchanges whose response was lost to an armed LoseResponses fault.
	Lost int

	log       []*Exchange
	loseN     int
	loseMatch func(*http.Request) bool
	loseErr   error
}

// NewFabric creates a fabric with one handler registered for host.
//
//go:norace
func NewFabric(host string, h http.Handler) *Fabric {
	return &Fabric{Hosts: map[string]http.Handler{host: h}}
}

// Log returns all exchanges in the order in which they were started.
//
//go:norace
func (f *Fabric) Log() []*Exchange { return f.log }

// Client returns an http.Client that sends through the fabric.
//
//go:norace
func (f *Fabric) Client() *http.Client { return &http.Client{Transport: f} }

type stream struct {
	mu         sync.Mutex // real: data written by the handler happens-before the client's read
	x          *Exchange
	header     http.Header // live header map of the handler
	wroteHdr   bool
	hdrOut     bool // headers visible to the client
	pending    []byte
	visible    []byte
	delivered  []byte
	wclosed    bool
	rclosed    bool
	readErr    error // returned instead of io.EOF once the visible data is drained
	reqCtx     context.Context
	srvCancel  context.CancelFunc
	onHeaders  func(x *Exchange)
	flushCount int
	stalled    bool // the client does not read and the connection's buffers are full
	srvCtxID   uintptr
	nonAtomic  bool   // Write/Flush take time (see NonAtomicWriter)
	busyTID    int    // thread currently inside Write/Flush (0 = none)
	busyOp     string // what that thread is doing, with its library call site
}

// NonAtomicWriter switches on the model of net/http's contract that an http.ResponseWriter must
// not be used by two goroutines at once: Write and Flush are no longer one atomic step but
// "begin, scheduling point, commit". If another thread begins an operation on the same
// ResponseWriter in between, that is exactly the interleaving in which net/http's buffered,
// chunked writer is corrupted (and a data race): it is reported through OnMisuse. The exchanges of
// a Fabric take the value the variable has when the request is sent. Scenarios that care switch
// it on (it adds one scheduling point per write).
var NonAtomicWriter bool

// OnMisuse receives a description of each concurrent use of one ResponseWriter (set by the harness).
var OnMisuse func(key, msg string)

//go:norace
func libCaller() string {
	pcs := make([]uintptr, 24)
	n := runtime.Callers(3, pcs)
	fr := runtime.CallersFrames(pcs[:n])
	for {
		f, more := fr.Next()
		if strings.Contains(f.Function, "trpc-mcp-go") && !strings.Contains(f.Function, "verif.local") {
			fn := f.Function
			if i := strings.LastIndex(fn, "/"); i >= 0 {
				fn = fn[i+1:]
			}
			if i := strings.Index(fn, "."); i >= 0 {
				fn = fn[i+1:]
			}
			return fn
		}
		if !more {
			return "?"
		}
	}
}

// begin marks the start of a Write/Flush by the calling thread, reports an overlap, and yields.
//
//go:norace
func (st *stream) begin(op string) {
	if !st.nonAtomic || vsched.Exiting() {
		return
	}
	me := vsched.ThreadID()
	site := op + " in " + libCaller()
	if st.busyTID != 0 && st.busyTID != me {
		a, b := st.busyOp, site
		if b < a {
			a, b = b, a
		}
		if OnMisuse != nil {
			OnMisuse("responsewriter-concurrent-use:"+a+"|"+b, fmt.Sprintf("%s %s: %s began while %s was still in progress on the same http.ResponseWriter (net/http forbids concurrent use: buffer corruption / data race)", st.x.Method, st.x.Path, site, st.busyOp))
		}
		return // the overlapping operation is not tracked itself
	}
	st.busyTID, st.busyOp = me, site
	vsched.YieldObj("net."+op+".commit", st.id(), true)
}

//go:norace
func (st *stream) end() {
	if st.busyTID == vsched.ThreadID() {
		st.busyTID, st.busyOp = 0, ""
	}
}

//go:norace
func (st *stream) id() uintptr { return uintptr(unsafe.Pointer(st)) }

type hdrProbe struct{ st *stream }

//go:norace
func (p hdrProbe) Ready() bool {
	return p.st.hdrOut || p.st.wclosed || ctxDone(p.st.reqCtx)
}

type readProbe struct{ st *stream }

//go:norace
func (p readProbe) Ready() bool {
	return len(p.st.visible) > 0 || p.st.wclosed || p.st.rclosed || ctxDone(p.st.reqCtx)
}

//go:norace
func ctxDone(ctx context.Context) bool {
	if ctx == nil {
		return false
	}
	select {
	case <-ctx.Done():
		return true
	default:
		return false
	}
}

type captureKey struct{}

// WithCapture returns a context that makes RoundTrip store the exchange record into *dst.
//
//go:norace
func WithCapture(ctx context.Context, dst **Exchange) context.Context {
	return context.WithValue(ctx, captureKey{}, dst)
}

// validHeaderName / validHeaderValue follow golang.org/x/net/http/httpguts: a name is an RFC 7230
// token, a value has no control bytes other than horizontal tab.
func validHeaderName(s string) bool {
	if s == "" {
		return false
	}
	for i := 0; i < len(s); i++ {
		c := s[i]
		switch {
		case c >= 'a' && c <= 'z', c >= 'A' && c <= 'Z', c >= '0' && c <= '9':
		case strings.IndexByte("!#$%&'*+-.^_`|~", c) >= 0:
		default:
			return false
		}
	}
	return true
}

func validHeaderValue(s string) bool {
	for i := 0; i < len(s); i++ {
		c := s[i]
		if (c < 0x20 && c != '\t') || c == 0x7f {
			return false
		}
	}
	return true
}

// RoundTrip implements http.RoundTripper.
//
//go:norace
func (f *Fabric) RoundTrip(req *http.Request) (*http.Response, error) {
	vsched.YieldObjs("net.send", []uintptr{uintptr(unsafe.Pointer(f)), vsched.CtxID(req.Context())}) // exchanges are numbered in start order; the request context is polled
	// net/http's Transport refuses a request whose header names or values are not valid field
	// content before anything is sent (and closes the request body). The harness's own reference peers
	// (recognisable by WithCapture) stand for arbitrary programs writing to a socket and are not vetted.
	_, rawPeer := req.Context().Value(captureKey{}).(**Exchange)
	for k, vv := range req.Header {
		if rawPeer {
			break
		}
		bad := ""
		if !validHeaderName(k) {
			bad = fmt.Sprintf("net/http: invalid header field name %q", k)
		}
		for _, v := range vv {
			if bad == "" && !validHeaderValue(v) {
				bad = fmt.Sprintf("net/http: invalid header field value for %q", k)
			}
		}
		if bad != "" {
			if req.Body != nil {
				req.Body.Close()
			}
			return nil, errors.New(bad)
		}
	}
	var body []byte
	if req.Body != nil {
		b, err := io.ReadAll(req.Body)
		req.Body.Close()
		if err != nil {
			return nil, err
		}
		body = b
	}
	// an armed connection fault (see LoseResponses)
	for f.loseN > 0 && (f.loseMatch == nil || f.loseMatch(req)) {
		f.loseN--
		f.Lost++
		hadBody := req.Body != nil && req.Body != http.NoBody
		resp, err := f.exchange(req, body)
		if err == nil {
			// the server handled the request and wrote its answer to a connection that is gone
			io.Copy(io.Discard, resp.Body)
			resp.Body.Close()
		}
		if replayable(req, hadBody) {
			continue // net/http sends a replayable request again on a fresh connection, silently
		}
		return nil, f.loseErr
	}
	return f.exchange(req, body)
}

// LoseResponses arms a fault of net/http's keep-alive connection pool: the next n exchanges for
// which match returns true (nil: all) are received and handled by the server, but the re-used
// connection they travelled on dies before the first byte of the response reaches the client.
// net/http's Transport then behaves as it does in real life: a request it considers replayable -
// no body or a body it can rewind (GetBody), and an idempotent method or an Idempotency-Key /
// X-Idempotency-Key header - is silently sent again on a fresh connection; for every other request
// (an ordinary POST) RoundTrip fails with err, which http.Client wraps in a *url.Error.
//
//go:norace
func (f *Fabric) LoseResponses(n int, match func(*http.Request) bool, err error) {
	f.loseN, f.loseMatch, f.loseErr = n, match, err
}

// replayable is net/http's (*Request).isReplayable.
func replayable(r *http.Request, hadBody bool) bool {
	if !hadBody || r.GetBody != nil {
		switch r.Method {
		case "GET", "HEAD", "OPTIONS", "TRACE", "":
			return true
		}
		if _, ok := r.Header["Idempotency-Key"]; ok {
			return true
		}
		if _, ok := r.Header["X-Idempotency-Key"]; ok {
			return true
		}
	}
	return false
}

// exchange carries one request to its handler.
//
//go:norace
func (f *Fabric) exchange(req *http.Request, body []byte) (*http.Response, error) {
	x := &Exchange{
		Seq: len(f.log), Method: req.Method, URL: req.URL.String(), Path: req.URL.Path, Query: req.URL.RawQuery,
		Host: req.URL.Host, ReqHeader: req.Header.Clone(), ReqBody: body, ClientTID: vsched.ThreadID(),
	}
	f.log = append(f.log, x)
	if dst, ok := req.Context().Value(captureKey{}).(**Exchange); ok && dst != nil {
		*dst = x
	}
	if err := req.Context().Err(); err != nil {
		return nil, err
	}
	if f.Intercept != nil {
		if resp, err, handled := f.Intercept(req, x); handled {
			if resp != nil {
				x.Status = resp.StatusCode
				x.RespHeader = resp.Header
				if resp.Request == nil {
					resp.Request = req
				}
			}
			return resp, err
		}
	}
	h := f.Hosts[req.URL.Host]
	if h == nil {
		return nil, fmt.Errorf("dial tcp %s: connect: connection refused", req.URL.Host)
	}
	srvCtx, realCancel := context.WithCancel(context.Background())
	srvID := vsched.CtxID(srvCtx)
	srvCancel := func() { realCancel() }
	_ = srvID
	st := &stream{x: x, header: http.Header{}, reqCtx: req.Context(), srvCancel: srvCancel, onHeaders: f.OnHeaders, srvCtxID: srvID, nonAtomic: NonAtomicWriter}
	x.st = st
	if dl, ok := req.Context().Deadline(); ok && req.Cancel != nil {
		// http.Client.Timeout with a RoundTripper that is not net/http's own: net/http sets
		// Request.Cancel and arms a wall-clock timer around the whole exchange, the reading of the
		// response body included. The library never sets Request.Cancel itself, so this is that timer;
		// it is modelled on the virtual clock (whole seconds, so that executions stay reproducible).
		d := time.Until(dl).Round(time.Second)
		vsched.Go("memnet.client-timeout", func() {
			vsched.Sleep(d)
			x.BreakStream(errors.New("context deadline exceeded (Client.Timeout or context cancellation while reading body)"))
		})
	}
	sreq, err := http.NewRequestWithContext(srvCtx, req.Method, req.URL.String(), bytes.NewReader(body))
	if err != nil {
		srvCancel()
		return nil, err
	}
	sreq.Header = req.Header.Clone()
	sreq.Host = req.URL.Host
	sreq.RequestURI = req.URL.RequestURI()
	sreq.RemoteAddr = "10.0.0.1:1234"
	sreq.ContentLength = int64(len(body))
	w := &ResponseWriter{st: st}
	vsched.Go("memnet.serve "+req.Method+" "+req.URL.Path, func() { serve(h, w, sreq) })
	vsched.BlockObjs("net.await-headers", hdrProbe{st}, []uintptr{st.id(), vsched.CtxID(req.Context())}, true)
	st.mu.Lock()
	defer st.mu.Unlock()
	if !st.hdrOut {
		if st.wclosed {
			// handler died before producing a response (panic): net/http closes the connection
			return nil, io.EOF
		}
		st.rclosed = true
		x.ClientGone = true
		vsched.TouchAll()
		srvCancel()
		return nil, req.Context().Err()
	}
	resp := &http.Response{
		Status:        fmt.Sprintf("%d %s", x.Status, http.StatusText(x.Status)),
		StatusCode:    x.Status,
		Proto:         "HTTP/1.1",
		ProtoMajor:    1,
		ProtoMinor:    1,
		Header:        x.RespHeader.Clone(),
		Body:          &body_{st: st},
		ContentLength: -1,
		Request:       req,
	}
	return resp, nil
}

//go:norace
func serve(h http.Handler, w *ResponseWriter, r *http.Request) {
	defer func() {
		if v := recover(); v != nil {
			if vsched.Exiting() {
				panic(v)
			}
			vsched.RecordPanic("http handler "+r.Method+" "+r.URL.Path, v, debug.Stack())
			vsched.TouchAll()
			w.st.mu.Lock()
			w.st.x.Panicked = true
			w.st.readErr = io.ErrUnexpectedEOF
			w.st.wclosed = true
			w.st.x.HandlerDone = true
			w.st.mu.Unlock()
			w.st.srvCancel()
			return
		}
		w.finish()
	}()
	h.ServeHTTP(w, r)
}

// ResponseWriter is the handler side of an exchange. It implements http.Flusher.
type ResponseWriter struct {
	st *stream
}

//go:norace
func (w *ResponseWriter) Header() http.Header { return w.st.header }

//go:norace
func (w *ResponseWriter) WriteHeader(code int) {
	st := w.st
	if st.wroteHdr {
		return
	}
	st.wroteHdr = true
	st.x.Status = code
	st.x.RespHeader = st.header.Clone()
}

// deliverHeaders must be called with st.mu held.
//
//go:norace
func (st *stream) deliverHeaders() {
	if st.hdrOut {
		return
	}
	if !st.wroteHdr {
		st.wroteHdr = true
		st.x.Status = http.StatusOK
		st.x.RespHeader = st.header.Clone()
	}
	if st.x.RespHeader.Get("Content-Type") == "" && len(st.pending) > 0 {
		n := len(st.pending)
		if n > 512 {
			n = 512
		}
		st.x.RespHeader.Set("Content-Type", http.DetectContentType(st.pending[:n]))
	}
	st.hdrOut = true
	st.x.HeaderSent = true
}

// flushLocked makes buffered bytes visible. st.mu held.
//
//go:norace
func (st *stream) flushLocked() {
	first := !st.hdrOut
	st.deliverHeaders()
	if len(st.pending) > 0 {
		st.visible = append(st.visible, st.pending...)
		st.delivered = append(st.delivered, st.pending...)
		st.pending = nil
	}
	if first && st.onHeaders != nil {
		st.onHeaders(st.x)
	}
}

type writeProbe struct{ st *stream }

//go:norace
func (p writeProbe) Ready() bool { return !p.st.stalled || p.st.rclosed }

// Stall makes every further Write of the handler block (slow reader, full TCP window) until
// Stall(false).
//
//go:norace
func (x *Exchange) Stall(on bool) {
	if x.st != nil {
		vsched.TouchAll()
		x.st.stalled = on
	}
}

//go:norace
func (w *ResponseWriter) Write(b []byte) (int, error) {
	st := w.st
	vsched.BlockObj("net.write", writeProbe{st}, st.id(), true)
	st.begin("Write")
	defer st.end()
	if !st.wroteHdr {
		w.WriteHeader(http.StatusOK)
	}
	st.mu.Lock()
	defer st.mu.Unlock()
	cp := append([]byte(nil), b...)
	st.x.Writes = append(st.x.Writes, cp)
	if st.rclosed || st.wclosed {
		return 0, errors.New("write tcp: broken pipe")
	}
	st.pending = append(st.pending, cp...)
	if len(st.pending) > bufferLimit {
		st.flushLocked()
	}
	return len(b), nil
}

//go:norace
func (w *ResponseWriter) Flush() {
	st := w.st
	vsched.YieldObj("net.flush", st.id(), true)
	st.begin("Flush")
	defer st.end()
	st.mu.Lock()
	defer st.mu.Unlock()
	if st.wclosed {
		return
	}
	st.flushCount++
	st.flushLocked()
}

// Abort ends the response like a connection that dies: what was written so far (flushed or not)
// reaches the client, then its next read fails with err (io.EOF = orderly close).
//
//go:norace
func (w *ResponseWriter) Abort(err error) {
	st := w.st
	vsched.YieldObjs("net.abort", append([]uintptr{st.id()}, vsched.CtxFootprint(st.srvCtxID)...))
	st.mu.Lock()
	if !st.wclosed {
		st.flushLocked()
		if err != io.EOF {
			st.readErr = err
		}
		st.wclosed = true
	}
	st.mu.Unlock()
	st.srvCancel()
}

// Exchange returns the record of the exchange this writer answers.
//
//go:norace
func (w *ResponseWriter) Exchange() *Exchange { return w.st.x }

//go:norace
func (w *ResponseWriter) finish() {
	st := w.st
	if !vsched.Exiting() {
		vsched.YieldObjs("net.handler-return", append([]uintptr{st.id()}, vsched.CtxFootprint(st.srvCtxID)...))
	}
	st.mu.Lock()
	if !st.wclosed {
		st.flushLocked()
		st.wclosed = true
	}
	st.x.HandlerDone = true
	st.mu.Unlock()
	st.srvCancel()
}

// body_ is the client side of the response stream.
type body_ struct {
	st *stream
}

//go:norace
func (b *body_) Read(p []byte) (int, error) {
	st := b.st
	if len(p) == 0 {
		return 0, nil
	}
	vsched.BlockObjs("net.read", readProbe{st}, []uintptr{st.id(), vsched.CtxID(st.reqCtx)}, true)
	st.mu.Lock()
	defer st.mu.Unlock()
	if st.rclosed {
		return 0, errors.New("http: read on closed response body")
	}
	if ctxDone(st.reqCtx) {
		return 0, st.reqCtx.Err()
	}
	if len(st.visible) > 0 {
		n := copy(p, st.visible)
		st.visible = st.visible[n:]
		return n, nil
	}
	if st.readErr != nil {
		return 0, st.readErr
	}
	return 0, io.EOF
}

//go:norace
func (b *body_) Close() error {
	st := b.st
	vsched.YieldObjs("net.close-body", append([]uintptr{st.id()}, vsched.CtxFootprint(st.srvCtxID)...))
	st.mu.Lock()
	already := st.rclosed
	st.rclosed = true
	st.x.ClientGone = true
	st.mu.Unlock()
	if !already {
		st.srvCancel()
	}
	return nil
}

// OpenBodies returns the exchanges whose response body the client never closed although it
// received one.
//
//go:norace
func (f *Fabric) OpenBodies() []*Exchange {
	var out []*Exchange
	for _, x := range f.log {
		if x.st != nil && x.st.hdrOut && !x.st.rclosed {
			out = append(out, x)
		}
	}
	return out
}

// BreakStream makes the client's next read (after buffered data) fail with err and ends the
// handler's connection: the server side sees its request context cancelled.
//
//go:norace
func (x *Exchange) BreakStream(err error) {
	st := x.st
	if st == nil {
		return
	}
	vsched.TouchAll()
	st.mu.Lock()
	st.readErr = err
	st.wclosed = true
	st.mu.Unlock()
	st.srvCancel()
}

// CloseFromClient simulates the client dropping the connection of this exchange.
//
//go:norace
func (x *Exchange) CloseFromClient() {
	st := x.st
	if st == nil {
		return
	}
	vsched.TouchAll()
	st.mu.Lock()
	st.rclosed = true
	x.ClientGone = true
	st.mu.Unlock()
	st.srvCancel()
}

// StaticResponse builds a canned response for Intercept.
//
//go:norace
func StaticResponse(req *http.Request, status int, header http.Header, body []byte) *http.Response {
	if header == nil {
		header = http.Header{}
	}
	return &http.Response{
		Status: fmt.Sprintf("%d %s", status, http.StatusText(status)), StatusCode: status,
		Proto: "HTTP/1.1", ProtoMajor: 1, ProtoMinor: 1, Header: header,
		Body: io.NopCloser(bytes.NewReader(body)), ContentLength: int64(len(body)), Request: req,
	}
}
