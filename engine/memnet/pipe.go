package memnet

import (
	"io/fs"
	"errors"
	"io"
	"sync"
	"unsafe"

	"verif.local/engine/vsched"
)

// Pipe is a modelled OS pipe: a bounded byte buffer. A Write larger than the free space is
// delivered in pieces (each piece is a scheduling point), exactly the situation in which writes
// from two writers interleave on a real pipe. Every Write call is recorded.
type Pipe struct {
	mu      sync.Mutex // real: written bytes happen-before their read
	Cap     int
	buf     []byte
	wclosed bool
	rclosed bool
	// wEndClosed / rEndClosed: the owner of that end (WEnd / REnd) has called Close on it
	wEndClosed bool
	rEndClosed bool
	Writes  [][]byte // each Write call as issued
	Chunks  [][]byte // each piece as it entered the buffer (the byte stream a reader sees)
	WriteBy []int    // thread id of each Write
	readErr error
	// OneByOne delivers at most this many bytes per Read (0 = as many as available).
	MaxRead int
	// Atomic is PIPE_BUF: a write of more bytes is delivered in pieces of at most this size with a
	// scheduling point between pieces, as on a real pipe shared by several writers (0 = unlimited).
	Atomic int
}

// NewPipe creates a pipe with the given capacity (0 = 65536, the Linux default).
//
//go:norace
func NewPipe(capacity int) *Pipe {
	if capacity == 0 {
		capacity = 65536
	}
	return &Pipe{Cap: capacity}
}

type pipeWProbe struct{ p *Pipe }

//go:norace
func (q pipeWProbe) Ready() bool { return len(q.p.buf) < q.p.Cap || q.p.rclosed || q.p.wclosed }

type pipeRProbe struct{ p *Pipe }

//go:norace
func (q pipeRProbe) Ready() bool { return len(q.p.buf) > 0 || q.p.wclosed || q.p.rclosed }

//go:norace
func (p *Pipe) Write(b []byte) (int, error) {
	p.mu.Lock()
	p.Writes = append(p.Writes, append([]byte(nil), b...))
	p.WriteBy = append(p.WriteBy, vsched.ThreadID())
	p.mu.Unlock()
	n := 0
	for {
		vsched.BlockObj("pipe.write", pipeWProbe{p}, uintptr(unsafe.Pointer(p)), true)
		p.mu.Lock()
		if p.wclosed {
			p.mu.Unlock()
			return n, io.ErrClosedPipe
		}
		if p.rclosed {
			p.mu.Unlock()
			return n, errors.New("write: broken pipe")
		}
		free := p.Cap - len(p.buf)
		k := len(b) - n
		if k > free {
			k = free
		}
		if p.Atomic > 0 && len(b) > p.Atomic && k > p.Atomic {
			k = p.Atomic
		}
		p.buf = append(p.buf, b[n:n+k]...)
		p.Chunks = append(p.Chunks, append([]byte(nil), b[n:n+k]...))
		n += k
		p.mu.Unlock()
		if n == len(b) {
			return n, nil
		}
	}
}

//go:norace
func (p *Pipe) Read(b []byte) (int, error) {
	if len(b) == 0 {
		return 0, nil
	}
	vsched.BlockObj("pipe.read", pipeRProbe{p}, uintptr(unsafe.Pointer(p)), true)
	p.mu.Lock()
	defer p.mu.Unlock()
	if p.rclosed {
		return 0, errors.New("read: file already closed")
	}
	if len(p.buf) > 0 {
		lim := len(b)
		if p.MaxRead > 0 && lim > p.MaxRead {
			lim = p.MaxRead
		}
		n := copy(b[:lim], p.buf)
		p.buf = p.buf[n:]
		return n, nil
	}
	if p.readErr != nil {
		return 0, p.readErr
	}
	return 0, io.EOF
}

// CloseWrite closes the writing end (reader sees EOF after draining).
//
//go:norace
func (p *Pipe) CloseWrite() error {
	vsched.YieldObj("pipe.close-w", uintptr(unsafe.Pointer(p)), true)
	p.mu.Lock()
	p.wclosed = true
	p.mu.Unlock()
	return nil
}

// CloseRead closes the reading end (writers get EPIPE, a blocked reader returns an error).
//
//go:norace
func (p *Pipe) CloseRead() error {
	vsched.YieldObj("pipe.close-r", uintptr(unsafe.Pointer(p)), true)
	p.mu.Lock()
	p.rclosed = true
	p.mu.Unlock()
	return nil
}

// Break makes the reader fail with err once the buffer is drained.
//
//go:norace
func (p *Pipe) Break(err error) {
	vsched.TouchAll()
	p.mu.Lock()
	p.readErr = err
	p.wclosed = true
	p.mu.Unlock()
}

// ObjID identifies the pipe for footprint declarations.
//
//go:norace
func (p *Pipe) ObjID() uintptr { return uintptr(unsafe.Pointer(p)) }

// Stream returns the concatenation of all bytes that entered the pipe.
//
//go:norace
func (p *Pipe) Stream() []byte {
	var out []byte
	for _, c := range p.Chunks {
		out = append(out, c...)
	}
	return out
}

// Closed state accessors.
//
//go:norace
func (p *Pipe) WriteClosed() bool { return p.wclosed }

//go:norace
func (p *Pipe) ReadClosed() bool { return p.rclosed }

// WEnd / REnd adapt the two ends to io.WriteCloser / io.ReadCloser.
type WEnd struct{ P *Pipe }

//go:norace
func (w WEnd) Write(b []byte) (int, error) { return w.P.Write(b) }

//go:norace
func (w WEnd) Close() error {
	// like an *os.File: closing an end that this side has already closed fails
	w.P.mu.Lock()
	again := w.P.wEndClosed
	w.P.wEndClosed = true
	w.P.mu.Unlock()
	if again {
		return &fs.PathError{Op: "close", Path: "|1", Err: fs.ErrClosed}
	}
	return w.P.CloseWrite()
}

type REnd struct{ P *Pipe }

//go:norace
func (r REnd) Read(b []byte) (int, error) { return r.P.Read(b) }

//go:norace
func (r REnd) Close() error {
	r.P.mu.Lock()
	again := r.P.rEndClosed
	r.P.rEndClosed = true
	r.P.mu.Unlock()
	if again {
		return &fs.PathError{Op: "close", Path: "|0", Err: fs.ErrClosed}
	}
	return r.P.CloseRead()
}
