// Package vsync is a drop-in replacement for the parts of package sync used by trpc-mcp-go.
// Every operation is "gate in the controlled scheduler, then perform the real operation": the
// real primitive is kept so that the race detector sees exactly the program's own
// happens-before edges, and it can never block because only one controlled thread runs at a time.
package vsync

import (
	"sync"
	"unsafe"

	"verif.local/engine/vsched"
)

// Locker mirrors sync.Locker.
type Locker = sync.Locker

// Mutex mirrors sync.Mutex.
type Mutex struct {
	mu   sync.Mutex
	held bool
}

type mutexProbe struct{ m *Mutex }

//go:norace
func (p mutexProbe) Ready() bool { return !p.m.held }

//go:norace
func (m *Mutex) Lock() {
	if !vsched.Active() {
		m.mu.Lock()
		return
	}
	vsched.BlockObj("Mutex.Lock", mutexProbe{m}, uintptr(unsafe.Pointer(m)), true)
	if vsched.Exiting() {
		return
	}
	m.held = true
	vsched.Hold(uintptr(unsafe.Pointer(m)), true)
	m.mu.Lock()
}

//go:norace
func (m *Mutex) TryLock() bool {
	if !vsched.Active() {
		return m.mu.TryLock()
	}
	vsched.YieldObj("Mutex.TryLock", uintptr(unsafe.Pointer(m)), true)
	if vsched.Exiting() {
		return true
	}
	if m.held {
		return false
	}
	m.held = true
	vsched.Hold(uintptr(unsafe.Pointer(m)), true)
	m.mu.Lock()
	return true
}

//go:norace
func (m *Mutex) Unlock() {
	if !vsched.Active() {
		m.mu.Unlock()
		return
	}
	if vsched.Exiting() {
		return
	}
	if !m.held {
		panic("sync: unlock of unlocked mutex")
	}
	vsched.Touch(uintptr(unsafe.Pointer(m)), true)
	vsched.Release(uintptr(unsafe.Pointer(m)))
	m.held = false
	m.mu.Unlock()
}

// RWMutex mirrors sync.RWMutex including writer preference (a pending writer blocks new readers).
type RWMutex struct {
	rw      sync.RWMutex
	readers int
	writer  bool
	pending int
}

type rlockProbe struct{ m *RWMutex }

//go:norace
func (p rlockProbe) Ready() bool { return !p.m.writer && p.m.pending == 0 }

type wlockProbe struct{ m *RWMutex }

//go:norace
func (p wlockProbe) Ready() bool { return !p.m.writer && p.m.readers == 0 }

//go:norace
func (m *RWMutex) RLock() {
	if !vsched.Active() {
		m.rw.RLock()
		return
	}
	vsched.BlockObj("RWMutex.RLock", rlockProbe{m}, uintptr(unsafe.Pointer(m)), false)
	if vsched.Exiting() {
		return
	}
	m.readers++
	vsched.Hold(uintptr(unsafe.Pointer(m)), false)
	m.rw.RLock()
}

//go:norace
func (m *RWMutex) RUnlock() {
	if !vsched.Active() {
		m.rw.RUnlock()
		return
	}
	if vsched.Exiting() {
		return
	}
	if m.readers <= 0 {
		panic("sync: RUnlock of unlocked RWMutex")
	}
	vsched.Touch(uintptr(unsafe.Pointer(m)), false)
	vsched.Release(uintptr(unsafe.Pointer(m)))
	m.readers--
	m.rw.RUnlock()
}

//go:norace
func (m *RWMutex) Lock() {
	if !vsched.Active() {
		m.rw.Lock()
		return
	}
	// The scheduling point comes first: a thread can be preempted just before it calls Lock, when it
	// has not yet announced itself as a pending writer (which blocks new readers).
	vsched.YieldObj("RWMutex.Lock", uintptr(unsafe.Pointer(m)), true)
	if vsched.Exiting() {
		return
	}
	if m.writer || m.readers > 0 {
		m.pending++
		vsched.BlockObj("RWMutex.Lock(wait)", wlockProbe{m}, uintptr(unsafe.Pointer(m)), true)
		if vsched.Exiting() {
			return
		}
		m.pending--
	}
	m.writer = true
	vsched.Hold(uintptr(unsafe.Pointer(m)), true)
	m.rw.Lock()
}

//go:norace
func (m *RWMutex) Unlock() {
	if !vsched.Active() {
		m.rw.Unlock()
		return
	}
	if vsched.Exiting() {
		return
	}
	if !m.writer {
		panic("sync: Unlock of unlocked RWMutex")
	}
	vsched.Touch(uintptr(unsafe.Pointer(m)), true)
	vsched.Release(uintptr(unsafe.Pointer(m)))
	m.writer = false
	m.rw.Unlock()
}

//go:norace
func (m *RWMutex) RLocker() Locker { return (*rlocker)(m) }

type rlocker RWMutex

//go:norace
func (r *rlocker) Lock() { (*RWMutex)(r).RLock() }

//go:norace
func (r *rlocker) Unlock() { (*RWMutex)(r).RUnlock() }

// Once mirrors sync.Once.
type Once struct {
	m    Mutex
	done bool
}

//go:norace
func (o *Once) Do(f func()) {
	o.m.Lock()
	defer o.m.Unlock()
	if !o.done {
		defer o.setDone()
		f()
	}
}

//go:norace
func (o *Once) setDone() { o.done = true }

// WaitGroup mirrors sync.WaitGroup.
type WaitGroup struct {
	wg sync.WaitGroup
	n  int
}

type wgProbe struct{ w *WaitGroup }

//go:norace
func (p wgProbe) Ready() bool { return p.w.n == 0 }

//go:norace
func (w *WaitGroup) Add(d int) {
	if vsched.Active() {
		vsched.YieldObj("WaitGroup.Add", uintptr(unsafe.Pointer(w)), true)
		w.n += d
	}
	w.wg.Add(d)
}

//go:norace
func (w *WaitGroup) Done() { w.Add(-1) }

//go:norace
func (w *WaitGroup) Wait() {
	if !vsched.Active() {
		w.wg.Wait()
		return
	}
	vsched.BlockObj("WaitGroup.Wait", wgProbe{w}, uintptr(unsafe.Pointer(w)), false)
	if vsched.Exiting() {
		return
	}
	w.wg.Wait()
}

// Map mirrors sync.Map; each operation is one scheduling point on top of the real map.
type Map struct{ m sync.Map }

//go:norace
func (m *Map) Load(k interface{}) (interface{}, bool) {
	vsched.YieldObj("Map.Load", uintptr(unsafe.Pointer(m)), false)
	return m.m.Load(k)
}

//go:norace
func (m *Map) Store(k, v interface{}) {
	vsched.YieldObj("Map.Store", uintptr(unsafe.Pointer(m)), true)
	m.m.Store(k, v)
}

//go:norace
func (m *Map) LoadOrStore(k, v interface{}) (interface{}, bool) {
	vsched.YieldObj("Map.LoadOrStore", uintptr(unsafe.Pointer(m)), true)
	return m.m.LoadOrStore(k, v)
}

//go:norace
func (m *Map) LoadAndDelete(k interface{}) (interface{}, bool) {
	vsched.YieldObj("Map.LoadAndDelete", uintptr(unsafe.Pointer(m)), true)
	return m.m.LoadAndDelete(k)
}

//go:norace
func (m *Map) Delete(k interface{}) {
	vsched.YieldObj("Map.Delete", uintptr(unsafe.Pointer(m)), true)
	m.m.Delete(k)
}

//go:norace
func (m *Map) Range(f func(k, v interface{}) bool) {
	vsched.YieldObj("Map.Range", uintptr(unsafe.Pointer(m)), false)
	m.m.Range(f)
}

// Pool mirrors sync.Pool with a deterministic policy: Get returns the most recently Put value
// (LIFO) and nothing is ever dropped. That is one of the behaviours sync.Pool allows and the one
// under which state left in a recycled object is most visible. Each operation is a scheduling
// point on top of a real mutex (so the race detector sees the pool's own synchronisation).
type Pool struct {
	New   func() interface{}
	mu    sync.Mutex
	items []interface{}
}

//go:norace
func (p *Pool) Get() interface{} {
	if vsched.Active() {
		vsched.YieldObj("Pool.Get", uintptr(unsafe.Pointer(p)), true)
	}
	p.mu.Lock()
	if n := len(p.items); n > 0 {
		x := p.items[n-1]
		p.items = p.items[:n-1]
		p.mu.Unlock()
		return x
	}
	p.mu.Unlock()
	if p.New != nil {
		return p.New()
	}
	return nil
}

//go:norace
func (p *Pool) Put(x interface{}) {
	if x == nil {
		return
	}
	if vsched.Active() {
		vsched.YieldObj("Pool.Put", uintptr(unsafe.Pointer(p)), true)
	}
	p.mu.Lock()
	p.items = append(p.items, x)
	p.mu.Unlock()
}

// Cond mirrors sync.Cond on top of the modelled locks: Wait releases L, parks until a later
// Signal/Broadcast, and re-acquires L.
type Cond struct {
	L       Locker
	gen     uint64 // incremented by Broadcast
	tickets uint64 // Signal hands out one wake-up each
	waiters uint64
}

func NewCond(l Locker) *Cond { return &Cond{L: l} }

type condProbe struct {
	c   *Cond
	gen uint64
}

//go:norace
func (p condProbe) Ready() bool { return p.c.gen != p.gen || p.c.tickets > 0 }

//go:norace
func (c *Cond) Wait() {
	gen := c.gen
	c.waiters++
	c.L.Unlock()
	vsched.BlockObj("Cond.Wait", condProbe{c, gen}, uintptr(unsafe.Pointer(c)), true)
	if c.gen == gen && c.tickets > 0 {
		c.tickets--
	}
	c.waiters--
	if vsched.Exiting() {
		return
	}
	c.L.Lock()
}

//go:norace
func (c *Cond) Signal() {
	vsched.YieldObj("Cond.Signal", uintptr(unsafe.Pointer(c)), true)
	if c.waiters > c.tickets {
		c.tickets++
	}
}

//go:norace
func (c *Cond) Broadcast() {
	vsched.YieldObj("Cond.Broadcast", uintptr(unsafe.Pointer(c)), true)
	c.gen++
	c.tickets = 0
}
