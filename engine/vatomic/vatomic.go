// Package vatomic replaces sync/atomic: one scheduling point, then the real atomic operation.
package vatomic

import (
	"sync/atomic"
	"unsafe"

	"verif.local/engine/vsched"
)

//go:norace
func pt(what string, p unsafe.Pointer) { vsched.YieldObj(what, uintptr(p), what != "atomic.Load") }

type Int64 struct{ v atomic.Int64 }

//go:norace
func (x *Int64) Load() int64 { pt("atomic.Load", unsafe.Pointer(x)); return x.v.Load() }

//go:norace
func (x *Int64) Store(n int64) { pt("atomic.Store", unsafe.Pointer(x)); x.v.Store(n) }

//go:norace
func (x *Int64) Add(d int64) int64 { pt("atomic.Add", unsafe.Pointer(x)); return x.v.Add(d) }

//go:norace
func (x *Int64) Swap(n int64) int64 { pt("atomic.Swap", unsafe.Pointer(x)); return x.v.Swap(n) }

//go:norace
func (x *Int64) CompareAndSwap(o, n int64) bool {
	pt("atomic.CAS", unsafe.Pointer(x))
	return x.v.CompareAndSwap(o, n)
}

type Uint64 struct{ v atomic.Uint64 }

//go:norace
func (x *Uint64) Load() uint64 { pt("atomic.Load", unsafe.Pointer(x)); return x.v.Load() }

//go:norace
func (x *Uint64) Store(n uint64) { pt("atomic.Store", unsafe.Pointer(x)); x.v.Store(n) }

//go:norace
func (x *Uint64) Add(d uint64) uint64 { pt("atomic.Add", unsafe.Pointer(x)); return x.v.Add(d) }

//go:norace
func (x *Uint64) Swap(n uint64) uint64 { pt("atomic.Swap", unsafe.Pointer(x)); return x.v.Swap(n) }

//go:norace
func (x *Uint64) CompareAndSwap(o, n uint64) bool {
	pt("atomic.CAS", unsafe.Pointer(x))
	return x.v.CompareAndSwap(o, n)
}

type Int32 struct{ v atomic.Int32 }

//go:norace
func (x *Int32) Load() int32 { pt("atomic.Load", unsafe.Pointer(x)); return x.v.Load() }

//go:norace
func (x *Int32) Store(n int32) { pt("atomic.Store", unsafe.Pointer(x)); x.v.Store(n) }

//go:norace
func (x *Int32) Add(d int32) int32 { pt("atomic.Add", unsafe.Pointer(x)); return x.v.Add(d) }

//go:norace
func (x *Int32) CompareAndSwap(o, n int32) bool {
	pt("atomic.CAS", unsafe.Pointer(x))
	return x.v.CompareAndSwap(o, n)
}

type Uint32 struct{ v atomic.Uint32 }

//go:norace
func (x *Uint32) Load() uint32 { pt("atomic.Load", unsafe.Pointer(x)); return x.v.Load() }

//go:norace
func (x *Uint32) Store(n uint32) { pt("atomic.Store", unsafe.Pointer(x)); x.v.Store(n) }

//go:norace
func (x *Uint32) Add(d uint32) uint32 { pt("atomic.Add", unsafe.Pointer(x)); return x.v.Add(d) }

//go:norace
func (x *Uint32) CompareAndSwap(o, n uint32) bool {
	pt("atomic.CAS", unsafe.Pointer(x))
	return x.v.CompareAndSwap(o, n)
}

type Bool struct{ v atomic.Bool }

//go:norace
func (x *Bool) Load() bool { pt("atomic.Load", unsafe.Pointer(x)); return x.v.Load() }

//go:norace
func (x *Bool) Store(b bool) { pt("atomic.Store", unsafe.Pointer(x)); x.v.Store(b) }

//go:norace
func (x *Bool) Swap(b bool) bool { pt("atomic.Swap", unsafe.Pointer(x)); return x.v.Swap(b) }

//go:norace
func (x *Bool) CompareAndSwap(o, n bool) bool {
	pt("atomic.CAS", unsafe.Pointer(x))
	return x.v.CompareAndSwap(o, n)
}

type Value struct{ v atomic.Value }

//go:norace
func (x *Value) Load() interface{} { pt("atomic.Load", unsafe.Pointer(x)); return x.v.Load() }

//go:norace
func (x *Value) Store(v interface{}) { pt("atomic.Store", unsafe.Pointer(x)); x.v.Store(v) }

//go:norace
func (x *Value) Swap(v interface{}) interface{} {
	pt("atomic.Swap", unsafe.Pointer(x))
	return x.v.Swap(v)
}

//go:norace
func (x *Value) CompareAndSwap(o, n interface{}) bool {
	pt("atomic.CAS", unsafe.Pointer(x))
	return x.v.CompareAndSwap(o, n)
}

type Pointer[T any] struct{ v atomic.Pointer[T] }

//go:norace
func (x *Pointer[T]) Load() *T { pt("atomic.Load", unsafe.Pointer(x)); return x.v.Load() }

//go:norace
func (x *Pointer[T]) Store(p *T) { pt("atomic.Store", unsafe.Pointer(x)); x.v.Store(p) }

//go:norace
func (x *Pointer[T]) Swap(p *T) *T { pt("atomic.Swap", unsafe.Pointer(x)); return x.v.Swap(p) }

//go:norace
func (x *Pointer[T]) CompareAndSwap(o, n *T) bool {
	pt("atomic.CAS", unsafe.Pointer(x))
	return x.v.CompareAndSwap(o, n)
}

//go:norace
func AddInt32(p *int32, d int32) int32 {
	pt("atomic.Add", unsafe.Pointer(p))
	return atomic.AddInt32(p, d)
}

//go:norace
func AddInt64(p *int64, d int64) int64 {
	pt("atomic.Add", unsafe.Pointer(p))
	return atomic.AddInt64(p, d)
}

//go:norace
func AddUint32(p *uint32, d uint32) uint32 {
	pt("atomic.Add", unsafe.Pointer(p))
	return atomic.AddUint32(p, d)
}

//go:norace
func AddUint64(p *uint64, d uint64) uint64 {
	pt("atomic.Add", unsafe.Pointer(p))
	return atomic.AddUint64(p, d)
}

//go:norace
func LoadInt32(p *int32) int32 { pt("atomic.Load", unsafe.Pointer(p)); return atomic.LoadInt32(p) }

//go:norace
func LoadInt64(p *int64) int64 { pt("atomic.Load", unsafe.Pointer(p)); return atomic.LoadInt64(p) }

//go:norace
func LoadUint32(p *uint32) uint32 { pt("atomic.Load", unsafe.Pointer(p)); return atomic.LoadUint32(p) }

//go:norace
func LoadUint64(p *uint64) uint64 { pt("atomic.Load", unsafe.Pointer(p)); return atomic.LoadUint64(p) }

//go:norace
func StoreInt32(p *int32, v int32) { pt("atomic.Store", unsafe.Pointer(p)); atomic.StoreInt32(p, v) }

//go:norace
func StoreInt64(p *int64, v int64) { pt("atomic.Store", unsafe.Pointer(p)); atomic.StoreInt64(p, v) }

//go:norace
func StoreUint32(p *uint32, v uint32) {
	pt("atomic.Store", unsafe.Pointer(p))
	atomic.StoreUint32(p, v)
}

//go:norace
func StoreUint64(p *uint64, v uint64) {
	pt("atomic.Store", unsafe.Pointer(p))
	atomic.StoreUint64(p, v)
}

//go:norace
func CompareAndSwapInt32(p *int32, o, n int32) bool {
	pt("atomic.CAS", unsafe.Pointer(p))
	return atomic.CompareAndSwapInt32(p, o, n)
}

//go:norace
func CompareAndSwapInt64(p *int64, o, n int64) bool {
	pt("atomic.CAS", unsafe.Pointer(p))
	return atomic.CompareAndSwapInt64(p, o, n)
}

//go:norace
func CompareAndSwapUint32(p *uint32, o, n uint32) bool {
	pt("atomic.CAS", unsafe.Pointer(p))
	return atomic.CompareAndSwapUint32(p, o, n)
}

//go:norace
func CompareAndSwapUint64(p *uint64, o, n uint64) bool {
	pt("atomic.CAS", unsafe.Pointer(p))
	return atomic.CompareAndSwapUint64(p, o, n)
}
