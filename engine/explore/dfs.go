// Package explore contains the search drivers: deviation-bounded depth-first search over the
// choice tree of controlled executions (schedules, select picks, environment answers).
package explore

import (
	"fmt"
	"sort"
	"time"

	"verif.local/engine/vsched"
)

// Violation is a property violation found in one execution.
type Violation struct {
	Key     string                 `json:"key"` // stable identifier of the failing input/site (known-findings matching)
	Msg     string                 `json:"msg"` // human readable
	Choices []int                  `json:"choices"`
	Detail  map[string]interface{} `json:"detail,omitempty"`
}

// Outcome of one execution as judged by the scenario's oracle.
type Outcome struct {
	Trace      []vsched.ChoicePoint
	ObsKey     string // canonical observation vector (distinct-outcome counting)
	Nontrivial bool   // e.g. at least two threads really overlapped
	Violations []Violation
	Broken     string // harness failure (replay divergence ...): never a verdict
}

// RunFunc runs one execution that replays prefix and takes default choices afterwards.
type RunFunc func(prefix []int, meta []vsched.ChoicePoint) Outcome

// Bounds of the search.
type Bounds struct {
	Preempt     int
	Dev         int
	MaxExec     int       // 0 = unlimited
	Deadline    time.Time // zero = none
	StopAtFirst bool
}

// Stats of a (sub)search.
type Stats struct {
	Executions int            `json:"executions"`
	Nontrivial int            `json:"nontrivial"`
	Outcomes   map[string]int `json:"outcomes"`
	Violations []Violation    `json:"violations"`
	MaxChoices int            `json:"max_choices"`
	ChoicePts  int64          `json:"choice_points"`
	Capped     bool           `json:"capped"`
	Broken     string         `json:"broken,omitempty"`
	ViolCount  int            `json:"viol_count"`
}

func NewStats() *Stats { return &Stats{Outcomes: map[string]int{}} }

// Merge adds o into s.
func (s *Stats) Merge(o *Stats) {
	s.Executions += o.Executions
	s.Nontrivial += o.Nontrivial
	for k, v := range o.Outcomes {
		s.Outcomes[k] += v
	}
	for _, v := range o.Violations {
		if len(s.Violations) < 50 {
			s.Violations = append(s.Violations, v)
		}
	}
	s.ViolCount += o.ViolCount
	if o.MaxChoices > s.MaxChoices {
		s.MaxChoices = o.MaxChoices
	}
	s.ChoicePts += o.ChoicePts
	s.Capped = s.Capped || o.Capped
	if s.Broken == "" {
		s.Broken = o.Broken
	}
}

func cost(tr []vsched.ChoicePoint, upto int) (p, d int) {
	for j := 0; j < upto && j < len(tr); j++ {
		if tr[j].Chosen != 0 {
			if tr[j].Preempt {
				p++
			}
			if tr[j].Dev {
				d++
			}
		}
	}
	return
}

// Children returns the prefixes that deviate from the finished run tr at a position >= from and
// stay within the bounds.
func Children(tr []vsched.ChoicePoint, from int, b Bounds) [][]int {
	var out [][]int
	p, d := cost(tr, from)
	for i := from; i < len(tr); i++ {
		cp := tr[i]
		np, nd := p, d
		if cp.Preempt {
			np++
		}
		if cp.Dev {
			nd++
		}
		if np <= b.Preempt && nd <= b.Dev {
			for alt := 1; alt < cp.N; alt++ {
				pre := make([]int, i+1)
				for j := 0; j < i; j++ {
					pre[j] = tr[j].Chosen
				}
				pre[i] = alt
				out = append(out, pre)
			}
		}
		if cp.Chosen != 0 {
			if cp.Preempt {
				p++
			}
			if cp.Dev {
				d++
			}
		}
	}
	return out
}

func choicesOf(tr []vsched.ChoicePoint) []int {
	out := make([]int, len(tr))
	for i, c := range tr {
		out[i] = c.Chosen
	}
	return out
}

// Subtree explores every execution that extends prefix (branching only after it) within b.
func Subtree(run RunFunc, prefix []int, b Bounds, st *Stats) {
	type item struct{ pre []int }
	stack := []item{{prefix}}
	for len(stack) > 0 {
		it := stack[len(stack)-1]
		stack = stack[:len(stack)-1]
		if b.MaxExec > 0 && st.Executions >= b.MaxExec {
			st.Capped = true
			return
		}
		if !b.Deadline.IsZero() && time.Now().After(b.Deadline) {
			st.Capped = true
			return
		}
		o := run(it.pre, nil)
		record(st, o)
		if o.Broken != "" {
			return
		}
		if b.StopAtFirst && st.ViolCount > 0 {
			return
		}
		if len(o.Trace) < len(it.pre) {
			st.Broken = fmt.Sprintf("execution shorter (%d choices) than its replay prefix (%d)", len(o.Trace), len(it.pre))
			return
		}
		ch := Children(o.Trace, len(it.pre), b)
		// push in reverse so that the earliest deviation is explored first
		for i := len(ch) - 1; i >= 0; i-- {
			stack = append(stack, item{ch[i]})
		}
	}
}

func record(st *Stats, o Outcome) {
	st.Executions++
	if o.Nontrivial {
		st.Nontrivial++
	}
	st.Outcomes[o.ObsKey]++
	if len(o.Trace) > st.MaxChoices {
		st.MaxChoices = len(o.Trace)
	}
	st.ChoicePts += int64(len(o.Trace))
	if o.Broken != "" && st.Broken == "" {
		st.Broken = o.Broken
	}
	for _, v := range o.Violations {
		st.ViolCount++
		if v.Choices == nil {
			v.Choices = choicesOf(o.Trace)
		}
		if len(st.Violations) < 50 {
			st.Violations = append(st.Violations, v)
		}
	}
}

// Frontier runs the root execution and expands the tree breadth-first until at least want
// independent subtree roots exist (or the tree is exhausted). The executions it performs are
// recorded in st; the returned prefixes are the roots still to be explored with Subtree.
func Frontier(run RunFunc, b Bounds, want int, st *Stats) [][]int {
	queue := [][]int{{}}
	for len(queue) > 0 && len(queue) < want {
		pre := queue[0]
		queue = queue[1:]
		o := run(pre, nil)
		record(st, o)
		if o.Broken != "" {
			return nil
		}
		if b.StopAtFirst && st.ViolCount > 0 {
			return nil
		}
		queue = append(queue, Children(o.Trace, len(pre), b)...)
	}
	return queue
}

// DistinctOutcomes returns the outcome keys sorted by frequency (for evidence samples).
func (s *Stats) DistinctOutcomes() []string {
	keys := make([]string, 0, len(s.Outcomes))
	for k := range s.Outcomes {
		keys = append(keys, k)
	}
	sort.Slice(keys, func(i, j int) bool {
		if s.Outcomes[keys[i]] != s.Outcomes[keys[j]] {
			return s.Outcomes[keys[i]] > s.Outcomes[keys[j]]
		}
		return keys[i] < keys[j]
	})
	return keys
}
