// Package explore contains the search drivers: deviation-bounded depth-first search over the
// choice tree of controlled executions (schedules, select picks, environment answers).
package explore

import (
	"fmt"
	"sort"
	"time"

	"verif.local/engine/vsched"
)

// Violation is a property violation found in one execution.
type Violation struct {
	Key     string                 `json:"key"` // stable identifier of the failing input/site (known-findings matching)
	Msg     string                 `json:"msg"` // human readable
	Choices []int                  `json:"choices"`
	Detail  map[string]interface{} `json:"detail,omitempty"`
}

// Outcome of one execution as judged by the scenario's oracle.
type Outcome struct {
	Trace      []vsched.ChoicePoint
	ObsKey     string // canonical observation vector (distinct-outcome counting)
	Nontrivial bool   // e.g. at least two threads really overlapped
	Violations []Violation
	Broken     string // harness failure (replay divergence ...): never a verdict
	Pruned     bool   // cut by the sleep sets (redundant permutation): not judged, not counted
}

// RunFunc runs one execution that replays prefix and takes default choices afterwards.
type RunFunc func(prefix []int, meta []vsched.ChoicePoint) Outcome

// Bounds of the search.
type Bounds struct {
	Preempt     int
	Dev         int
	MaxExec     int       // 0 = unlimited
	Deadline    time.Time // zero = none
	StopAtFirst bool
	POR         bool // sleep-set partial-order reduction
}

// Stats of a (sub)search.
type Stats struct {
	Executions int            `json:"executions"`
	Nontrivial int            `json:"nontrivial"`
	Outcomes   map[string]int `json:"outcomes"`
	Violations []Violation    `json:"violations"`
	MaxChoices int            `json:"max_choices"`
	ChoicePts  int64          `json:"choice_points"`
	Capped     bool           `json:"capped"`
	Broken     string         `json:"broken,omitempty"`
	ViolCount  int            `json:"viol_count"`
	Pruned     int            `json:"pruned"`
}

// keep retains at most two witnesses per violation key, but every key: a flood of one kind of
// violation (a known finding, say) must never displace a different one.
func (s *Stats) keep(v Violation) {
	n := 0
	for _, w := range s.Violations {
		if w.Key == v.Key {
			n++
		}
	}
	if n < 2 {
		s.Violations = append(s.Violations, v)
	}
}

func NewStats() *Stats { return &Stats{Outcomes: map[string]int{}} }

// Merge adds o into s.
func (s *Stats) Merge(o *Stats) {
	s.Executions += o.Executions
	s.Nontrivial += o.Nontrivial
	for k, v := range o.Outcomes {
		s.Outcomes[k] += v
	}
	for _, v := range o.Violations {
		s.keep(v)
	}
	s.ViolCount += o.ViolCount
	s.Pruned += o.Pruned
	if o.MaxChoices > s.MaxChoices {
		s.MaxChoices = o.MaxChoices
	}
	s.ChoicePts += o.ChoicePts
	s.Capped = s.Capped || o.Capped
	if s.Broken == "" {
		s.Broken = o.Broken
	}
}

func cost(tr []vsched.ChoicePoint, upto int) (p, d int) {
	for j := 0; j < upto && j < len(tr); j++ {
		if tr[j].Chosen != 0 {
			if tr[j].Preempt {
				p++
			}
			if tr[j].Dev {
				d++
			}
		}
	}
	return
}

// Children returns the prefixes that deviate from the finished run tr at a position >= from and
// stay within the bounds.
func Children(tr []vsched.ChoicePoint, from int, b Bounds) [][]int {
	var out [][]int
	p, d := cost(tr, from)
	for i := from; i < len(tr); i++ {
		cp := tr[i]
		np, nd := p, d
		if cp.Preempt {
			np++
		}
		if cp.Dev {
			nd++
		}
		if np <= b.Preempt && nd <= b.Dev {
			for alt := 1; alt < cp.N; alt++ {
				pre := make([]int, i+1)
				for j := 0; j < i; j++ {
					pre[j] = tr[j].Chosen
				}
				pre[i] = alt
				out = append(out, pre)
			}
		}
		if cp.Chosen != 0 {
			if cp.Preempt {
				p++
			}
			if cp.Dev {
				d++
			}
		}
	}
	return out
}

func choicesOf(tr []vsched.ChoicePoint) []int {
	out := make([]int, len(tr))
	for i, c := range tr {
		out[i] = c.Chosen
	}
	return out
}

// Subtree explores every execution that extends prefix (branching only after it) within b.
func Subtree(run RunFunc, prefix []int, b Bounds, st *Stats) {
	type item struct{ pre []int }
	stack := []item{{prefix}}
	for len(stack) > 0 {
		it := stack[len(stack)-1]
		stack = stack[:len(stack)-1]
		if b.MaxExec > 0 && st.Executions+st.Pruned >= b.MaxExec {
			st.Capped = true
			return
		}
		if !b.Deadline.IsZero() && time.Now().After(b.Deadline) {
			st.Capped = true
			return
		}
		o := run(it.pre, nil)
		record(st, o)
		if o.Broken != "" {
			return
		}
		if b.StopAtFirst && st.ViolCount > 0 {
			return
		}
		if len(o.Trace) < len(it.pre) {
			st.Broken = fmt.Sprintf("execution shorter (%d choices) than its replay prefix (%d)", len(o.Trace), len(it.pre))
			return
		}
		ch := Children(o.Trace, len(it.pre), b)
		// push in reverse so that the earliest deviation is explored first
		for i := len(ch) - 1; i >= 0; i-- {
			stack = append(stack, item{ch[i]})
		}
	}
}

func record(st *Stats, o Outcome) {
	st.Executions++
	if o.Nontrivial {
		st.Nontrivial++
	}
	st.Outcomes[o.ObsKey]++
	if len(o.Trace) > st.MaxChoices {
		st.MaxChoices = len(o.Trace)
	}
	st.ChoicePts += int64(len(o.Trace))
	if o.Broken != "" && st.Broken == "" {
		st.Broken = o.Broken
	}
	for _, v := range o.Violations {
		st.ViolCount++
		if v.Choices == nil {
			v.Choices = choicesOf(o.Trace)
		}
		st.keep(v)
	}
}

// Frontier runs the root execution and expands the tree breadth-first until at least want
// independent subtree roots exist (or the tree is exhausted). The executions it performs are
// recorded in st; the returned prefixes are the roots still to be explored with Subtree.
func Frontier(run RunFunc, b Bounds, want int, st *Stats) [][]int {
	queue := [][]int{{}}
	for len(queue) > 0 && len(queue) < want {
		pre := queue[0]
		queue = queue[1:]
		o := run(pre, nil)
		record(st, o)
		if o.Broken != "" {
			return nil
		}
		if b.StopAtFirst && st.ViolCount > 0 {
			return nil
		}
		queue = append(queue, Children(o.Trace, len(pre), b)...)
	}
	return queue
}

// DistinctOutcomes returns the outcome keys sorted by frequency (for evidence samples).
func (s *Stats) DistinctOutcomes() []string {
	keys := make([]string, 0, len(s.Outcomes))
	for k := range s.Outcomes {
		keys = append(keys, k)
	}
	sort.Slice(keys, func(i, j int) bool {
		if s.Outcomes[keys[i]] != s.Outcomes[keys[j]] {
			return s.Outcomes[keys[i]] > s.Outcomes[keys[j]]
		}
		return keys[i] < keys[j]
	})
	return keys
}

// ---- partial-order reduction (sleep sets) -------------------------------------------------

// PORItem is a subtree root together with the sleep set valid at its branching node.
type PORItem struct {
	Prefix  []int            `json:"prefix"`
	SleepAt int              `json:"sleep_at"`
	Sleep   []vsched.Sleeper `json:"sleep"`
}

// RunPORFunc runs one execution with sleep sets enabled.
type RunPORFunc func(it PORItem) Outcome

func inSleep(sl []vsched.Sleeper, th int) bool {
	for _, s := range sl {
		if s.Thread == th {
			return true
		}
	}
	return false
}

// costBefore returns the preemptions/deviations spent by the choices before position i.
func costBefore(tr []vsched.ChoicePoint, i int) (int, int) { return cost(tr, i) }

// SubtreePOR explores the subtree of it depth-first with sleep sets. Sleep sets of later siblings
// contain the transitions of earlier (fully explored) siblings.
func SubtreePOR(run RunPORFunc, it PORItem, b Bounds, st *Stats) {
	exploreNodePOR(run, it, b, st)
}

// exploreNodePOR returns whether the transition taken at the branching choice of it may be put to
// sleep for later siblings (it completed and had no effects beyond its announced footprint).
func exploreNodePOR(run RunPORFunc, it PORItem, b Bounds, st *Stats) (sleepable bool) {
	if st.Broken != "" || (b.StopAtFirst && st.ViolCount > 0) {
		return false
	}
	if b.MaxExec > 0 && st.Executions+st.Pruned >= b.MaxExec {
		st.Capped = true
		return false
	}
	if !b.Deadline.IsZero() && time.Now().After(b.Deadline) {
		st.Capped = true
		return false
	}
	o := run(it)
	recordPOR(st, o)
	if o.Broken != "" {
		return false
	}
	tr := o.Trace
	from := len(it.Prefix)
	if len(tr) < from {
		if !o.Pruned {
			st.Broken = fmt.Sprintf("execution shorter (%d choices) than its replay prefix (%d)", len(tr), from)
		}
		return false
	}
	if from > 0 && from-1 < len(tr) {
		sleepable = tr[from-1].Kind == "thread" && tr[from-1].Done && !tr[from-1].Wild
	}
	p, d := cost(tr, from)
	for i := from; i < len(tr); i++ {
		cp := tr[i]
		np, nd := p, d
		if cp.Preempt {
			np++
		}
		if cp.Dev {
			nd++
		}
		if np <= b.Preempt && nd <= b.Dev {
			if cp.Kind == "thread" {
				done := []vsched.Sleeper{}
				if cp.Done && !cp.Wild && cp.Chosen < len(cp.Threads) {
					done = append(done, vsched.Sleeper{Thread: cp.Threads[cp.Chosen]})
				}
				for alt := 0; alt < cp.N; alt++ {
					if alt == cp.Chosen {
						continue
					}
					// alternatives cheaper than the chosen one (index 0 when the default skipped a
					// sleeping running thread) are asleep by construction; costs apply to alt != 0
					ap, ad := p, d
					if alt != 0 && cp.Preempt {
						ap++
					}
					if ap > b.Preempt || ad > b.Dev {
						continue
					}
					th := cp.Threads[alt]
					if inSleep(cp.Sleep, th) {
						continue
					}
					sl := append(append([]vsched.Sleeper{}, cp.Sleep...), done...)
					pre := make([]int, i+1)
					for j := 0; j < i; j++ {
						pre[j] = tr[j].Chosen
					}
					pre[i] = alt
					if exploreNodePOR(run, PORItem{Prefix: pre, SleepAt: i, Sleep: sl}, b, st) {
						done = append(done, vsched.Sleeper{Thread: th})
					}
				}
			} else {
				for alt := 1; alt < cp.N; alt++ {
					pre := make([]int, i+1)
					for j := 0; j < i; j++ {
						pre[j] = tr[j].Chosen
					}
					pre[i] = alt
					exploreNodePOR(run, PORItem{Prefix: pre, SleepAt: i, Sleep: cp.Sleep}, b, st)
				}
			}
		}
		if cp.Chosen != 0 {
			if cp.Preempt {
				p++
			}
			if cp.Dev {
				d++
			}
		}
	}
	return sleepable
}

func recordPOR(st *Stats, o Outcome) {
	if o.Pruned {
		st.Pruned++
		if o.Broken != "" && st.Broken == "" {
			st.Broken = o.Broken
		}
		return
	}
	record(st, o)
}

// FrontierPOR expands the tree breadth-first (with the conservative sleep sets available without
// sibling results) until at least want subtree roots exist.
func FrontierPOR(run RunPORFunc, b Bounds, want int, st *Stats) []PORItem {
	queue := []PORItem{{}}
	for len(queue) > 0 && len(queue) < want {
		it := queue[0]
		queue = queue[1:]
		o := run(it)
		recordPOR(st, o)
		if o.Broken != "" || (b.StopAtFirst && st.ViolCount > 0) {
			return nil
		}
		tr := o.Trace
		from := len(it.Prefix)
		if len(tr) < from {
			continue
		}
		p, d := cost(tr, from)
		for i := from; i < len(tr); i++ {
			cp := tr[i]
			for alt := 0; alt < cp.N; alt++ {
				if alt == cp.Chosen {
					continue
				}
				if cp.Kind != "thread" && alt == 0 {
					continue
				}
				ap, ad := p, d
				if alt != 0 && cp.Preempt {
					ap++
				}
				if cp.Dev && cp.Kind != "thread" {
					ad++
				}
				if ap > b.Preempt || ad > b.Dev {
					continue
				}
				sl := append([]vsched.Sleeper{}, cp.Sleep...)
				if cp.Kind == "thread" {
					if inSleep(cp.Sleep, cp.Threads[alt]) {
						continue
					}
					if cp.Done && !cp.Wild && cp.Chosen < len(cp.Threads) {
						sl = append(sl, vsched.Sleeper{Thread: cp.Threads[cp.Chosen]})
					}
				}
				pre := make([]int, i+1)
				for j := 0; j < i; j++ {
					pre[j] = tr[j].Chosen
				}
				pre[i] = alt
				queue = append(queue, PORItem{Prefix: pre, SleepAt: i, Sleep: sl})
			}
			if cp.Chosen != 0 {
				if cp.Preempt {
					p++
				}
				if cp.Dev {
					d++
				}
			}
		}
	}
	return queue
}
