#!/usr/bin/env python3
"""Independent MCP wire-format oracle (python jsonschema, Draft 2020-12).

Reads one JSON object per line on stdin:
  {"frames": [ {"raw": "<text of one frame>", "kind": "response|notification|request|any",
                "method": "<method of the request this frame answers>", "reqid": <raw json of the request id or null>} ... ]}
and answers one line: {"results": [ {"ok": bool, "errors": [..], "class": "success|error|notification|request", "code": int|null} ... ]}
It shares no code with trpc-mcp-go.
"""
import json, sys, os
from jsonschema import Draft202012Validator
from referencing import Registry, Resource

HERE = os.path.dirname(os.path.abspath(__file__))
SCHEMA = json.load(open(os.path.join(HERE, "..", "spec", "mcp-2025-03-26.schema.json")))
REG = Registry().with_resource("verif:mcp-2025-03-26", Resource.from_contents(SCHEMA))
_cache = {}

def validator(defname):
    v = _cache.get(defname)
    if v is None:
        if defname not in SCHEMA["$defs"]:
            return None
        v = Draft202012Validator({"$ref": "verif:mcp-2025-03-26#/$defs/" + defname.replace("~", "~0").replace("/", "~1")}, registry=REG)
        _cache[defname] = v
    return v

def errs(v, inst, limit=3):
    out = []
    for e in v.iter_errors(inst):
        out.append("%s: %s" % ("/".join(str(p) for p in e.absolute_path) or "<root>", e.message[:200]))
        if len(out) >= limit:
            break
    return out

def no_dup_keys(pairs):
    seen = set()
    for k, _ in pairs:
        if k in seen:
            raise ValueError("duplicate key %r" % k)
        seen.add(k)
    return dict(pairs)

def check(fr):
    raw = fr.get("raw", "")
    res = {"ok": True, "errors": [], "class": None, "code": None}
    def bad(m):
        res["ok"] = False
        res["errors"].append(m)
    try:
        dec = json.JSONDecoder(object_pairs_hook=no_dup_keys)
        obj, end = dec.raw_decode(raw.lstrip())
        rest = raw.lstrip()[end:].strip()
        if rest:
            bad("more than one JSON value in the frame (trailing %r)" % rest[:40])
    except Exception as e:
        bad("not a JSON value: %s" % e)
        return res
    if not isinstance(obj, dict):
        bad("frame is not a JSON object")
        return res
    has_id, has_method = "id" in obj, "method" in obj
    has_result, has_error = "result" in obj, "error" in obj
    if has_method and not has_id:
        cls = "notification"
    elif has_method and has_id:
        cls = "request"
    elif has_error and not has_result:
        cls = "error"
    elif has_result and not has_error:
        cls = "success"
    else:
        bad("neither request, notification, nor response with exactly one of result/error (keys: %s)" % sorted(obj.keys()))
        return res
    res["class"] = cls
    env = {"notification": "notificationEnvelope", "request": "requestEnvelope", "error": "errorEnvelope", "success": "successEnvelope"}[cls]
    for e in errs(validator(env), obj):
        bad(env + " " + e)
    kind = fr.get("kind", "any")
    if kind == "response" and cls not in ("success", "error"):
        bad("expected a response, got a %s" % cls)
    if kind == "notification" and cls != "notification":
        bad("expected a notification, got a %s" % cls)
    if cls in ("success", "error") and "reqid" in fr and fr["reqid"] is not None:
        if obj.get("id") != fr["reqid"] or type(obj.get("id")) is not type(fr["reqid"]):
            # an error reply may carry null when the id could not be determined (handled by caller via reqid=None)
            bad("response id %r differs from request id %r" % (obj.get("id"), fr["reqid"]))
    if cls == "error" and isinstance(obj.get("error"), dict):
        res["code"] = obj["error"].get("code")
        res["message"] = obj["error"].get("message")
    if cls == "success":
        m = fr.get("method")
        if m:
            v = validator("result:" + m)
            if v is not None and isinstance(obj.get("result"), dict):
                for e in errs(v, obj["result"]):
                    bad("result of %s: %s" % (m, e))
    if cls == "request":
        pass
    return res

def main():
    for line in sys.stdin:
        line = line.strip()
        if not line:
            continue
        try:
            rq = json.loads(line)
            out = {"results": [check(f) for f in rq.get("frames", [])]}
        except Exception as e:  # fail closed: the Go side treats a missing result as harness-broken
            out = {"fatal": str(e)}
        sys.stdout.write(json.dumps(out) + "\n")
        sys.stdout.flush()

if __name__ == "__main__":
    main()
