#!/usr/bin/env python3
"""Independent JSON-Schema oracle for C18 (long-lived helper: one JSON request per line).

request : {"style": "inline|defs|nested", "schema": <document>, "shapes": [shape...], "root": <shape id>,
           "instances": [<json>...], "truncation_ok": bool}
shape   : {"k": "struct", "f": {name: shape id}} | {"k": "array"|"map", "e": shape id} | {"k": "leaf"|"any"}
answer  : {"violations": [{"kind":..., "detail":..., "where":...}], "stats": {...}}

Nothing here is derived from the Go library: $ref resolution is a plain RFC 6901 walk, acceptance
is python-jsonschema's Draft 2020-12 validator, field names are compared with the names the harness
read off encoding/json's own output.
"""
import json
import sys
import urllib.parse

from jsonschema import Draft202012Validator
from jsonschema.exceptions import SchemaError

MAP_KW = ("properties", "patternProperties", "$defs", "definitions", "dependentSchemas")
ONE_KW = ("items", "additionalProperties", "not", "if", "then", "else", "contains", "propertyNames",
          "unevaluatedItems", "unevaluatedProperties", "additionalItems")
LIST_KW = ("anyOf", "oneOf", "allOf", "prefixItems")


def subschemas(node, path):
    """Yield (path, subschema) for every schema position below node (schema-aware: a property that
    happens to be called "$ref" is a name, not a keyword)."""
    if not isinstance(node, dict):
        return
    for kw in MAP_KW:
        v = node.get(kw)
        if isinstance(v, dict):
            for name, sub in v.items():
                yield path + [kw, name], sub
    for kw in ONE_KW:
        v = node.get(kw)
        if isinstance(v, (dict, bool)):
            yield path + [kw], v
    for kw in LIST_KW:
        v = node.get(kw)
        if isinstance(v, list):
            for i, sub in enumerate(v):
                yield path + [kw, str(i)], sub


def all_schemas(doc):
    stack = [([], doc)]
    while stack:
        path, node = stack.pop()
        yield path, node
        for p, s in subschemas(node, path):
            stack.append((p, s))


def resolve_pointer(doc, ref):
    """RFC 6901 resolution of a same-document reference; returns (ok, node_or_reason)."""
    if not isinstance(ref, str):
        return False, "not a string"
    if not ref.startswith("#"):
        return False, "points outside the document"
    frag = urllib.parse.unquote(ref[1:])
    if frag == "":
        return True, doc
    if not frag.startswith("/"):
        return False, "fragment is not a JSON pointer"
    cur = doc
    for tok in frag[1:].split("/"):
        tok = tok.replace("~1", "/").replace("~0", "~")
        if isinstance(cur, dict):
            if tok not in cur:
                return False, "no member %r" % tok
            cur = cur[tok]
        elif isinstance(cur, list):
            if not tok.isdigit() or int(tok) >= len(cur):
                return False, "no index %r" % tok
            cur = cur[int(tok)]
        else:
            return False, "cannot descend into a %s at %r" % (type(cur).__name__, tok)
    if not isinstance(cur, (dict, bool)):
        return False, "target is not a schema"
    return True, cur


def deref(doc, node):
    seen = 0
    while isinstance(node, dict) and isinstance(node.get("$ref"), str):
        ok, tgt = resolve_pointer(doc, node["$ref"])
        if not ok:
            return None
        node = tgt
        seen += 1
        if seen > 64:
            return None
    return node


def strip_nullable(doc, node):
    """A nullable wrapper {anyOf:[S,{type:null}]} stands for S."""
    node = deref(doc, node)
    while isinstance(node, dict) and "properties" not in node and "items" not in node and isinstance(node.get("anyOf"), list):
        alts = [a for a in node["anyOf"] if not (isinstance(a, dict) and a.get("type") == "null")]
        if len(alts) != 1:
            break
        node = deref(doc, alts[0])
    return node


def check_names(doc, shapes, root, truncation_ok, out):
    seen = set()
    stack = [(doc, root, "#")]
    compared = 0
    while stack:
        node, sid, where = stack.pop()
        node = strip_nullable(doc, node)
        if not isinstance(node, dict):
            continue
        key = (id(node), sid)
        if key in seen:
            continue
        seen.add(key)
        sh = shapes[sid]
        k = sh["k"]
        if k == "struct":
            if "properties" not in node:
                if truncation_ok:
                    continue
                if sh["f"]:
                    out.append({"kind": "names-missing", "where": where,
                                "detail": "no properties at all; encoding/json uses %s" % sorted(sh["f"])})
                continue
            props = node["properties"] if isinstance(node["properties"], dict) else {}
            if truncation_ok and not props and node.get("description", "").lower().find("limit") >= 0:
                continue
            compared += 1
            want, got = set(sh["f"]), set(props)
            if want - got:
                out.append({"kind": "names-missing", "where": where,
                            "detail": "schema lacks %s (encoding/json uses %s, schema names %s)" % (sorted(want - got), sorted(want), sorted(got))})
            if got - want:
                out.append({"kind": "names-extra", "where": where,
                            "detail": "schema names %s which encoding/json never emits (it uses %s)" % (sorted(got - want), sorted(want))})
            for name in want & got:
                stack.append((props[name], sh["f"][name], where + "/properties/" + name))
        elif k == "array":
            it = node.get("items")
            if isinstance(it, dict):
                stack.append((it, sh["e"], where + "/items"))
        elif k == "map":
            ap = node.get("additionalProperties")
            if isinstance(ap, dict):
                stack.append((ap, sh["e"], where + "/additionalProperties"))
    return compared


def handle(req):
    doc = req["schema"]
    out = []
    stats = {"schemas": 0, "refs": 0, "instances": 0, "structs_compared": 0}
    if not isinstance(doc, dict):
        return {"violations": [{"kind": "not-a-schema", "where": "#", "detail": "the generator did not return an object"}], "stats": stats}
    try:
        Draft202012Validator.check_schema(doc)
    except SchemaError as e:
        out.append({"kind": "invalid-schema", "where": "/".join(str(p) for p in e.absolute_path), "detail": e.message[:200]})
    refs_ok = True
    for path, node in all_schemas(doc):
        stats["schemas"] += 1
        if isinstance(node, dict) and "$ref" in node:
            stats["refs"] += 1
            ok, why = resolve_pointer(doc, node["$ref"])
            if not ok:
                refs_ok = False
                out.append({"kind": "dangling-ref", "where": "#/" + "/".join(path),
                            "detail": "$ref %r does not resolve inside the document: %s" % (node["$ref"], why)})
    if req.get("shapes") is not None:
        stats["structs_compared"] = check_names(doc, req["shapes"], req["root"], bool(req.get("truncation_ok")), out)
    if refs_ok:
        try:
            v = Draft202012Validator(doc)
            for i, inst in enumerate(req.get("instances") or []):
                stats["instances"] += 1
                errs = sorted(v.iter_errors(inst), key=lambda e: (len(e.absolute_path), str(e.absolute_path)))
                if errs:
                    e = errs[0]
                    # the most specific cause under an anyOf wrapper
                    while e.context:
                        e = sorted(e.context, key=lambda c: -len(c.absolute_path))[0]
                    out.append({"kind": "rejects", "instance": i,
                                "where": "/" + "/".join(str(p) for p in e.absolute_path),
                                "validator": str(e.validator),
                                "detail": "instance %d rejected at /%s: %s" % (i, "/".join(str(p) for p in e.absolute_path), e.message[:160])})
        except Exception as e:  # resolution failure inside the validator
            out.append({"kind": "validator-error", "where": "#", "detail": "%s: %s" % (type(e).__name__, str(e)[:200])})
    return {"violations": out, "stats": stats}


def main():
    for line in sys.stdin:
        line = line.strip()
        if not line:
            continue
        try:
            ans = handle(json.loads(line))
        except Exception as e:  # harness error: never a silent pass
            ans = {"fatal": "%s: %s" % (type(e).__name__, e)}
        sys.stdout.write(json.dumps(ans) + "\n")
        sys.stdout.flush()


if __name__ == "__main__":
    main()
