#!/bin/bash
# Build the framework from files on disk only (offline) and warm the build caches.
set -e
export GOFLAGS=-mod=mod GOPROXY=off GOSUMDB=off GOTOOLCHAIN=local
cd /verif
mkdir -p .bin .work evidence replays
(cd instrument && go build -o /verif/.bin/instrument .)
(cd engine && go vet ./... >/dev/null)
bash /verif/bin/build.sh plain >/dev/null
bash /verif/bin/build.sh race >/dev/null
# memnet (the environment model of all HTTP checks) against the real net/http stack; informational
bash /verif/bin/conformance.sh || echo "conformance run reported a difference (informational, see above)"
echo setup-ok
