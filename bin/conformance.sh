#!/bin/bash
# memnet vs net/http: the same script of exchanges over real HTTP (uninstrumented library, httptest
# server, TCP) and over memnet (instrumented library, controlled scheduler); the normalised
# transcripts must be identical. Exit 0 = identical, 1 = they differ (the diff is printed).
V=$(cd "$(dirname "${BASH_SOURCE[0]}")/.." && pwd)
export GOFLAGS=-mod=mod GOPROXY=off GOSUMDB=off GOTOOLCHAIN=local
W=$($V/bin/build.sh plain | tail -1) || exit 2
MODFLAG=""; [ -f $W/harness.go.mod ] && MODFLAG="-modfile=$W/harness.go.mod"
(cd $V/harness && go build $MODFLAG -tags verif -o $W/conform-real ./cmd/conform) || exit 2
(cd $V/harness && go build $MODFLAG -tags verif -overlay $W/overlay.json -o $W/conform-memnet ./cmd/conform) || exit 2
$W/conform-real -mode real > $W/conform.real.txt 2>&1
$W/conform-memnet -mode memnet > $W/conform.memnet.txt 2>&1
n=$(wc -l < $W/conform.real.txt)
if diff $W/conform.real.txt $W/conform.memnet.txt > $W/conform.diff; then
  echo "conformance-ok: $n steps identical over net/http and memnet"
  exit 0
fi
echo "conformance-DIFF (< net/http, > memnet):"; cat $W/conform.diff
exit 1
