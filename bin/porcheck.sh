#!/bin/bash
# porcheck.sh <mutant.diff|none> <P> <D> scenario...  — compare plain DFS with sleep-set DFS:
# same set of distinct outcomes and same violation keys are required.
M=$1; P=$2; D=$3; shift 3
if [ "$M" != none ]; then git -C /repo apply $M || exit 1; fi
W=$(/verif/bin/build.sh plain 2>&1 | tail -1)
rc=0
for sc in "$@"; do
  for por in false true; do
    VERIF_SHOW_OUTCOMES=1 VERIF_DEBUG_ALL=1 $W/vcheck -scenario $sc -p $P -d $D -por=$por 2>&1 | grep -v sample > /tmp/por_$por.txt
    head -1 /tmp/por_$por.txt
  done
  # outcomes are compared by their verdict part (the set of violation keys after '#'): the order in
  # which independent events were logged is exactly what the reduction does not distinguish
  if diff <(grep outcome /tmp/por_false.txt | sed 's/.*#//' | sort -u) <(grep outcome /tmp/por_true.txt | sed 's/.*#//' | sort -u) > /dev/null; then echo "  SAME verdict sets: $(grep outcome /tmp/por_true.txt | sed 's/.*#//' | sort -u | wc -l) (full outcomes plain=$(grep -c outcome /tmp/por_false.txt) por=$(grep -c outcome /tmp/por_true.txt))"; else echo "  DIFFERENT verdict sets"; diff <(grep outcome /tmp/por_false.txt | sed 's/.*#//' | sort -u) <(grep outcome /tmp/por_true.txt | sed 's/.*#//' | sort -u) | head -6; rc=1; fi
done
if [ "$M" != none ]; then git -C /repo checkout -- .; fi
exit $rc
