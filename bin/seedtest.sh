#!/bin/bash
# bin/seedtest.sh [--tier T] [--checks "C01 C09"] <seed id>...
# For every seeded change /verif/seeded/<id>/patch.diff: apply it to /repo, run the named checks
# (default: the check of the same property), undo it straight afterwards. A check "catches" the
# change when it exits 1 with a VIOLATION line. /repo is always restored (trap).
TIER=quick; CHECKS=""
while [ $# -gt 0 ]; do case "$1" in --tier) TIER=$2; shift 2;; --checks) CHECKS=$2; shift 2;; *) break;; esac; done
export GOFLAGS=-mod=mod GOPROXY=off GOSUMDB=off GOTOOLCHAIN=local
restore() { git -C /repo checkout -- . ; }
trap restore EXIT
mkdir -p /verif/.work/logs
if [ -n "$(git -C /repo status --porcelain)" ]; then echo "/repo is not clean"; exit 2; fi
for id in "$@"; do
  p=/verif/seeded/$id/patch.diff
  [ -f $p ] || p=/verif/mutants/$id.diff
  [ -f $p ] || { echo "$id: no patch"; continue; }
  git -C /repo apply $p || { echo "$id: patch does not apply"; continue; }
  prop=$(echo $id | cut -c1-3)
  for c in ${CHECKS:-$prop}; do
    t0=$(date +%s)
    mkdir -p /verif/.work/logs
    bash /verif/bin/check $c --tier $TIER > /verif/.work/logs/seed.$id.$c.log 2>&1
    rc=$?
    t1=$(date +%s)
    n=$(grep -c '^VIOLATION' /verif/.work/logs/seed.$id.$c.log)
    case $rc in 1) v=CAUGHT;; 0) v=MISSED;; *) v=BROKEN;; esac
    echo "$id check=$c $v rc=$rc violations=$n $((t1-t0))s :: $(grep -m1 '^VIOLATION' /verif/.work/logs/seed.$id.$c.log | sed 's/.*key=//' | cut -c1-200)"
  done
  restore
done
