#!/bin/bash
# bin/seedtest.sh [--tier T] [--checks "C01 C09"] [--in-place] <seed id>...
# For every seeded change /verif/seeded/<id>/patch.diff (or /verif/mutants/<id>.diff): apply it,
# run the named checks (default: the check of the same property), undo it. A check "catches" the
# change when it exits 1 with a VIOLATION line.
#   default    : the change is applied to a scratch git worktree of /repo under $TMPDIR (removed
#                afterwards, together with its build output); /repo itself is not touched, so
#                several seed tests and other checks can run at the same time;
#   --in-place : git -C /repo apply <patch>, run, git -C /repo checkout -- . (also on abort).
V=$(cd "$(dirname "${BASH_SOURCE[0]}")/.." && pwd)
TIER=quick; CHECKS=""; INPLACE=0
while [ $# -gt 0 ]; do case "$1" in --tier) TIER=$2; shift 2;; --checks) CHECKS=$2; shift 2;; --in-place) INPLACE=1; shift;; *) break;; esac; done
export GOFLAGS=-mod=mod GOPROXY=off GOSUMDB=off GOTOOLCHAIN=local
mkdir -p $V/.work/logs
SCR=""
cleanup() {
  if [ $INPLACE = 1 ]; then git -C /repo checkout -- . ; fi
  if [ -n "$SCR" ]; then git -C /repo worktree remove --force $SCR 2>/dev/null; rm -rf $SCR; rm -rf $V/.work/scratch-*-$$ ; fi
}
trap cleanup EXIT
if [ $INPLACE = 1 ]; then
  [ -n "$(git -C /repo status --porcelain)" ] && { echo "/repo is not clean"; exit 2; }
  TARGET=/repo
else
  SCR=${TMPDIR:-/tmp}/verif-seed-$$
  git -C /repo worktree add -q --detach $SCR HEAD || exit 2
  TARGET=$SCR
  export VERIF_REPO=$SCR
fi
for id in "$@"; do
  p=$V/seeded/$id/patch.diff
  [ -f $p ] || p=$V/mutants/$id.diff
  [ -f $p ] || { echo "$id: no patch"; continue; }
  git -C $TARGET apply $p || { echo "$id: patch does not apply"; continue; }
  prop=$(echo $id | cut -c1-3)
  for c in ${CHECKS:-$prop}; do
    t0=$(date +%s)
    mkdir -p $V/.work/logs
    bash $V/bin/check $c --tier $TIER > $V/.work/logs/seed.$id.$c.log 2>&1
    rc=$?
    t1=$(date +%s)
    n=$(grep -c '^VIOLATION' $V/.work/logs/seed.$id.$c.log)
    case $rc in 1) v=CAUGHT;; 0) v=MISSED;; *) v=BROKEN;; esac
    echo "$id check=$c $v rc=$rc violations=$n $((t1-t0))s :: $(grep -m1 '^VIOLATION' $V/.work/logs/seed.$id.$c.log | sed 's/.*key=//' | cut -c1-200)"
  done
  git -C $TARGET checkout -- .
  # build output of this variant of the scratch tree
  [ $INPLACE = 0 ] && for d in $V/.work/scratch-*/; do grep -qs "$SCR" $d/overlay.json && rm -rf $d; done
done
