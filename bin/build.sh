#!/bin/bash
# Instrument /repo's current working tree and build the checker binaries for it.
# Usage: build.sh [race]   -> prints the work directory on stdout (last line)
# Exit 2 = harness broken (never a verdict).
set -u
export GOFLAGS=-mod=mod GOPROXY=off GOSUMDB=off GOTOOLCHAIN=local CGO_ENABLED=1
V=$(cd "$(dirname "${BASH_SOURCE[0]}")/.." && pwd)   # /verif, or a snapshot of it (vp run)
REPO=${VERIF_REPO:-/repo}
FLAVOUR=${1:-plain}
mkdir -p $V/.work $V/.bin
exec 9>$V/.work/.lock
flock 9
# tools
if [ ! -x $V/.bin/instrument ] || [ -n "$(find $V/instrument -newer $V/.bin/instrument -name '*.go' 2>/dev/null | head -1)" ]; then
  (cd $V/instrument && go build -o $V/.bin/instrument .) >&2 || { echo "HARNESS-BROKEN cannot build instrumenter" >&2; exit 2; }
fi
# hash of the tree under test + of the harness sources
H=$( (cd $REPO && find . -path ./examples -prune -o -path ./e2e -prune -o \( -name '*.go' -o -name go.mod -o -name go.sum \) -type f -print0 | sort -z | xargs -0 sha256sum; \
      cd $V && find engine harness instrument -name '*.go' -type f -print0 | sort -z | xargs -0 sha256sum; echo $REPO) | sha256sum | cut -c1-16)
W=$V/.work/$H
[ "$REPO" != /repo ] && W=$V/.work/scratch-$H   # builds for scratch copies are removed by whoever made the copy
if [ ! -f $W/overlay.json ]; then
  # drop stale generations (keep disk small)
  # (only generations untouched for 90 minutes: a check that is still running must keep its binaries)
  [ "$REPO" = /repo ] && find $V/.work -maxdepth 1 -type d -regextype posix-extended -regex '.*/[0-9a-f]{16}' -mmin +90 ! -path "$W" -exec rm -rf {} + 2>/dev/null
  mkdir -p $W
  $V/.bin/instrument -repo $REPO -out $W >&2 || { echo "HARNESS-BROKEN instrumentation failed" >&2; rm -f $W/overlay.json; exit 2; }
fi
BIN=$W/vcheck
RACEFLAG=""
if [ "$FLAVOUR" = race ]; then BIN=$W/vcheck-race; RACEFLAG="-race"; fi
MODFLAG=""
if [ "$REPO" != /repo ]; then
  # a scratch copy of the repository (seed tests, background runs): same module graph, other replace target
  sed "s#=> /repo\$#=> $REPO#" $V/harness/go.mod > $W/harness.go.mod
  cp $V/harness/go.sum $W/harness.go.sum 2>/dev/null
  MODFLAG="-modfile=$W/harness.go.mod"
fi
if [ ! -x $BIN ]; then
  (cd $V/harness && go build $MODFLAG $RACEFLAG -tags verif -overlay $W/overlay.json -o $BIN ./cmd/vcheck) >&2 || { echo "HARNESS-BROKEN build of the instrumented library/harness failed" >&2; exit 2; }
fi
echo $W
