#!/bin/bash
# bin/runall.sh [quick|thorough] [ids...] — runs the registered checks one after the other and prints a summary table.
V=$(cd "$(dirname "${BASH_SOURCE[0]}")/.." && pwd)
TIER=${1:-quick}; shift
IDS=${@:-C01 C02 C03 C04 C05 C06 C07 C08 C09 C10 C11 C12 C13 C14 C15 C16 C17 C18 C19 C20}
mkdir -p $V/.work/logs
rc_all=0
for id in $IDS; do
  t0=$(date +%s)
  mkdir -p $V/.work/logs
  bash $V/bin/check $id --tier $TIER > $V/.work/logs/$id.$TIER.log 2>&1
  rc=$?
  t1=$(date +%s)
  echo "$id rc=$rc $((t1-t0))s $(tail -1 $V/.work/logs/$id.$TIER.log | cut -c1-160)"
  [ $rc -ne 0 ] && rc_all=1
done
exit $rc_all
