// Package hx holds helpers shared by all property harnesses: a silent logger, a reference MCP
// peer that speaks raw JSON over the in-memory fabric (it never uses the library's message
// types), a WHATWG-conformant SSE parser, JSON normalisation and observation recording.
package hx

import (
	"bytes"
	"context"
	"encoding/json"
	"fmt"
	"io"
	"net/http"
	"sort"
	"strings"
	"unsafe"

	mcp "trpc.group/trpc-go/trpc-mcp-go"
	"verif.local/engine/memnet"
	"verif.local/engine/vsched"
)

// Nop is a logger that discards everything (Fatal included: it must not exit the checker).
type Nop struct{}

func (Nop) Debug(args ...interface{})                 {}
func (Nop) Debugf(format string, args ...interface{}) {}
func (Nop) Info(args ...interface{})                  {}
func (Nop) Infof(format string, args ...interface{})  {}
func (Nop) Warn(args ...interface{})                  {}
func (Nop) Warnf(format string, args ...interface{})  {}
func (Nop) Error(args ...interface{})                 {}
func (Nop) Errorf(format string, args ...interface{}) {}
func (Nop) Fatal(args ...interface{})                 {}
func (Nop) Fatalf(format string, args ...interface{}) {}

func init() { mcp.SetDefaultLogger(Nop{}) }

// Flag is a boolean shared between controlled threads without creating happens-before edges.
type Flag struct{ v bool }

//go:norace
func (f *Flag) Set() { vsched.YieldObj("flag.set", uintptr(unsafe.Pointer(f)), true); f.v = true }

//go:norace
func (f *Flag) Get() bool { return f.v }

//go:norace
func (f *Flag) Ready() bool { return f.v }

// Wait blocks the calling controlled thread until the flag is set.
//
//go:norace
func (f *Flag) Wait(what string) { vsched.BlockObj(what, f, uintptr(unsafe.Pointer(f)), false) }

// Counter is an int shared between controlled threads without happens-before edges.
type Counter struct{ n int }

//go:norace
func (c *Counter) Inc() int {
	vsched.YieldObj("counter.inc", uintptr(unsafe.Pointer(c)), true)
	c.n++
	return c.n
}

//go:norace
func (c *Counter) Get() int { return c.n }

// AtLeast is a prober for "counter >= n".
type AtLeast struct {
	C *Counter
	N int
}

//go:norace
func (a AtLeast) Ready() bool { return a.C.n >= a.N }

// Log is an append-only list of strings shared between threads (observations).
type Log struct{ items []string }

//go:norace
func (l *Log) Add(format string, a ...interface{}) {
	l.items = append(l.items, fmt.Sprintf(format, a...))
}

//go:norace
func (l *Log) Items() []string { return append([]string(nil), l.items...) }

//go:norace
func (l *Log) String() string { return strings.Join(l.items, " | ") }

// SSEEvent is one parsed server-sent event.
type SSEEvent struct {
	ID    string
	Event string
	Data  string
	HasID bool
}

// ParseSSE parses a byte stream by the WHATWG event-stream rules: lines end with CRLF, LF or CR;
// a line starting with ':' is a comment; "field: value" (one optional space removed); multiple
// data lines are joined with LF; an empty line dispatches the event if any data was seen.
// It returns the dispatched events, the comments, and whether undispatched residue remains.
func ParseSSE(b []byte) (events []SSEEvent, comments []string, residue bool) {
	var lines []string
	cur := []byte{}
	i := 0
	pendingLine := false
	for i < len(b) {
		c := b[i]
		if c == '\r' {
			lines = append(lines, string(cur))
			cur = cur[:0]
			if i+1 < len(b) && b[i+1] == '\n' {
				i++
			}
			pendingLine = false
		} else if c == '\n' {
			lines = append(lines, string(cur))
			cur = cur[:0]
			pendingLine = false
		} else {
			cur = append(cur, c)
			pendingLine = true
		}
		i++
	}
	var ev SSEEvent
	var data []string
	seen := false
	for _, ln := range lines {
		if ln == "" {
			if len(data) > 0 || seen && false {
				ev.Data = strings.Join(data, "\n")
				events = append(events, ev)
			}
			ev = SSEEvent{}
			data = nil
			seen = false
			continue
		}
		if strings.HasPrefix(ln, ":") {
			comments = append(comments, strings.TrimPrefix(ln[1:], " "))
			continue
		}
		field, value := ln, ""
		if k := strings.IndexByte(ln, ':'); k >= 0 {
			field, value = ln[:k], ln[k+1:]
			value = strings.TrimPrefix(value, " ")
		}
		seen = true
		switch field {
		case "data":
			data = append(data, value)
		case "event":
			ev.Event = value
		case "id":
			if !strings.Contains(value, "\x00") {
				ev.ID = value
				ev.HasID = true
			}
		}
	}
	residue = pendingLine || len(data) > 0 || seen
	return
}

// Canon re-encodes a JSON document with sorted keys and normalised numbers; it returns
// "!invalid:<err>" for input that is not exactly one JSON value.
func Canon(b []byte) string {
	dec := json.NewDecoder(bytes.NewReader(b))
	dec.UseNumber()
	var v interface{}
	if err := dec.Decode(&v); err != nil {
		return "!invalid:" + err.Error()
	}
	if dec.More() {
		return "!invalid:trailing data"
	}
	var t json.Token
	if tk, err := dec.Token(); err != io.EOF {
		_ = tk
		_ = t
		return "!invalid:trailing data"
	}
	return canonValue(v)
}

func canonValue(v interface{}) string {
	switch x := v.(type) {
	case map[string]interface{}:
		keys := make([]string, 0, len(x))
		for k := range x {
			keys = append(keys, k)
		}
		sort.Strings(keys)
		var sb strings.Builder
		sb.WriteByte('{')
		for i, k := range keys {
			if i > 0 {
				sb.WriteByte(',')
			}
			kb, _ := json.Marshal(k)
			sb.Write(kb)
			sb.WriteByte(':')
			sb.WriteString(canonValue(x[k]))
		}
		sb.WriteByte('}')
		return sb.String()
	case []interface{}:
		var sb strings.Builder
		sb.WriteByte('[')
		for i, e := range x {
			if i > 0 {
				sb.WriteByte(',')
			}
			sb.WriteString(canonValue(e))
		}
		sb.WriteByte(']')
		return sb.String()
	case json.Number:
		return canonNumber(string(x))
	default:
		b, _ := json.Marshal(x)
		return string(b)
	}
}

func canonNumber(s string) string {
	// integers that fit in int64 keep their digits; everything else goes through float64
	var i int64
	if _, err := fmt.Sscanf(s, "%d", &i); err == nil && fmt.Sprintf("%d", i) == s {
		return s
	}
	var f float64
	if _, err := fmt.Sscanf(s, "%g", &f); err == nil {
		if f == float64(int64(f)) && f > -1e18 && f < 1e18 {
			return fmt.Sprintf("%d", int64(f))
		}
		b, _ := json.Marshal(f)
		return string(b)
	}
	return s
}

// CanonOf marshals v and canonicalises it.
func CanonOf(v interface{}) string {
	b, err := json.Marshal(v)
	if err != nil {
		return "!marshal:" + err.Error()
	}
	return Canon(b)
}

// Peer is the reference client: raw HTTP + raw JSON.
type Peer struct {
	Fab     *memnet.Fabric
	URL     string
	Headers map[string]string
	HC      *http.Client
}

// NewPeer creates a peer that posts to url through fab.
func NewPeer(fab *memnet.Fabric, url string) *Peer {
	return &Peer{Fab: fab, URL: url, HC: fab.Client(), Headers: map[string]string{}}
}

// Reply is a fully read HTTP answer.
type Reply struct {
	Status int
	Header http.Header
	Body   []byte
	X      *memnet.Exchange
	Err    error
}

// SessionID returns the Mcp-Session-Id response header.
func (r *Reply) SessionID() string { return r.Header.Get("Mcp-Session-Id") }

// Do sends one request and reads the whole answer (use Open for streams that stay open).
func (p *Peer) Do(method, url, sid string, body []byte, hdr map[string]string) *Reply {
	resp, x, err := p.Open(context.Background(), method, url, sid, body, hdr)
	if err != nil {
		return &Reply{Err: err, X: x}
	}
	b, rerr := io.ReadAll(resp.Body)
	resp.Body.Close()
	return &Reply{Status: resp.StatusCode, Header: resp.Header, Body: b, X: x, Err: rerr}
}

// Open sends one request and returns as soon as response headers are in.
func (p *Peer) Open(ctx context.Context, method, url, sid string, body []byte, hdr map[string]string) (*http.Response, *memnet.Exchange, error) {
	var x *memnet.Exchange
	ctx = memnet.WithCapture(ctx, &x)
	var rd io.Reader
	if body != nil {
		rd = bytes.NewReader(body)
	}
	req, err := http.NewRequestWithContext(ctx, method, url, rd)
	if err != nil {
		return nil, nil, err
	}
	if method == http.MethodPost {
		req.Header.Set("Content-Type", "application/json")
		req.Header.Set("Accept", "application/json, text/event-stream")
	}
	if method == http.MethodGet {
		req.Header.Set("Accept", "text/event-stream")
	}
	if sid != "" {
		req.Header.Set("Mcp-Session-Id", sid)
	}
	for k, v := range p.Headers {
		req.Header.Set(k, v)
	}
	for k, v := range hdr {
		if v == "\x00unset" {
			req.Header.Del(k)
		} else {
			req.Header.Set(k, v)
		}
	}
	resp, err := p.HC.Do(req)
	return resp, x, err
}

// Post posts a raw JSON-RPC message.
func (p *Peer) Post(sid string, msg string) *Reply {
	return p.Do(http.MethodPost, p.URL, sid, []byte(msg), nil)
}

// InitBody is a well-formed initialize request.
func InitBody(id interface{}, version string) string {
	idb, _ := json.Marshal(id)
	return fmt.Sprintf(`{"jsonrpc":"2.0","id":%s,"method":"initialize","params":{"protocolVersion":%q,"capabilities":{},"clientInfo":{"name":"refpeer","version":"0"}}}`, idb, version)
}

// Handshake performs initialize + notifications/initialized and returns the session id.
func (p *Peer) Handshake() (string, error) {
	r := p.Post("", InitBody(1, "2025-03-26"))
	if r.Err != nil {
		return "", r.Err
	}
	if r.Status != 200 {
		return "", fmt.Errorf("initialize: status %d body %q", r.Status, r.Body)
	}
	sid := r.SessionID()
	r2 := p.Post(sid, `{"jsonrpc":"2.0","method":"notifications/initialized"}`)
	if r2.Err != nil {
		return "", r2.Err
	}
	if r2.Status != 202 {
		return sid, fmt.Errorf("initialized: status %d body %q", r2.Status, r2.Body)
	}
	return sid, nil
}

// DataFrames returns the data payloads of all dispatched SSE events in b.
func DataFrames(b []byte) []string {
	evs, _, _ := ParseSSE(b)
	out := make([]string, 0, len(evs))
	for _, e := range evs {
		out = append(out, e.Data)
	}
	return out
}

// JSONGet walks a decoded JSON value along keys.
func JSONGet(v interface{}, path ...string) interface{} {
	for _, k := range path {
		m, ok := v.(map[string]interface{})
		if !ok {
			return nil
		}
		v = m[k]
	}
	return v
}

// Decode decodes JSON into an interface value with json.Number numbers.
func Decode(b []byte) (interface{}, error) {
	dec := json.NewDecoder(bytes.NewReader(b))
	dec.UseNumber()
	var v interface{}
	err := dec.Decode(&v)
	return v, err
}

// SessionCtx builds the context a server-side caller uses to address a session (what a
// notification handler receives): the client session is looked up through a handler round trip.
func SessionCtx(srv *mcp.Server, sid string) context.Context {
	return mcp.VerifSessionContext(srv, sid)
}

type reqProbe struct {
	x      *memnet.Exchange
	method string
}

//go:norace
func (p reqProbe) Ready() bool { return findRequestID(p.x, p.method) != "" || p.x.HandlerDone }

//go:norace
func findRequestID(x *memnet.Exchange, method string) string {
	for _, f := range DataFrames(x.Delivered()) {
		var m map[string]json.RawMessage
		if json.Unmarshal([]byte(f), &m) != nil {
			continue
		}
		var meth string
		json.Unmarshal(m["method"], &meth)
		if meth == method && len(m["id"]) > 0 {
			return string(m["id"])
		}
	}
	return ""
}

// AwaitRequestID blocks until a JSON-RPC request with the given method has been delivered on the
// stream of x and returns its raw id ("" if the stream ended first).
func AwaitRequestID(x *memnet.Exchange, method string) string {
	if x == nil {
		return ""
	}
	vsched.BlockObj("await server request "+method, reqProbe{x, method}, x.ObjID(), false)
	return findRequestID(x, method)
}

// ---- routing of the library's default http.Client (it has no option to replace it) ----

var currentFabric *memnet.Fabric

// InstallFabric makes f the target of http.DefaultTransport for the current execution.
//
//go:norace
func InstallFabric(f *memnet.Fabric) { currentFabric = f }

type router struct{}

//go:norace
func (router) RoundTrip(req *http.Request) (*http.Response, error) {
	f := currentFabric
	if f == nil {
		return nil, fmt.Errorf("hx: no fabric installed (request to %s)", req.URL)
	}
	return f.RoundTrip(req)
}

func init() { http.DefaultTransport = router{} }
