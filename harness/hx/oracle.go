package hx

import (
	"bufio"
	"encoding/json"
	"fmt"
	"os"
	"os/exec"
	"path/filepath"
	"sync"
)

// Frame is one server-emitted message handed to the independent python oracle.
type Frame struct {
	Raw    string          `json:"raw"`
	Kind   string          `json:"kind"`             // response | notification | request | any
	Method string          `json:"method,omitempty"` // method of the request this frame answers
	ReqID  json.RawMessage `json:"reqid,omitempty"`  // raw id of that request (omit when undeterminable)
}

// Verdict of the oracle for one frame.
type Verdict struct {
	OK      bool     `json:"ok"`
	Errors  []string `json:"errors"`
	Class   string   `json:"class"`
	Code    *int     `json:"code"`
	Message string   `json:"message"`
}

type pyproc struct {
	cmd *exec.Cmd
	in  *bufio.Writer
	out *bufio.Reader
	mu  sync.Mutex
}

var procs = map[string]*pyproc{}
var procsMu sync.Mutex

// VerifDir is the root of the verification tree (scripts and specs are resolved against it).
var VerifDir = "/verif"

func init() {
	if d := os.Getenv("VERIF_DIR"); d != "" {
		VerifDir = d // worker processes of a check started from a snapshot of /verif
	}
}

func getProc(script string) (*pyproc, error) {
	procsMu.Lock()
	defer procsMu.Unlock()
	if p := procs[script]; p != nil {
		return p, nil
	}
	cmd := exec.Command("python3-vt", filepath.Join(VerifDir, "oracle", script))
	cmd.Stderr = os.Stderr
	in, err := cmd.StdinPipe()
	if err != nil {
		return nil, err
	}
	out, err := cmd.StdoutPipe()
	if err != nil {
		return nil, err
	}
	if err := cmd.Start(); err != nil {
		return nil, err
	}
	p := &pyproc{cmd: cmd, in: bufio.NewWriterSize(in, 1<<20), out: bufio.NewReaderSize(out, 1<<20)}
	procs[script] = p
	return p, nil
}

// PyCall sends one JSON line to a long-lived python helper and decodes its one-line answer.
// Any failure is an error (the caller reports harness-broken; it never passes silently).
func PyCall(script string, req interface{}, resp interface{}) error {
	p, err := getProc(script)
	if err != nil {
		return fmt.Errorf("python helper %s: %w", script, err)
	}
	p.mu.Lock()
	defer p.mu.Unlock()
	b, err := json.Marshal(req)
	if err != nil {
		return err
	}
	p.in.Write(b)
	p.in.WriteByte('\n')
	if err := p.in.Flush(); err != nil {
		return fmt.Errorf("python helper %s died: %w", script, err)
	}
	line, err := p.out.ReadBytes('\n')
	if err != nil {
		return fmt.Errorf("python helper %s died: %w", script, err)
	}
	var fatal struct {
		Fatal string `json:"fatal"`
	}
	json.Unmarshal(line, &fatal)
	if fatal.Fatal != "" {
		return fmt.Errorf("python helper %s: %s", script, fatal.Fatal)
	}
	return json.Unmarshal(line, resp)
}

// ValidateFrames asks the MCP schema oracle about frames.
func ValidateFrames(frames []Frame) ([]Verdict, error) {
	if len(frames) == 0 {
		return nil, nil
	}
	var out struct {
		Results []Verdict `json:"results"`
	}
	if err := PyCall("mcp_validate.py", map[string]interface{}{"frames": frames}, &out); err != nil {
		return nil, err
	}
	if len(out.Results) != len(frames) {
		return nil, fmt.Errorf("oracle answered %d results for %d frames", len(out.Results), len(frames))
	}
	return out.Results, nil
}
