// conform runs one fixed script of HTTP exchanges against the library's servers, either over the
// real net/http stack (httptest server, real TCP; built with -tags verif but WITHOUT the
// instrumentation overlay) or over memnet (instrumented build, inside the controlled scheduler),
// and prints one normalised line per step. bin/conformance.sh diffs the two outputs: memnet is the
// environment model every HTTP check relies on, and this is its conformance run against net/http.
package main

import (
	"bufio"
	"context"
	"encoding/json"
	"flag"
	"fmt"
	"io"
	"net/http"
	"net/http/httptest"
	"regexp"
	"sort"
	"strings"
	"time"

	mcp "trpc.group/trpc-go/trpc-mcp-go"
	"verif.local/engine/memnet"
	"verif.local/engine/vsched"
	"verif.local/harness/hx"
)

type env interface {
	peer(path string) *hx.Peer
	settle()                                                        // let the servers finish what they are doing
	frames(resp *http.Response, x *memnet.Exchange, n int) []string // the next n SSE data payloads of an open stream ("<eof>" when it ended)
}

// ---- real ----

type realEnv struct{ ts *httptest.Server }

func (e *realEnv) peer(path string) *hx.Peer {
	return &hx.Peer{URL: e.ts.URL + path, HC: e.ts.Client(), Headers: map[string]string{}}
}
func (e *realEnv) settle() { time.Sleep(50 * time.Millisecond) }

var readers = map[*http.Response]*bufio.Reader{}

func (e *realEnv) frames(resp *http.Response, _ *memnet.Exchange, n int) []string {
	br := readers[resp]
	if br == nil {
		br = bufio.NewReader(resp.Body)
		readers[resp] = br
	}
	var out []string
	type res struct {
		s   string
		err error
	}
	for len(out) < n {
		ch := make(chan res, 1)
		go func() {
			var data []string
			for {
				line, err := br.ReadString('\n')
				if err != nil {
					ch <- res{"", err}
					return
				}
				line = strings.TrimRight(line, "\r\n")
				if line == "" {
					if len(data) > 0 {
						ch <- res{strings.Join(data, "\n"), nil}
						return
					}
					continue
				}
				if strings.HasPrefix(line, "data:") {
					data = append(data, strings.TrimPrefix(strings.TrimPrefix(line, "data:"), " "))
				}
			}
		}()
		select {
		case r := <-ch:
			if r.err != nil {
				return append(out, "<eof>")
			}
			out = append(out, r.s)
		case <-time.After(2 * time.Second):
			return append(out, "<nothing within 2s>")
		}
	}
	return out
}

// ---- memnet ----

type memEnv struct {
	fab  *memnet.Fabric
	seen map[*memnet.Exchange]int
}

func (e *memEnv) peer(path string) *hx.Peer { return hx.NewPeer(e.fab, "http://srv"+path) }
func (e *memEnv) settle()                   { vsched.Quiesce() }
func (e *memEnv) frames(_ *http.Response, x *memnet.Exchange, n int) []string {
	vsched.Quiesce()
	all := hx.DataFrames(x.Delivered())
	k := e.seen[x]
	var out []string
	for len(out) < n {
		if k < len(all) {
			out = append(out, all[k])
			k++
			continue
		}
		if x.HandlerDone {
			out = append(out, "<eof>")
		} else {
			out = append(out, "<nothing within 2s>")
		}
		break
	}
	e.seen[x] = k
	return out
}

// ---- script ----

var (
	hexID = regexp.MustCompile(`[0-9a-f]{32}`)
	evtID = regexp.MustCompile(`evt-[0-9]+-[0-9]+`)
	ts    = regexp.MustCompile(`"[0-9]{4}-[0-9]{2}-[0-9]{2}T[^"]*"`)
)

func norm(s string) string {
	s = hexID.ReplaceAllString(s, "<sid>")
	s = evtID.ReplaceAllString(s, "<evt>")
	s = ts.ReplaceAllString(s, `"<time>"`)
	return s
}

func canonBody(ct string, b []byte) string {
	switch {
	case strings.Contains(ct, "text/event-stream"):
		var out []string
		for _, d := range hx.DataFrames(b) {
			out = append(out, hx.Canon([]byte(d)))
		}
		return "sse" + fmt.Sprint(out)
	case strings.Contains(ct, "application/json"):
		return "json " + hx.Canon(b)
	}
	return "text " + strings.TrimSpace(string(b))
}

func show(step string, r *hx.Reply) {
	if r.Err != nil {
		fmt.Printf("%-34s error %v\n", step, r.Err != nil)
		return
	}
	ct := r.Header.Get("Content-Type")
	if i := strings.Index(ct, ";"); i >= 0 {
		ct = ct[:i]
	}
	var hs []string
	for _, h := range []string{"Mcp-Session-Id", "Allow", "Cache-Control"} {
		if v := r.Header.Get(h); v != "" {
			hs = append(hs, h+"="+v)
		}
	}
	sort.Strings(hs)
	fmt.Printf("%-34s %d ct=%q %v %s\n", step, r.Status, ct, norm(fmt.Sprint(hs)), norm(canonBody(ct, r.Body)))
}

func tools(reg func(*mcp.Tool, func(context.Context, *mcp.CallToolRequest) (*mcp.CallToolResult, error))) {
	reg(mcp.NewTool("echo", mcp.WithString("v")), func(ctx context.Context, req *mcp.CallToolRequest) (*mcp.CallToolResult, error) {
		v, _ := req.Params.Arguments["v"].(string)
		return mcp.NewTextResult("echo:" + v), nil
	})
}

func script(mk func(h http.Handler) env) {
	for _, cfg := range []struct {
		name string
		opts []mcp.ServerOption
	}{
		{"stateful-sse", nil},
		{"stateful-json", []mcp.ServerOption{mcp.WithPostSSEEnabled(false)}},
		{"stateless", []mcp.ServerOption{mcp.WithStatelessMode(true)}},
		{"no-get", []mcp.ServerOption{mcp.WithGetSSEEnabled(false)}},
	} {
		srv := mcp.NewServer("conf", "1", append([]mcp.ServerOption{mcp.WithServerLogger(hx.Nop{})}, cfg.opts...)...)
		tools(func(t *mcp.Tool, h func(context.Context, *mcp.CallToolRequest) (*mcp.CallToolResult, error)) {
			srv.RegisterTool(t, h)
		})
		e := mk(srv.Handler())
		p := e.peer("/mcp")
		st := func(s string) string { return cfg.name + "/" + s }
		r := p.Post("", hx.InitBody(1, "2025-03-26"))
		show(st("initialize"), r)
		sid := r.SessionID()
		show(st("initialized"), p.Post(sid, `{"jsonrpc":"2.0","method":"notifications/initialized"}`))
		show(st("ping"), p.Post(sid, `{"jsonrpc":"2.0","id":2,"method":"ping"}`))
		show(st("tools/call"), p.Post(sid, `{"jsonrpc":"2.0","id":"c","method":"tools/call","params":{"name":"echo","arguments":{"v":"a\nb é"}}}`))
		show(st("unknown-method"), p.Post(sid, `{"jsonrpc":"2.0","id":3,"method":"no/such"}`))
		show(st("ping-without-session"), p.Post("", `{"jsonrpc":"2.0","id":4,"method":"ping"}`))
		show(st("ping-unknown-session"), p.Post("00112233445566778899aabbccddeeff", `{"jsonrpc":"2.0","id":5,"method":"ping"}`))
		show(st("unparsable"), p.Do(http.MethodPost, p.URL, sid, []byte(`{"jsonrpc":`), nil))
		show(st("accept-json-only"), p.Do(http.MethodPost, p.URL, sid, []byte(`{"jsonrpc":"2.0","id":6,"method":"ping"}`), map[string]string{"Accept": "application/json"}))
		show(st("wrong-path"), e.peer("/other").Post(sid, `{"jsonrpc":"2.0","id":7,"method":"ping"}`))
		show(st("put"), p.Do(http.MethodPut, p.URL, sid, []byte(`{}`), nil))
		show(st("get-unknown-session"), p.Do(http.MethodGet, p.URL, "00112233445566778899aabbccddeeff", nil, nil))
		resp, x, err := p.Open(context.Background(), http.MethodGet, p.URL, sid, nil, nil)
		if err != nil {
			fmt.Printf("%-34s error\n", st("get-stream"))
		} else {
			ct := resp.Header.Get("Content-Type")
			fmt.Printf("%-34s %d ct=%q sid=%v\n", st("get-stream"), resp.StatusCode, ct, resp.Header.Get("Mcp-Session-Id") != "")
			if resp.StatusCode == 200 {
				e.settle()
				err := srv.SendNotification(sid, "notifications/message", map[string]interface{}{"level": "info", "data": "x\ny"})
				fmt.Printf("%-34s err=%v %s\n", st("send-notification"), err != nil, norm(fmt.Sprint(e.frames(resp, x, 1))))
				show(st("delete"), p.Do(http.MethodDelete, p.URL, sid, nil, nil))
				fmt.Printf("%-34s %s\n", st("stream-after-delete"), norm(fmt.Sprint(e.frames(resp, x, 1))))
				show(st("ping-after-delete"), p.Post(sid, `{"jsonrpc":"2.0","id":8,"method":"ping"}`))
			} else {
				b, _ := io.ReadAll(resp.Body)
				fmt.Printf("%-34s %s\n", st("get-refused-body"), strings.TrimSpace(string(b)))
				show(st("delete"), p.Do(http.MethodDelete, p.URL, sid, nil, nil))
			}
			resp.Body.Close()
		}
		show(st("delete-unknown"), p.Do(http.MethodDelete, p.URL, "00112233445566778899aabbccddeeff", nil, nil))
		e.settle()
	}
	// legacy SSE
	ls := mcp.NewSSEServer("conf", "1", mcp.WithSSEServerLogger(hx.Nop{}))
	tools(func(t *mcp.Tool, h func(context.Context, *mcp.CallToolRequest) (*mcp.CallToolResult, error)) {
		ls.RegisterTool(t, h)
	})
	e := mk(ls)
	p := e.peer("/sse")
	resp, x, err := p.Open(context.Background(), http.MethodGet, p.URL, "", nil, nil)
	if err != nil {
		fmt.Println("legacy/connect error")
		return
	}
	fmt.Printf("%-34s %d ct=%q\n", "legacy/connect", resp.StatusCode, resp.Header.Get("Content-Type"))
	ep := e.frames(resp, x, 1)
	fmt.Printf("%-34s %s\n", "legacy/endpoint-event", regexp.MustCompile(`sessionId=[^"\]]+`).ReplaceAllString(fmt.Sprint(ep), "sessionId=<id>"))
	endpoint := ""
	if len(ep) > 0 {
		endpoint = ep[0]
	}
	mp := e.peer(endpoint)
	show("legacy/initialize-post", mp.Post("", hx.InitBody(1, "2024-11-05")))
	fmt.Printf("%-34s %s\n", "legacy/initialize-answer", norm(fmt.Sprint(canonAll(e.frames(resp, x, 1)))))
	show("legacy/initialized", mp.Post("", `{"jsonrpc":"2.0","method":"notifications/initialized"}`))
	show("legacy/tools-call-post", mp.Post("", `{"jsonrpc":"2.0","id":2,"method":"tools/call","params":{"name":"echo","arguments":{"v":"q"}}}`))
	fmt.Printf("%-34s %s\n", "legacy/tools-call-answer", norm(fmt.Sprint(canonAll(e.frames(resp, x, 1)))))
	show("legacy/unknown-session", e.peer("/message?sessionId=nope").Post("", `{"jsonrpc":"2.0","id":3,"method":"ping"}`))
	show("legacy/no-session", e.peer("/message").Post("", `{"jsonrpc":"2.0","id":3,"method":"ping"}`))
	show("legacy/get-message", mp.Do(http.MethodGet, mp.URL, "", nil, nil))
	show("legacy/unparsable", mp.Do(http.MethodPost, mp.URL, "", []byte(`{"x"`), nil))
	show("legacy/wrong-path", e.peer("/nowhere").Post("", `{}`))
	resp.Body.Close()
	e.settle()
}

func canonAll(fs []string) []string {
	var out []string
	for _, f := range fs {
		if strings.HasPrefix(f, "<") {
			out = append(out, f)
		} else {
			out = append(out, hx.Canon([]byte(f)))
		}
	}
	return out
}

func main() {
	mode := flag.String("mode", "real", "real | memnet")
	flag.Parse()
	_ = json.Marshal
	if *mode == "real" {
		var servers []*httptest.Server
		script(func(h http.Handler) env {
			s := httptest.NewServer(h)
			servers = append(servers, s)
			return &realEnv{s}
		})
		for _, s := range servers {
			s.CloseClientConnections()
			s.Close()
		}
		return
	}
	res := vsched.Run(vsched.Config{MaxSteps: 2000000}, func() {
		script(func(h http.Handler) env {
			return &memEnv{fab: memnet.NewFabric("srv", h), seen: map[*memnet.Exchange]int{}}
		})
	})
	for _, p := range res.Panics {
		fmt.Println("PANIC", p.Value)
	}
	if res.Deadlock {
		fmt.Println("DEADLOCK", res.Blocked)
	}
}
