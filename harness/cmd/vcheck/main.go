// Command vcheck runs the model-checking harness of one property.
package main

import (
	"flag"
	"fmt"
	"os"
	"time"
	"verif.local/harness/hx"

	"verif.local/harness/props"
)

func main() {
	prop := flag.String("prop", "", "property id")
	tier := flag.String("tier", "quick", "quick|thorough")
	worker := flag.Bool("worker", false, "serve exploration requests on stdin")
	replay := flag.String("replay", "", "replay a stored violation")
	dir := flag.String("verif", "/verif", "verif directory")
	budget := flag.Duration("budget", 0, "exploration time budget")
	scen := flag.String("scenario", "", "explore a single scenario (debug)")
	enum := flag.String("enum", "", "run a single enumeration (debug)")
	pb := flag.Int("p", 1, "preemption bound for -scenario")
	db := flag.Int("d", 1, "deviation bound for -scenario")
	por := flag.Bool("por", false, "sleep sets for -scenario")
	flag.Parse()
	if !*worker {
		os.Setenv("VERIF_DIR", *dir) // inherited by the worker processes
		hx.VerifDir = *dir
	}
	if *enum != "" {
		self, _ := os.Executable()
		props.DebugEnum(*enum, *tier, self)
		return
	}
	if *scen != "" {
		self, _ := os.Executable()
		props.DebugScenario(*scen, *pb, *db, self, *por)
		return
	}
	if *worker {
		props.WorkerLoop()
		return
	}
	if *replay != "" {
		os.Exit(props.Replay(*replay))
	}
	if t := os.Getenv("VERIF_TIER"); t == "quick" || t == "thorough" {
		*tier = t
	}
	seed := 0
	fmt.Sscanf(os.Getenv("VERIF_SEED"), "%d", &seed)
	if *budget == 0 {
		*budget = 4 * time.Minute
		if *tier == "thorough" {
			*budget = 40 * time.Minute
		}
	}
	self, _ := os.Executable()
	os.Exit(props.Main(*prop, *tier, seed, *dir, self, *budget))
}
