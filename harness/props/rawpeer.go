package props

import (
	"context"
	"encoding/json"
	"fmt"
	"net/http"
	"net/url"
	"strings"

	"verif.local/engine/memnet"
	"verif.local/engine/vsched"
	"verif.local/harness/hx"
)

// RawPeer is the reference client for every transport: it writes raw JSON text and reads raw
// frames (HTTP bodies, WHATWG-parsed SSE events, stdio lines). It shares no code with the library.
type RawPeer struct {
	R        *Rig
	P        *hx.Peer
	SID      string
	Stream   *memnet.Exchange // legacy SSE stream / Streamable GET stream
	Endpoint string
	Last     *hx.Reply
}

func NewRawPeer(r *Rig) *RawPeer {
	rp := &RawPeer{R: r}
	if r.Fab != nil {
		rp.P = hx.NewPeer(r.Fab, r.URL)
	} else {
		r.S2C.Cap = 1 << 30 // nobody drains it; observations are taken from the recorded stream
	}
	return rp
}

type framesProbe struct {
	rp   *RawPeer
	pred func(frame string) bool
}

//go:norace
func (p framesProbe) Ready() bool {
	for _, f := range p.rp.StreamFrames() {
		if p.pred(f) {
			return true
		}
	}
	return p.rp.streamEnded()
}

func (rp *RawPeer) streamEnded() bool {
	if rp.R.Fab == nil {
		return rp.R.S2C.WriteClosed()
	}
	return rp.Stream != nil && rp.Stream.HandlerDone
}

// StreamFrames returns the frames seen so far on the background stream (legacy SSE stream, the
// Streamable GET stream, or stdout).
func (rp *RawPeer) StreamFrames() []string {
	if rp.R.Fab == nil {
		var out []string
		s := string(rp.R.S2C.Stream())
		parts := strings.Split(s, "\n")
		for i, ln := range parts {
			if i == len(parts)-1 {
				break // unterminated residue
			}
			out = append(out, ln)
		}
		return out
	}
	if rp.Stream == nil {
		return nil
	}
	evs, _, _ := hx.ParseSSE(rp.Stream.Delivered())
	var out []string
	for _, e := range evs {
		if e.Event == "endpoint" {
			continue
		}
		out = append(out, e.Data)
	}
	return out
}

// Await blocks until a frame satisfying pred is on the background stream.
func (rp *RawPeer) Await(what string, pred func(string) bool) (string, bool) {
	obj := uintptr(0)
	if rp.R.Fab == nil {
		obj = rp.R.S2C.ObjID()
	} else if rp.Stream != nil {
		obj = rp.Stream.ObjID()
	}
	vsched.BlockObj("rawpeer await "+what, framesProbe{rp, pred}, obj, false)
	for _, f := range rp.StreamFrames() {
		if pred(f) {
			return f, true
		}
	}
	return "", false
}

func frameHasID(id string) func(string) bool {
	want := hx.Canon([]byte(id))
	return func(f string) bool {
		var m struct {
			ID     json.RawMessage `json:"id"`
			Method string          `json:"method"`
		}
		if json.Unmarshal([]byte(f), &m) != nil || len(m.ID) == 0 || m.Method != "" {
			return false
		}
		return hx.Canon(m.ID) == want
	}
}

// Handshake connects (legacy SSE: opens the stream and reads the endpoint event) and performs
// initialize / notifications/initialized.
func (rp *RawPeer) Handshake() error {
	if rp.R.Mode == "ls" {
		if err := rp.OpenStream(); err != nil {
			return err
		}
	}
	ans, err := rp.Call(hx.InitBody("init-0", "2025-03-26"), `"init-0"`)
	if err != nil {
		return fmt.Errorf("initialize: %w", err)
	}
	if !strings.Contains(ans, `"protocolVersion"`) {
		return fmt.Errorf("initialize answered %s", truncate(ans, 200))
	}
	return rp.Notify(`{"jsonrpc":"2.0","method":"notifications/initialized"}`)
}

// OpenStream opens the legacy SSE stream (or the Streamable GET stream).
func (rp *RawPeer) OpenStream() error {
	_, x, err := rp.P.Open(context.Background(), http.MethodGet, rp.R.URL, rp.SID, nil, nil)
	if err != nil {
		return err
	}
	if x.Status != 200 {
		return fmt.Errorf("stream: status %d", x.Status)
	}
	rp.Stream = x
	if rp.R.Mode == "ls" {
		evs, _, _ := hx.ParseSSE(x.Delivered())
		for _, e := range evs {
			if e.Event == "endpoint" {
				u, err := url.Parse(e.Data)
				if err != nil {
					return err
				}
				base, _ := url.Parse(rp.R.URL)
				rp.Endpoint = base.ResolveReference(u).String()
			}
		}
		if rp.Endpoint == "" {
			return fmt.Errorf("no endpoint event on the stream: %q", x.Delivered())
		}
	}
	return nil
}

// PostOnly sends one message without waiting for a JSON-RPC answer; it returns the HTTP reply.
func (rp *RawPeer) PostOnly(msg string) *hx.Reply {
	switch {
	case rp.R.Fab == nil:
		rp.R.C2S.Write([]byte(msg + "\n"))
		return &hx.Reply{Status: 0}
	case rp.R.Mode == "ls":
		rp.Last = rp.P.Do(http.MethodPost, rp.Endpoint, "", []byte(msg), nil)
	default:
		rp.Last = rp.P.Do(http.MethodPost, rp.R.URL, rp.SID, []byte(msg), nil)
		if sid := rp.Last.SessionID(); sid != "" && rp.SID == "" {
			rp.SID = sid
		}
	}
	return rp.Last
}

// Notify sends a notification.
func (rp *RawPeer) Notify(msg string) error {
	r := rp.PostOnly(msg)
	if r.Err != nil {
		return r.Err
	}
	if rp.R.Fab != nil && r.Status != 202 {
		return fmt.Errorf("notification: status %d body %q", r.Status, truncate(string(r.Body), 100))
	}
	return nil
}

// Call sends a request and returns the raw JSON text of the response frame that carries id.
func (rp *RawPeer) Call(msg string, id string) (string, error) {
	r := rp.PostOnly(msg)
	if r.Err != nil {
		return "", r.Err
	}
	switch {
	case rp.R.Fab == nil, rp.R.Mode == "ls":
		if rp.R.Mode == "ls" && r.Status != 202 {
			return "", fmt.Errorf("POST status %d body %q", r.Status, truncate(string(r.Body), 100))
		}
		f, ok := rp.Await("response "+id, frameHasID(id))
		if !ok {
			return "", fmt.Errorf("stream ended without a response for id %s", id)
		}
		return f, nil
	default:
		frames, err := ReplyFrames(r)
		if err != nil {
			return "", err
		}
		pred := frameHasID(id)
		for _, f := range frames {
			if pred(f) {
				return f, nil
			}
		}
		return "", fmt.Errorf("status %d, no response frame with id %s among %d frame(s): %s", r.Status, id, len(frames), truncate(string(r.Body), 160))
	}
}

// ReplyFrames splits an HTTP reply into JSON-RPC frames (one JSON body, or the SSE events).
func ReplyFrames(r *hx.Reply) ([]string, error) {
	ct := r.Header.Get("Content-Type")
	if strings.Contains(ct, "text/event-stream") {
		return hx.DataFrames(r.Body), nil
	}
	if len(r.Body) == 0 {
		return nil, nil
	}
	return []string{strings.TrimSpace(string(r.Body))}, nil
}

// Reaction is everything a server emitted in reaction to one input.
type Reaction struct {
	Status      int
	ContentType string
	Header      http.Header
	Body        []byte   // HTTP body (Streamable, legacy POST)
	Frames      []string // JSON-RPC frames: JSON body / SSE events / new stream events / new stdout lines
	Err         error
}

// React sends raw input (an HTTP request for HTTP transports, a line for stdio), lets the system
// run to quiescence and collects what the server wrote.
func (rp *RawPeer) React(method, url string, body []byte, hdr map[string]string) *Reaction {
	before := len(rp.StreamFrames())
	re := &Reaction{}
	if rp.R.Fab == nil {
		rp.R.C2S.Write(body)
		vsched.Quiesce()
		fr := rp.StreamFrames()
		re.Frames = append(re.Frames, fr[before:]...)
		return re
	}
	if url == "" {
		url = rp.R.URL
		if rp.R.Mode == "ls" {
			url = rp.Endpoint
		}
	}
	sid := rp.SID
	r := rp.P.Do(method, url, sid, body, hdr)
	re.Err = r.Err
	re.Status = r.Status
	re.Header = r.Header
	re.Body = r.Body
	if r.Header != nil {
		re.ContentType = r.Header.Get("Content-Type")
	}
	if r.Err == nil && r.Status >= 200 && r.Status < 300 {
		fr, _ := ReplyFrames(r)
		re.Frames = append(re.Frames, fr...)
	}
	if rp.R.Mode == "ls" {
		vsched.Quiesce()
		fr := rp.StreamFrames()
		if len(fr) > before {
			re.Frames = append(re.Frames, fr[before:]...)
		}
	}
	return re
}

// Send is React for a JSON-RPC message on the transport's normal path.
func (rp *RawPeer) Send(msg string) *Reaction {
	if rp.R.Fab == nil {
		return rp.React("", "", []byte(msg+"\n"), nil)
	}
	return rp.React(http.MethodPost, "", []byte(msg), nil)
}
