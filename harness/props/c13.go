package props

import (
	"context"
	"encoding/json"
	"fmt"
	"net/http"
	"strings"

	mcp "trpc.group/trpc-go/trpc-mcp-go"
	"verif.local/engine/explore"
	"verif.local/engine/vsched"
	"verif.local/harness/hx"
)

// C13 — request-scoped context never bleeds between concurrent requests.

type c13k1 struct{}
type c13k2 struct{}

func c13f1(ctx context.Context, r *http.Request) context.Context {
	return context.WithValue(ctx, c13k1{}, r.Header.Get("X-Tok"))
}

// f2 depends on f1's effect: registration order is observable.
func c13f2(ctx context.Context, r *http.Request) context.Context {
	v, _ := ctx.Value(c13k1{}).(string)
	return context.WithValue(ctx, c13k2{}, v+"/2")
}

func c13Both(ctx context.Context, r *http.Request) context.Context { return c13f2(c13f1(ctx, r), r) }

func c13Echo(ctx context.Context, srvWant interface{}) string {
	k1, _ := ctx.Value(c13k1{}).(string)
	k2, _ := ctx.Value(c13k2{}).(string)
	sid := ""
	if s, ok := mcp.GetSessionFromContext(ctx); ok && s != nil {
		sid = s.GetID()
	}
	sdata := "-"
	if s, ok := mcp.GetSessionFromContext(ctx); ok && s != nil {
		if v, ok := s.GetData("c13-tok"); ok {
			sdata, _ = v.(string)
		}
	}
	_, hasSender := mcp.GetNotificationSender(ctx)
	srvOK := mcp.GetServerFromContext(ctx) == srvWant
	b, _ := json.Marshal(map[string]interface{}{"k1": k1, "k2": k2, "sid": sid, "sender": hasSender, "server": srvOK, "sdata": sdata})
	return string(b)
}

func c13Visible(ctx context.Context) bool {
	k1, _ := ctx.Value(c13k1{}).(string)
	return k1 == "admin"
}

func c13Rig(mode string, trace *hx.Log) *Rig { return c13RigMask(mode, trace, 7) }

// c13RigMask configures the tool / prompt / resource list filter iff bit 0 / 1 / 2 of mask is set.
func c13RigMask(mode string, trace *hx.Log, mask int) *Rig {
	toolF := func(ctx context.Context, tools []*mcp.Tool) []*mcp.Tool {
		if k1, _ := ctx.Value(c13k1{}).(string); k1 == "nobody" {
			var none []*mcp.Tool // a caller admitted to nothing: the usual "var out; append; return out" yields nil
			return none
		}
		out := tools[:0] // filters in place: the list handed to a filter belongs to this request
		for _, t := range tools {
			if t.Name != "secret" || c13Visible(ctx) {
				out = append(out, t)
			}
		}
		return out
	}
	promptF := func(ctx context.Context, ps []*mcp.Prompt) []*mcp.Prompt {
		if k1, _ := ctx.Value(c13k1{}).(string); k1 == "nobody" {
			var none []*mcp.Prompt // a caller admitted to nothing: the usual "var out; append; return out" yields nil
			return none
		}
		out := ps[:0] // filters in place: the list handed to a filter belongs to this request
		for _, t := range ps {
			if t.Name != "secret" || c13Visible(ctx) {
				out = append(out, t)
			}
		}
		return out
	}
	resF := func(ctx context.Context, rs []*mcp.Resource) []*mcp.Resource {
		if k1, _ := ctx.Value(c13k1{}).(string); k1 == "nobody" {
			var none []*mcp.Resource // a caller admitted to nothing: the usual "var out; append; return out" yields nil
			return none
		}
		out := rs[:0] // filters in place: the list handed to a filter belongs to this request
		for _, t := range rs {
			if t.Name != "secret" || c13Visible(ctx) {
				out = append(out, t)
			}
		}
		return out
	}
	mw := func(next mcp.HandlerFunc) mcp.HandlerFunc {
		return func(ctx context.Context, req *mcp.JSONRPCRequest) (mcp.JSONRPCMessage, error) {
			k1, _ := ctx.Value(c13k1{}).(string)
			trace.Add("mw %v %s", req.ID, k1)
			// the middleware leaves a note on the session of *this* request; the handler reads it back
			if s, ok := mcp.GetSessionFromContext(ctx); ok && s != nil {
				s.SetData("c13-tok", k1)
			}
			return next(ctx, req)
		}
	}
	var r *Rig
	if mode == "ls" {
		opts := []interface{}{mcp.WithSSEContextFunc(c13Both), mcp.WithSSEMiddleware(mw)}
		if mask&1 != 0 {
			opts = append(opts, mcp.WithSSEToolListFilter(toolF))
		}
		if mask&2 != 0 {
			opts = append(opts, mcp.WithSSEPromptListFilter(promptF))
		}
		if mask&4 != 0 {
			opts = append(opts, mcp.WithSSEResourceListFilter(resF))
		}
		r = NewRig(mode, opts...)
	} else {
		opts := []interface{}{mcp.WithHTTPContextFunc(c13f1), mcp.WithHTTPContextFunc(c13f2), mcp.WithMiddleware(mw)}
		if mask&1 != 0 {
			opts = append(opts, mcp.WithToolListFilter(toolF))
		}
		if mask&2 != 0 {
			opts = append(opts, mcp.WithPromptListFilter(promptF))
		}
		if mask&4 != 0 {
			opts = append(opts, mcp.WithResourceListFilter(resF))
		}
		r = NewRig(mode, opts...)
	}
	var srv interface{} = r.Server
	if r.SSE != nil {
		srv = r.SSE
	}
	for _, name := range []string{"secret", "echo"} { // the hidden entry first: an in-place filter then moves a visible entry over it
		r.RegisterTool(mcp.NewTool(name), func(ctx context.Context, req *mcp.CallToolRequest) (*mcp.CallToolResult, error) {
			return mcp.NewTextResult(c13Echo(ctx, srv)), nil
		})
		r.RegisterPrompt(&mcp.Prompt{Name: name}, func(ctx context.Context, req *mcp.GetPromptRequest) (*mcp.GetPromptResult, error) {
			return &mcp.GetPromptResult{Description: c13Echo(ctx, srv), Messages: []mcp.PromptMessage{}}, nil
		})
		name := name
		r.RegisterResource(&mcp.Resource{Name: name, URI: "res://" + name}, func(ctx context.Context, req *mcp.ReadResourceRequest) (mcp.ResourceContents, error) {
			return mcp.TextResourceContents{URI: "res://" + name, Text: c13Echo(ctx, srv)}, nil
		})
	}
	return r
}

var c13Ops = []string{"tools/list", "tools/call", "prompts/list", "prompts/get", "resources/list", "resources/read"}

func c13Params(op string) string {
	switch op {
	case "tools/call", "prompts/get":
		return `{"name":"echo"}`
	case "resources/read":
		return `{"uri":"res://echo"}`
	}
	return `{}`
}

// c13Judge checks one answer against the token/session of the client that asked.
func c13Judge(mode, op, token, sid, frame string) (string, string) {
	if strings.HasSuffix(op, "/list") {
		hasSecret := strings.Contains(frame, `"secret"`)
		hasEcho := strings.Contains(frame, `"echo"`)
		if !hasEcho {
			return "list-broken", fmt.Sprintf("%s for %s does not list the public entry: %s", op, token, truncate(frame, 160))
		}
		if hasSecret != (token == "admin") {
			return "filter-bleed", fmt.Sprintf("%s asked by %q: secret entry listed=%v", op, token, hasSecret)
		}
		return "", ""
	}
	// the echoed JSON sits in a text/description field: look for its (escaped) fragments
	unesc := strings.ReplaceAll(frame, `\"`, `"`)
	want1 := fmt.Sprintf(`"k1":"%s"`, token)
	want2 := fmt.Sprintf(`"k2":"%s/2"`, token)
	if !strings.Contains(unesc, want1) || !strings.Contains(unesc, want2) {
		return "context-bleed", fmt.Sprintf("%s asked with token %q was processed with context %s", op, token, truncate(unesc, 200))
	}
	if mode != "sl" && sid != "" && !strings.Contains(unesc, fmt.Sprintf(`"sid":"%s"`, sid)) {
		return "session-bleed", fmt.Sprintf("%s asked in session %q was processed with %s", op, sid, truncate(unesc, 200))
	}
	if !strings.Contains(unesc, `"sdata":"-"`) && !strings.Contains(unesc, fmt.Sprintf(`"sdata":"%s"`, token)) {
		return "session-data-bleed", fmt.Sprintf("%s asked with token %q: the handler read from its request's session the note of another request: %s", op, token, truncate(unesc, 240))
	}
	if op == "tools/call" {
		if !strings.Contains(unesc, `"server":true`) {
			return "server-handle", fmt.Sprintf("tool handler did not see its server in the context: %s", truncate(unesc, 200))
		}
		if !strings.Contains(unesc, `"sender":true`) && mode != "ls" {
			return "sender-missing", fmt.Sprintf("tool handler has no notification sender: %s", truncate(unesc, 200))
		}
	}
	return "", ""
}

// c13Subsets: every subset of the three list filters x {admin, guest}: a filter hides the secret
// entry from the guest exactly in the lists whose filter is configured, and from nobody otherwise.
func c13Subsets(tier string, i int) CaseResult {
	modes := []string{"sj", "ss", "sl", "ls"}
	mode := modes[i/8]
	mask := i % 8
	cr := CaseResult{Desc: fmt.Sprintf("mode=%s filters configured: tools=%v prompts=%v resources=%v", mode, mask&1 != 0, mask&2 != 0, mask&4 != 0), Nontrivial: true}
	var viol []explore.Violation
	obs := &hx.Log{}
	res := vsched.Run(vsched.Config{}, func() {
		r := c13RigMask(mode, &hx.Log{}, mask)
		for _, tok := range []string{"nobody", "guest", "admin", "guest", "nobody", "admin"} { // restricted callers first: what they were denied must still be there for the next caller
			p := NewRawPeer(r)
			p.P.Headers["X-Tok"] = tok
			if err := p.Handshake(); err != nil {
				viol = append(viol, V("setup-handshake-fails", "setting the scenario up with well-behaved peers fails: %v", err))
				return
			}
			for k, op := range []string{"tools/list", "prompts/list", "resources/list"} {
				f, err := p.Call(fmt.Sprintf(`{"jsonrpc":"2.0","id":%d,"method":%q,"params":{}}`, 50+k, op), fmt.Sprint(50+k))
				if err != nil {
					viol = append(viol, V("call-fails:"+mode, "%s by %s: %v", op, tok, err))
					continue
				}
				hasSecret := strings.Contains(f, `"secret"`)
				want := tok == "admin" || mask&(1<<k) == 0
				if tok == "nobody" && mask&(1<<k) != 0 {
					// the configured filter admits this caller to nothing at all
					if hasSecret || strings.Contains(f, `"echo"`) {
						viol = append(viol, V(fmt.Sprintf("filter-subset-nobody:%s:%s", mode, op), "%s asked by a caller the filter admits to nothing (it returns a nil list) is answered with entries: %s", op, truncate(f, 160)))
					}
					obs.Add("%s/%s=empty", tok, op)
					continue
				}
				if !strings.Contains(f, `"echo"`) {
					viol = append(viol, V("list-broken:"+mode+":"+op, "%s for %s does not list the public entry: %s", op, tok, truncate(f, 160)))
				} else if hasSecret != want {
					viol = append(viol, V(fmt.Sprintf("filter-subset:%s:%s:configured=%v", mode, op, mask&(1<<k) != 0), "%s asked by %q with filters %03b: secret entry listed=%v, expected %v", op, tok, mask, hasSecret, want))
				}
				obs.Add("%s/%s=%v", tok, op, hasSecret)
			}
		}
	})
	o := finishOutcome(res, obs, viol, true)
	cr.ObsKey = cr.Desc + o.ObsKey
	cr.Violations = o.Violations
	cr.Broken = o.Broken
	return cr
}

// c13Visibility: one request of every kind on every server configuration (incl. sessions
// disabled): the handler sees the values of the context functions in registration order, the
// session of the request (where there is one), the server handle and the notification sender.
func c13Visibility(tier string, i int) CaseResult {
	modes := []string{"sj", "ss", "sl", "sd", "ls"}
	mode := modes[i]
	cr := CaseResult{Desc: "mode=" + mode + ": what handlers see in their context", Nontrivial: true}
	var viol []explore.Violation
	obs := &hx.Log{}
	res := vsched.Run(vsched.Config{}, func() {
		r := c13RigMask(mode, &hx.Log{}, 7)
		p := NewRawPeer(r)
		p.P.Headers["X-Tok"] = "admin"
		if err := p.Handshake(); err != nil {
			viol = append(viol, V("setup-handshake-fails", "setting the scenario up with well-behaved peers fails: %v", err))
			return
		}
		sid := p.SID
		if mode == "ls" {
			sid = "sse-0001"
		}
		for k, op := range []string{"tools/call", "prompts/get", "resources/read"} {
			f, err := p.Call(fmt.Sprintf(`{"jsonrpc":"2.0","id":%d,"method":%q,"params":%s}`, 60+k, op, c13Params(op)), fmt.Sprint(60+k))
			if err != nil {
				viol = append(viol, V("call-fails:"+mode, "%s: %v", op, err))
				continue
			}
			if key, msg := c13Judge(mode, op, "admin", sid, f); key != "" {
				viol = append(viol, V(key+":"+mode+":"+op, "%s", msg))
			}
			obs.Add("%s ok", op)
		}
	})
	o := finishOutcome(res, obs, viol, true)
	cr.ObsKey = cr.Desc + o.ObsKey
	cr.Violations = o.Violations
	cr.Broken = o.Broken
	return cr
}

// c13PerRequest: one client, one session; the headers differ from request to request (a gateway
// that multiplexes users, a rotated credential, a per-request trace id). What a context function
// derives is the value of the request being processed, not of the request that opened the session.
func c13PerRequest(tier string, i int) CaseResult {
	modes := []string{"sj", "ss", "sl", "sd", "ls"}
	mode := modes[i]
	cr := CaseResult{Desc: "mode=" + mode + ": one session whose requests carry different header values", Nontrivial: true}
	var viol []explore.Violation
	obs := &hx.Log{}
	res := vsched.Run(vsched.Config{}, func() {
		trace := &hx.Log{}
		r := c13RigMask(mode, trace, 7)
		p := NewRawPeer(r)
		p.P.Headers["X-Tok"] = "connect"
		if err := p.Handshake(); err != nil {
			viol = append(viol, V("setup-handshake-fails", "setting the scenario up with well-behaved peers fails: %v", err))
			return
		}
		sid := p.SID
		if mode == "ls" {
			sid = "sse-0001"
		}
		n := 0
		for round, toks := range [][]string{{"admin", "guest"}, {"guest", "admin"}} {
			for k, op := range c13Ops {
				tok := toks[k%2]
				p.P.Headers["X-Tok"] = tok
				id := 300 + 10*round + k
				f, err := p.Call(fmt.Sprintf(`{"jsonrpc":"2.0","id":%d,"method":%q,"params":%s}`, id, op, c13Params(op)), fmt.Sprint(id))
				if err != nil {
					viol = append(viol, V("call-fails:"+mode, "%s: %v", op, err))
					continue
				}
				if key, msg := c13Judge(mode, op, tok, sid, f); key != "" {
					viol = append(viol, V("per-request-"+key+":"+mode+":"+op, "the session was opened with X-Tok=connect, this request carries X-Tok=%s: %s", tok, msg))
				}
				n++
			}
		}
		for _, e := range trace.Items() {
			var id int
			var tok string
			fmt.Sscanf(e, "mw %d %s", &id, &tok)
			if id >= 300 {
				want := [][]string{{"admin", "guest"}, {"guest", "admin"}}[(id-300)/10][(id-300)%10%2]
				if tok != want {
					viol = append(viol, V("per-request-middleware-bleed:"+mode, "the middleware processed request %d (sent with X-Tok=%s) with token %q", id, want, tok))
				}
			}
		}
		obs.Add("%d judged", n)
	})
	o := finishOutcome(res, obs, viol, true)
	cr.ObsKey = cr.Desc + o.ObsKey
	cr.Violations = o.Violations
	cr.Broken = o.Broken
	return cr
}

func c13Run(prefix []int, mode string, opsA, opsB []string) explore.Outcome {
	var viol []explore.Violation
	obs := &hx.Log{}
	res := vsched.Run(cfgFor(prefix), func() {
		vsched.SetBranching(false)
		trace := &hx.Log{}
		r := c13Rig(mode, trace)
		peers := []*RawPeer{NewRawPeer(r), NewRawPeer(r)}
		toks := []string{"admin", "guest"}
		for i, p := range peers {
			p.P.Headers["X-Tok"] = toks[i]
			if err := p.Handshake(); err != nil {
				viol = append(viol, V("setup-handshake-fails", "setting the scenario up with well-behaved peers fails: %v", err))
				return
			}
		}
		vsched.Quiesce()
		vsched.SetBranching(true)
		for i, ops := range [][]string{opsA, opsB} {
			i, ops := i, ops
			vsched.Go("client-"+toks[i], func() {
				for j, op := range ops {
					id := 100*(i+1) + j
					f, err := peers[i].Call(fmt.Sprintf(`{"jsonrpc":"2.0","id":%d,"method":%q,"params":%s}`, id, op, c13Params(op)), fmt.Sprint(id))
					if err != nil {
						viol = append(viol, V("call-fails:"+mode, "%s by %s: %v", op, toks[i], err))
						continue
					}
					sid := peers[i].SID
					if mode == "ls" {
						sid = fmt.Sprintf("sse-%04d", i+1)
					}
					if key, msg := c13Judge(mode, op, toks[i], sid, f); key != "" {
						viol = append(viol, V(key+":"+mode+":"+op, "%s", msg))
					}
				}
			})
		}
		vsched.Quiesce()
		// middleware saw each request with the requester's own token
		for _, e := range trace.Items() {
			var id int
			var tok string
			fmt.Sscanf(e, "mw %d %s", &id, &tok)
			if id >= 100 && tok != toks[id/100-1] {
				viol = append(viol, V("middleware-bleed:"+mode, "middleware processed request %d with token %q", id, tok))
			}
		}
		obs.Add("%d mw", len(trace.Items()))
	})
	return finishOutcome(res, obs, viol, true)
}

func init() {
	for _, mode := range []string{"sj", "ss", "sl", "ls"} {
		mode := mode
		for i, a := range c13Ops {
			for j, b := range c13Ops {
				a, b := a, b
				name := fmt.Sprintf("c13/%s/%d-%d", mode, i, j)
				RegisterScenario(&Scenario{Name: name, Run: func(p []int, m []vsched.ChoicePoint) explore.Outcome {
					return c13Run(p, mode, []string{a}, []string{b})
				},
					Doc: fmt.Sprintf("%s: admin client issues %s || guest client issues %s", mode, a, b)})
			}
		}
		RegisterScenario(&Scenario{Name: "c13/" + mode + "/seq", Run: func(p []int, m []vsched.ChoicePoint) explore.Outcome {
			return c13Run(p, mode, []string{"tools/list", "tools/call"}, []string{"tools/call", "tools/list"})
		}, Doc: mode + ": admin [list, call] || guest [call, list]"})
		c20Extra = append(c20Extra, "c13/"+mode+"/seq")
	}
	RegisterEnum(&Enum{Name: "c13/visibility", Doc: "one tools/call, prompts/get and resources/read on each of 5 server configurations (incl. sessions disabled): context-function values in registration order, session, server handle and notification sender are visible to the handler",
		Count: func(string) int { return 5 }, Eval: c13Visibility})
	RegisterEnum(&Enum{Name: "c13/per-request", Doc: "one session on each of 5 server configurations whose successive requests (every list/call/get/read operation, twice) carry alternating header values, all different from the ones of the request that opened the session: context values, list filters and the middleware follow the request being processed",
		Count: func(string) int { return 5 }, Eval: c13PerRequest})
	RegisterEnum(&Enum{Name: "c13/filter-subsets", Doc: "every subset of {tool, prompt, resource} list filters on 4 server modes: the guest misses the secret entry exactly in the lists whose filter is configured",
		Count: func(string) int { return 32 }, Eval: c13Subsets})
	RegisterCheck("C13", func(c *Ctx) {
		c.Level = "exploration"
		c.Enumerate("c13/filter-subsets")
		c.Enumerate("c13/visibility")
		c.Enumerate("c13/per-request")
		c.Rule = "two clients with distinct header tokens (admin/guest) concurrently issue every pair of {tools/list, tools/call, prompts/list, prompts/get, resources/list, resources/read} on Streamable (JSON, SSE, stateless) and legacy SSE servers configured with two order-sensitive HTTP context functions, list filters, a middleware and echoing handlers; DFS (sleep-set reduced) over all schedules within the preemption bound; each answer and each middleware record must carry the requester's own token/session, and a note the middleware leaves on the request's session must be the one the handler of the same request reads back; plus the complete enumeration of the 8 subsets of configured list filters x 4 modes, and of one session whose requests carry alternating header values (per-request evaluation of context functions, filters and middleware)"
		c.Assume = append(c.Assume, "memnet replaces net/http", "sleep-set partial-order reduction (DESIGN 2.8)")
		for _, mode := range []string{"sj", "ss", "sl", "ls"} {
			for i := range c13Ops {
				for j := range c13Ops {
					if c.Quick() && !(j == 1 || i == j) {
						continue // quick: every operation against tools/call and against itself; thorough: all 36 pairs
					}
					c.DFSBoth(fmt.Sprintf("c13/%s/%d-%d", mode, i, j), explore.Bounds{Preempt: c.Pick(2, 3), Dev: 1, MaxExec: c.Pick(2000, 100000)}, 1)
				}
			}
			c.DFSBoth("c13/"+mode+"/seq", explore.Bounds{Preempt: c.Pick(2, 3), Dev: 1, MaxExec: c.Pick(4000, 200000)}, 1)
		}
	})
}
