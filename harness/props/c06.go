package props

import (
	"context"
	"fmt"
	"net/http"
	"sort"
	"strings"
	"sync"

	mcp "trpc.group/trpc-go/trpc-mcp-go"
	"verif.local/engine/explore"
	"verif.local/engine/vsched"
	"verif.local/harness/hx"
)

// C06 — servers survive arbitrary peer input.

type c06Input struct {
	Label string
	Verb  string // "" = the transport's normal message path
	Path  string
	Body  string
	Hdr   map[string]string
	// NoAnswer: the input is a notification/response (or empty), no answer frame is due.
	NoAnswer bool
}

var (
	c06Once  sync.Once
	c06Cache map[string][]c06Input
)

func c06Nest(open, close string, depth int, leaf string) string {
	return strings.Repeat(open, depth) + leaf + strings.Repeat(close, depth)
}

func c06Inputs(tier, mode string) []c06Input {
	c06Once.Do(func() { c06Cache = map[string][]c06Input{} })
	if v, ok := c06Cache[tier+mode]; ok {
		return v
	}
	var out []c06Input
	add := func(label, body string, noAnswer bool) {
		out = append(out, c06Input{Label: label, Body: body, NoAnswer: noAnswer})
	}
	// A. the structural-mutation alphabet of C03 (rpc cases of this mode)
	for _, c := range c03Cases(tier) {
		if c.Mode == mode && c.Kind == "rpc" {
			add("c03:"+c.Label, c.Msg, c.ReqID == "")
		}
	}
	// B. every byte-prefix of valid messages; C. structural byte substitutions
	valid := map[string]string{
		"initialize": hx.InitBody(9, "2025-03-26"),
		"tools/call": `{"jsonrpc":"2.0","id":9,"method":"tools/call","params":{"name":"t","arguments":{"mode":"ok","n":[1,2,{"k":null}]}}}`,
		"ping":       `{"jsonrpc":"2.0","id":9,"method":"ping"}`,
		"notif":      `{"jsonrpc":"2.0","method":"notifications/initialized"}`,
		"response":   `{"jsonrpc":"2.0","id":9,"result":{"roots":[]}}`,
	}
	names := make([]string, 0, len(valid))
	for k := range valid {
		names = append(names, k)
	}
	sort.Strings(names)
	for _, n := range names {
		msg := valid[n]
		step := 1
		if tier != "thorough" && n != "tools/call" {
			step = 3
		}
		for k := 1; k < len(msg); k += step {
			add(fmt.Sprintf("prefix:%s:%d", n, k), msg[:k], true)
		}
	}
	structural := `{}[]":,`
	msg := valid["tools/call"]
	for i := 0; i < len(msg); i++ {
		if !strings.ContainsRune(structural, rune(msg[i])) {
			continue
		}
		for _, r := range structural {
			if byte(r) == msg[i] {
				continue
			}
			if tier != "thorough" && i%2 == 1 {
				continue
			}
			add(fmt.Sprintf("subst:%d:%c", i, r), msg[:i]+string(r)+msg[i+1:], true)
		}
	}
	// D. nesting depth, E. sizes
	depths := []int{10, 1000, 10000}
	if tier == "thorough" {
		depths = append(depths, 100000)
	}
	for _, d := range depths {
		add(fmt.Sprintf("nest-array-args:%d", d), `{"jsonrpc":"2.0","id":9,"method":"tools/call","params":{"name":"t","arguments":{"v":`+c06Nest("[", "]", d, "1")+`}}}`, true)
		add(fmt.Sprintf("nest-object-params:%d", d), `{"jsonrpc":"2.0","id":9,"method":"tools/call","params":`+c06Nest(`{"a":`, "}", d, "1")+`}`, true)
		add(fmt.Sprintf("nest-array-toplevel:%d", d), c06Nest("[", "]", d, ""), true)
	}
	sizes := []int{65537, 1 << 20}
	if tier == "thorough" {
		sizes = append(sizes, 16<<20)
	}
	for _, n := range sizes {
		add(fmt.Sprintf("big-string-arg:%d", n), `{"jsonrpc":"2.0","id":9,"method":"tools/call","params":{"name":"t","arguments":{"mode":"`+strings.Repeat("a", n)+`"}}}`, false)
		add(fmt.Sprintf("big-tool-name:%d", n), `{"jsonrpc":"2.0","id":9,"method":"tools/call","params":{"name":"`+strings.Repeat("n", n)+`"}}`, false)
		add(fmt.Sprintf("big-method:%d", n), `{"jsonrpc":"2.0","id":9,"method":"`+strings.Repeat("m", n)+`"}`, false)
		add(fmt.Sprintf("big-array-arg:%d", n/8), `{"jsonrpc":"2.0","id":9,"method":"tools/call","params":{"name":"t","arguments":{"v":[`+strings.TrimSuffix(strings.Repeat("1,", n/8), ",")+`]}}}`, false)
	}
	// F. ids of every JSON type, in requests and in unsolicited responses
	for _, v := range []string{`null`, `true`, `false`, `1.5`, `-0`, `1e400`, `9007199254740993`, `""`, `[]`, `[1]`, `{}`, `{"a":1}`, `"server_req_1"`, `1`} {
		add("ping id="+v, `{"jsonrpc":"2.0","id":`+v+`,"method":"ping"}`, true)
		add("tools/call id="+v, `{"jsonrpc":"2.0","id":`+v+`,"method":"tools/call","params":{"name":"t"}}`, true)
		add("unsolicited result id="+v, `{"jsonrpc":"2.0","id":`+v+`,"result":{"roots":[]}}`, true)
		add("unsolicited error id="+v, `{"jsonrpc":"2.0","id":`+v+`,"error":{"code":-1,"message":"x"}}`, true)
		add("unsolicited neither id="+v, `{"jsonrpc":"2.0","id":`+v+`}`, true)
	}
	for _, v := range []string{`null`, `true`, `0`, `"s"`, `[]`, `{}`} {
		add("response result="+v, `{"jsonrpc":"2.0","id":1,"result":`+v+`}`, true)
		add("response error="+v, `{"jsonrpc":"2.0","id":1,"error":`+v+`}`, true)
		add("method="+v, `{"jsonrpc":"2.0","id":9,"method":`+v+`}`, true)
	}
	// J. notifications of every kind x every params shape (incl. _meta of every JSON type); requests carrying _meta
	metaShapes := []string{"\x00absent", `null`, `{}`, `[]`, `"s"`, `1`, `{"_meta":{}}`, `{"_meta":{"k":"v"}}`, `{"_meta":{"progressToken":7,"deep":{"a":[1,null]}}}`, `{"_meta":null}`, `{"_meta":"s"}`, `{"_meta":[1]}`, `{"_meta":1}`,
		`{"_meta":{"k":"v"},"requestId":9,"reason":"r"}`, `{"progressToken":"t","progress":1.5,"total":"x","_meta":{"a":1}}`, `{"level":"info","data":{"x":1},"_meta":{"a":{"b":{}}}}`}
	for _, m := range []string{"notifications/initialized", "notifications/cancelled", "notifications/progress", "notifications/roots/list_changed", "notifications/message", "notifications/no-such", "custom/notify", ""} {
		for _, ps := range metaShapes {
			body := `{"jsonrpc":"2.0","method":"` + m + `"`
			if ps != "\x00absent" {
				body += `,"params":` + ps
			}
			add(fmt.Sprintf("notification %s params=%s", m, truncate(ps, 40)), body+"}", true)
		}
	}
	for _, m := range []string{"tools/call", "tools/list", "ping", "prompts/get", "resources/read"} {
		for _, meta := range []string{`{}`, `{"progressToken":1}`, `{"progressToken":"t","x":[1]}`, `null`, `"s"`, `[1]`, `1`} {
			add(fmt.Sprintf("request %s _meta=%s", m, meta), `{"jsonrpc":"2.0","id":9,"method":"`+m+`","params":{"name":"t","uri":"res://r","_meta":`+meta+`}}`, true)
		}
	}
	// I. line-oriented oddities (meaningful on stdio, harmless garbage elsewhere)
	add("blank", "\n\n", true)
	add("cr-only", "\r\r", true)
	add("non-utf8", "\xff\xfe\x00{", true)
	add("two-objects", valid["ping"]+valid["ping"], true)
	add("bom", "\xef\xbb\xbf"+valid["ping"], true)
	add("long-garbage", strings.Repeat("g", 1<<20), true)
	if mode != "io" {
		// G. headers
		ping := valid["ping"]
		for _, a := range []string{"\x00unset", "application/json", "text/event-stream", "*/*", "garbage;;q=x", "application/json;q=0, text/event-stream;q=0", strings.Repeat("a/b, ", 2000)} {
			out = append(out, c06Input{Label: "accept=" + truncate(a, 30), Verb: http.MethodPost, Body: ping, Hdr: map[string]string{"Accept": a}})
		}
		for _, ct := range []string{"\x00unset", "text/plain", "multipart/form-data; boundary=x", "application/json; charset=\"", strings.Repeat("x", 70000)} {
			out = append(out, c06Input{Label: "content-type=" + truncate(ct, 30), Verb: http.MethodPost, Body: ping, Hdr: map[string]string{"Content-Type": ct}})
		}
		for _, sid := range []string{"00112233445566778899aabbccddeeff", "x", " ", strings.Repeat("s", 70000), "../../etc/passwd", "%00"} {
			out = append(out, c06Input{Label: "session-id=" + truncate(sid, 20), Verb: http.MethodPost, Body: ping, Hdr: map[string]string{"Mcp-Session-Id": sid}, NoAnswer: true})
			out = append(out, c06Input{Label: "initialize session-id=" + truncate(sid, 20), Verb: http.MethodPost, Body: valid["initialize"], Hdr: map[string]string{"Mcp-Session-Id": sid}, NoAnswer: true})
			out = append(out, c06Input{Label: "GET session-id=" + truncate(sid, 20), Verb: http.MethodGet, Hdr: map[string]string{"Mcp-Session-Id": sid}, NoAnswer: true})
			out = append(out, c06Input{Label: "DELETE session-id=" + truncate(sid, 20), Verb: http.MethodDelete, Hdr: map[string]string{"Mcp-Session-Id": sid}, NoAnswer: true})
		}
		out = append(out, c06Input{Label: "GET last-event-id garbage", Verb: http.MethodGet, Hdr: map[string]string{"Last-Event-ID": "\x01\x02 garbage " + strings.Repeat("z", 5000)}, NoAnswer: true})
		// H. paths and verbs
		for _, p := range []string{"/", "/mcp", "/mcpx", "/mcp/", "//mcp", "/sse", "/message", "/message/", "/sse/extra"} {
			for _, v := range []string{http.MethodGet, http.MethodPost, http.MethodDelete, http.MethodPut, http.MethodHead, http.MethodOptions} {
				if tier != "thorough" && (v == http.MethodHead || v == http.MethodOptions) && p != "/mcp" && p != "/sse" {
					continue
				}
				out = append(out, c06Input{Label: fmt.Sprintf("%s %s", v, p), Verb: v, Path: p, Body: ping, NoAnswer: true})
			}
		}
		if mode == "ls" {
			for _, q := range []string{"", "sessionId=", "sessionId=nope", "sessionId=" + strings.Repeat("q", 70000), "sessionId=sse-0001&sessionId=x", "sessionid=sse-0001", "sessionId=%0d%0a"} {
				out = append(out, c06Input{Label: "query " + truncate(q, 30), Verb: http.MethodPost, Path: "/message?" + q, Body: ping, NoAnswer: true})
			}
		}
	}
	c06Cache[tier+mode] = out
	return out
}

type c06Case struct {
	Mode string
	A    int
	B    int // -1: single input
}

func c06Cases(tier string) []c06Case {
	var out []c06Case
	for _, m := range AllModes {
		n := len(c06Inputs(tier, m))
		for i := 0; i < n; i++ {
			out = append(out, c06Case{m, i, -1})
		}
		// pairs (bad, bad) over a spread subset
		step := 37
		if tier == "thorough" {
			step = 11
		}
		for i := 0; i < n; i += step {
			for j := 5; j < n; j += step {
				out = append(out, c06Case{m, i, j})
			}
		}
	}
	return out
}

func c06Send(rp *RawPeer, in c06Input) *Reaction {
	if rp.R.Fab == nil {
		if in.Verb != "" {
			return &Reaction{}
		}
		return rp.React("", "", []byte(in.Body+"\n"), nil)
	}
	verb := in.Verb
	if verb == "" {
		verb = http.MethodPost
	}
	u := ""
	if in.Path != "" {
		u = "http://srv" + in.Path
		if rp.R.Mode == "ls" && !strings.Contains(in.Path, "?") && in.Path == "/message" {
			u += "?sessionId=sse-0001"
		}
	}
	var body []byte
	if verb == http.MethodPost || verb == http.MethodPut {
		body = []byte(in.Body)
	}
	if verb == http.MethodGet {
		// a GET may open a stream: take the headers, then hang up
		if u == "" {
			u = rp.R.URL
		}
		resp, x, err := rp.P.Open(context.Background(), verb, u, rp.SID, nil, in.Hdr)
		re := &Reaction{Err: err}
		if err == nil {
			re.Status = resp.StatusCode
			if x != nil {
				x.CloseFromClient()
			}
		}
		vsched.Quiesce()
		return re
	}
	return rp.React(verb, u, body, in.Hdr)
}

func c06Eval(tier string, i int) CaseResult {
	cs := c06Cases(tier)[i]
	ins := c06Inputs(tier, cs.Mode)
	seq := []c06Input{ins[cs.A]}
	if cs.B >= 0 {
		seq = append(seq, ins[cs.B])
	}
	label := seq[0].Label
	if len(seq) > 1 {
		label += " ; " + seq[1].Label
	}
	cr := CaseResult{Desc: fmt.Sprintf("mode=%s input=%s", cs.Mode, truncate(label, 120)), Nontrivial: true}
	var viol []explore.Violation
	obs := &hx.Log{}
	k := func(kind string) string { return fmt.Sprintf("%s:%s:%s", kind, cs.Mode, truncate(label, 80)) }
	res := vsched.Run(vsched.Config{MaxSteps: 400000}, func() {
		r := NewRig(cs.Mode)
		c03Register(r)
		r.Start()
		rp := NewRawPeer(r)
		if err := rp.Handshake(); err != nil {
			viol = append(viol, V("setup-handshake-fails", "setting the scenario up with well-behaved peers fails: %v", err))
			return
		}
		if r.Fab != nil && cs.Mode != "sl" && cs.Mode != "sd" && cs.Mode != "ls" {
			rp.OpenStream() // a listening stream is part of a normal session
		}
		vsched.Quiesce()
		baseThreads := libraryThreads(vsched.LiveThreads())
		baseline := len(baseThreads)
		pend0 := pendingOf(r)
		deleted := false
		for _, in := range seq {
			re := c06Send(rp, in)
			vsched.Quiesce()
			answered := re.Status >= 400 || len(re.Frames) > 0 || re.Err != nil
			if !answered && !in.NoAnswer {
				viol = append(viol, V(k("unanswered"), "the input got neither an HTTP error nor a JSON-RPC frame (status %d, body %q)", re.Status, truncate(string(re.Body), 60)))
			}
			obs.Add("st=%d fr=%d", re.Status, len(re.Frames))
			if in.Verb == http.MethodDelete && re.Status == 200 {
				deleted = true // the peer legitimately ended its own session
			}
		}
		// the next well-formed request on the same session/connection
		if deleted {
			obs.Add("session deleted by the input")
		} else if a, err := rp.Call(`{"jsonrpc":"2.0","id":"after-1","method":"ping"}`, `"after-1"`); err != nil || !strings.Contains(a, `"result"`) {
			viol = append(viol, V(k("same-session-broken"), "after the input, ping on the same session/connection fails: %v %s", err, truncate(a, 100)))
		}
		// ... and from a fresh client
		if cs.Mode != "io" {
			rp2 := NewRawPeer(r)
			if err := rp2.Handshake(); err != nil {
				viol = append(viol, V(k("fresh-client-broken"), "after the input, a fresh client cannot connect: %v", err))
			} else if a, err := rp2.Call(`{"jsonrpc":"2.0","id":"after-2","method":"tools/call","params":{"name":"t","arguments":{"mode":"ok"}}}`, `"after-2"`); err != nil || !strings.Contains(a, "ok:ok") {
				viol = append(viol, V(k("fresh-client-broken"), "after the input, a fresh client's tool call fails: %v %s", err, truncate(a, 100)))
			}
			if rp2.Stream != nil {
				rp2.Stream.CloseFromClient()
			}
		}
		vsched.Quiesce()
		live := libraryThreads(vsched.LiveThreads())
		if grown := threadsSince(baseThreads, live); len(grown) > 0 {
			viol = append(viol, V(k("goroutine-leak"), "library goroutines grew from %d to %d: %v", baseline, len(live), grown))
		}
		if p := pendingOf(r); p != pend0 {
			viol = append(viol, V(k("pending-leak"), "pending server-request table changed from %d to %d", pend0, p))
		}
	})
	o := finishOutcome(res, obs, viol, true)
	for i, v := range o.Violations {
		if v.Key == "horizon" || v.Key == "deadlock" || strings.HasPrefix(v.Key, "panic:") {
			o.Violations[i].Key = k(v.Key)
		}
	}
	cr.ObsKey = cr.Desc + o.ObsKey
	cr.Violations = o.Violations
	cr.Broken = o.Broken
	return cr
}

func c06Concurrent(prefix []int, mode string, bad string) explore.Outcome {
	var viol []explore.Violation
	obs := &hx.Log{}
	res := vsched.Run(cfgFor(prefix), func() {
		vsched.SetBranching(false)
		r := NewRig(mode)
		c03Register(r)
		r.Start()
		good, evil := NewRawPeer(r), NewRawPeer(r)
		if err := good.Handshake(); err != nil {
			viol = append(viol, V("setup-handshake-fails", "setting the scenario up with well-behaved peers fails: %v", err))
			return
		}
		if mode != "io" {
			if err := evil.Handshake(); err != nil {
				viol = append(viol, V("setup-handshake-fails", "setting the scenario up with well-behaved peers fails: %v", err))
				return
			}
		} else {
			evil = good
		}
		vsched.Quiesce()
		vsched.SetBranching(true)
		var ans string
		var err error
		vsched.Go("good", func() {
			ans, err = good.Call(`{"jsonrpc":"2.0","id":"g","method":"tools/call","params":{"name":"t","arguments":{"mode":"ok"}}}`, `"g"`)
		})
		vsched.Go("evil", func() { c06Send(evil, c06Input{Body: bad}) })
		vsched.Quiesce()
		if err != nil || !strings.Contains(ans, "ok:ok") {
			viol = append(viol, V("good-client-affected:"+mode, "a good client's call failed while another peer sent %q: %v %s", truncate(bad, 40), err, truncate(ans, 80)))
		}
		obs.Add("ok")
	})
	return finishOutcome(res, obs, viol, true)
}

var c06ConcBad = map[string]string{
	"truncated":   `{"jsonrpc":"2.0","id":9,"method":"tools/call","params":{"name":"t","argu`,
	"id-object":   `{"jsonrpc":"2.0","id":{"a":1},"method":"tools/call","params":{"name":"t"}}`,
	"deep":        `{"jsonrpc":"2.0","id":9,"method":"tools/call","params":{"name":"t","arguments":{"v":` + c06Nest("[", "]", 1000, "1") + `}}}`,
	"handler-nan": `{"jsonrpc":"2.0","id":9,"method":"tools/call","params":{"name":"t","arguments":{"mode":"nan"}}}`,
}

func init() {
	RegisterEnum(&Enum{Name: "c06/inputs", Doc: "structured adversarial inputs (C03 mutation alphabet, every byte-prefix, structural byte substitutions, nesting depth, sizes, ids of every JSON type, unsolicited responses, headers, paths x verbs, query variants, line oddities), singly and in pairs, each followed by a well-formed request on the same session and from a fresh client",
		Count: func(tier string) int { return len(c06Cases(tier)) }, Eval: c06Eval})
	for _, mode := range AllModes {
		for name, bad := range c06ConcBad {
			mode, bad := mode, bad
			RegisterScenario(&Scenario{Name: "c06/concurrent/" + mode + "/" + name, Doc: "a malformed request in flight || a good client's call",
				Run: func(p []int, m []vsched.ChoicePoint) explore.Outcome { return c06Concurrent(p, mode, bad) }})
		}
	}
	RegisterCheck("C06", func(c *Ctx) {
		c.Level = "exploration"
		c.Rule = "complete enumeration of a structured adversarial input alphabet (see part doc) x six server kinds/modes, singly and in pairs; per case: no panic in any thread, no deadlock/spin, the input is answered by an HTTP error or a JSON-RPC frame when an answer is due, a following ping on the same session and a tool call from a fresh client succeed, library goroutine count and pending tables return to the baseline; plus DFS of a malformed request racing with a good client's call"
		c.Assume = append(c.Assume, "the byte-level space is covered as: all prefixes and structural-byte substitutions of short valid messages plus the structured alphabet; coverage-guided fuzzing of arbitrary byte strings is sampling and is out of family (DESIGN section 5)", "memnet replaces net/http (its per-connection panic recovery is modelled; every handler panic is still a violation)")
		c.Enumerate("c06/inputs")
		c.Enumerate("c06/configured-paths")
		// "leak a goroutine per request or stop serving other clients": peers that connect, call and vanish
		// (also mid-call), with no / a derived / a from-scratch context function (shared with C08)
		c.Enumerate("c08/server-release")
		c.Enumerate("c08/server-release-inflight")
		names := make([]string, 0, len(c06ConcBad))
		for n := range c06ConcBad {
			names = append(names, n)
		}
		sort.Strings(names)
		for _, mode := range AllModes {
			for _, n := range names {
				c.DFSBoth("c06/concurrent/"+mode+"/"+n, explore.Bounds{Preempt: c.Pick(1, 2), Dev: 1, MaxExec: c.Pick(2000, 50000)}, 1)
			}
		}
	})
	_ = mcp.JSONRPCVersion
}

// ---- servers with configured paths --------------------------------------------------------------
//
// "wrong paths and verbs": the default configuration is covered by the inputs above; here the
// servers are configured with a base path / custom endpoints, and the peer asks for every path
// around them (the prefix itself, the prefix with and without a trailing slash, one character more
// or less, the endpoints without the prefix, doubled slashes).

type c06PathCase struct {
	Mode string // ls-base | ls-endpoints | ss-path
	Verb string
	Path string
}

func c06PathCases() []c06PathCase {
	var out []c06PathCase
	add := func(mode string, paths []string) {
		for _, p := range paths {
			for _, v := range []string{http.MethodGet, http.MethodPost, http.MethodDelete} {
				out = append(out, c06PathCase{mode, v, p})
			}
		}
	}
	add("ls-base", []string{"", "/", "/api", "/api/", "/ap", "/apix", "/api/v1", "/api/v1/", "/api/v1x", "/api/v1/sse/", "/api/v1/ssex", "/sse", "/message", "/api/v1//sse", "//api/v1/sse", "/api/v1/api/v1/sse", "/api/v1/message", "/API/V1/sse"})
	add("ls-endpoints", []string{"", "/", "/b", "/b/", "/bx", "/b/events/", "/b/event", "/b/in/", "/b/inx", "/events", "/in", "/sse", "/message", "/b/sse", "/b/message", "/b//events"})
	add("ss-path", []string{"", "/", "/rpc", "/rpc/", "/rp", "/rpcx", "/rpc/v2", "/rpc/v2/", "/rpc/v2x", "/mcp", "//rpc/v2", "/rpc//v2", "/RPC/V2"})
	return out
}

func c06PathEval(tier string, i int) CaseResult {
	cs := c06PathCases()[i]
	cr := CaseResult{Desc: fmt.Sprintf("server=%s: %s %q", cs.Mode, cs.Verb, cs.Path), Nontrivial: true}
	var viol []explore.Violation
	obs := &hx.Log{}
	k := func(kind string) string { return fmt.Sprintf("%s:%s:%s %s", kind, cs.Mode, cs.Verb, cs.Path) }
	res := vsched.Run(vsched.Config{MaxSteps: 400000}, func() {
		var r *Rig
		switch cs.Mode {
		case "ls-base":
			r = NewRig("ls", mcp.WithBasePath("/api/v1"))
			r.URL = "http://srv/api/v1/sse"
		case "ls-endpoints":
			r = NewRig("ls", mcp.WithBasePath("/b/"), mcp.WithSSEEndpoint("events"), mcp.WithMessageEndpoint("/in"))
			r.URL = "http://srv/b/events"
		default:
			r = NewRig("ss", mcp.WithServerPath("/rpc/v2"))
			r.URL = "http://srv/rpc/v2"
		}
		c03Register(r)
		r.Start()
		rp := NewRawPeer(r)
		if err := rp.Handshake(); err != nil {
			viol = append(viol, V("setup-handshake-fails", "setting the scenario up with well-behaved peers (configured paths) fails: %v", err))
			return
		}
		vsched.Quiesce()
		baseThreads := libraryThreads(vsched.LiveThreads())
		var body []byte
		if cs.Verb == http.MethodPost {
			body = []byte(`{"jsonrpc":"2.0","id":41,"method":"ping"}`)
		}
		resp, x, err := rp.P.Open(context.Background(), cs.Verb, "http://srv"+cs.Path, rp.SID, body, nil)
		status := 0
		if err == nil {
			status = resp.StatusCode
			if x != nil {
				x.CloseFromClient() // a stream that happened to open: hang up
			}
		}
		vsched.Quiesce()
		if err != nil {
			viol = append(viol, V(k("no-http-answer"), "the request got no HTTP answer at all: %v", err))
		}
		obs.Add("st=%d", status)
		if cs.Verb == http.MethodDelete && status == 200 {
			obs.Add("session deleted by the request") // the peer legitimately ended its own session
		} else if a, err := rp.Call(`{"jsonrpc":"2.0","id":"after-1","method":"ping"}`, `"after-1"`); err != nil || !strings.Contains(a, `"result"`) {
			viol = append(viol, V(k("same-session-broken"), "after the request, ping on the same session fails: %v %s", err, truncate(a, 100)))
		}
		other := NewRawPeer(r)
		if err := other.Handshake(); err != nil {
			viol = append(viol, V(k("other-client-broken"), "after the request, a new client cannot connect: %v", err))
		}
		if other.Stream != nil {
			other.Stream.CloseFromClient()
		}
		vsched.Quiesce()
		if leaked := threadsSince(baseThreads, libraryThreads(vsched.LiveThreads())); len(leaked) > 0 {
			viol = append(viol, V(k("goroutine-leak"), "library goroutines left behind by the request: %v", leaked))
		}
	})
	o := finishOutcome(res, obs, viol, true)
	cr.ObsKey = cr.Desc + "|" + o.ObsKey
	cr.Violations = o.Violations
	cr.Broken = o.Broken
	return cr
}

func init() {
	RegisterEnum(&Enum{Name: "c06/configured-paths", Doc: "servers configured with a base path / custom endpoints (legacy SSE: WithBasePath, WithSSEEndpoint, WithMessageEndpoint; Streamable: WithServerPath): GET/POST/DELETE on every path around the configured ones (the prefix itself, with / without trailing slash, one character more or less, endpoints without the prefix, doubled slashes, other case); no panic, an HTTP answer, the session and new clients still served (which of the neighbouring paths a server chooses to serve is not judged)",
		Count: func(string) int { return len(c06PathCases()) }, Eval: c06PathEval})
}
