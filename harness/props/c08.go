package props

import (
	"context"
	"errors"
	"fmt"
	"io"
	"net/http"
	"strings"
	"time"
	"unsafe"

	mcp "trpc.group/trpc-go/trpc-mcp-go"
	"verif.local/engine/explore"
	"verif.local/engine/memnet"
	"verif.local/engine/vcontext"
	"verif.local/engine/vsched"
	"verif.local/harness/hx"
)

// C08 — every client call ends when its connection or context ends; nothing leaks.

type c08Cfg struct {
	Mode  string // ss sj ls io
	Fault string // cancel | reset | eof | close | childexit | none
	Tool  string // slow (handler blocks until released) | fast
	N     int    // pending calls
}

func (c c08Cfg) name() string { return fmt.Sprintf("c08/%s/%s/%s/n%d", c.Mode, c.Fault, c.Tool, c.N) }

func c08Configs() []c08Cfg {
	var out []c08Cfg
	for _, mode := range []string{"ss", "sj", "ls", "io"} {
		faults := []string{"cancel", "reset", "eof", "close"}
		if mode == "io" {
			faults = append(faults, "childexit")
		}
		for _, f := range faults {
			for _, tool := range []string{"slow", "fast"} {
				for _, n := range []int{1, 2} {
					out = append(out, c08Cfg{mode, f, tool, n})
				}
			}
		}
	}
	return out
}

type exchProbe struct {
	fab    *memnet.Fabric
	method string
	sub    string
}

//go:norace
func (p exchProbe) Ready() bool { return p.find() != nil }

//go:norace
func (p exchProbe) find() *memnet.Exchange {
	for _, x := range p.fab.Log() {
		if x.Method == p.method && strings.Contains(string(x.ReqBody), p.sub) && x.ObjID() != 0 {
			return x
		}
	}
	return nil
}

// libraryThreads filters the live controlled threads down to those created by library code.
func libraryThreads(live []string) []string {
	var out []string
	for _, t := range live {
		site := t
		if i := strings.Index(t, ": "); i > 0 {
			site = t[:i]
		}
		if strings.HasSuffix(strings.SplitN(site, ":", 2)[0], ".go") {
			out = append(out, t)
		}
	}
	return out
}

// threadsSince returns the library threads of now that were not already alive in base (compared
// by creation site, as a multiset): daemons a server starts for its own lifetime (session sweeper,
// ...) are part of the base whatever file they live in.
func threadsSince(base, now []string) []string {
	site := func(t string) string {
		if i := strings.Index(t, ": "); i > 0 {
			return t[:i]
		}
		return t
	}
	have := map[string]int{}
	for _, t := range base {
		have[site(t)]++
	}
	var out []string
	for _, t := range now {
		if have[site(t)] > 0 {
			have[site(t)]--
			continue
		}
		out = append(out, t)
	}
	return out
}

func c08Run(prefix []int, cfg c08Cfg) explore.Outcome {
	var viol []explore.Violation
	obs := &hx.Log{}
	k := func(kind string) string { return fmt.Sprintf("%s:%s:%s:%s", kind, cfg.Mode, cfg.Fault, cfg.Tool) }
	res := vsched.Run(cfgFor(prefix), func() {
		vsched.SetBranching(false)
		r := NewRig(cfg.Mode)
		gate := &hx.Flag{}
		r.RegisterTool(mcp.NewTool("slow"), func(ctx context.Context, req *mcp.CallToolRequest) (*mcp.CallToolResult, error) {
			gate.Wait("tool waits for release")
			n, _ := req.Params.Arguments["nonce"].(string)
			return mcp.NewTextResult("echo:" + n), nil
		})
		r.RegisterTool(mcp.NewTool("fast"), func(ctx context.Context, req *mcp.CallToolRequest) (*mcp.CallToolResult, error) {
			n, _ := req.Params.Arguments["nonce"].(string)
			return mcp.NewTextResult("echo:" + n), nil
		})
		r.Start()
		vsched.Quiesce()
		srvBase := libraryThreads(vsched.LiveThreads()) // what the server runs for its own lifetime, before any peer
		cl, err := r.Connect()
		if err != nil {
			viol = append(viol, V("setup-handshake-fails", "setting the scenario up with well-behaved peers fails: %v", err))
			return
		}
		vsched.Quiesce()
		vsched.SetBranching(true)

		type callRec struct {
			nonce  string
			out    *mcp.CallToolResult
			err    error
			done   bool
			cancel context.CancelFunc
		}
		var calls []*callRec
		for i := 0; i < cfg.N; i++ {
			ctx, cancel := vcontext.WithCancel(context.Background())
			c := &callRec{nonce: fmt.Sprintf("n%d", i), cancel: cancel}
			calls = append(calls, c)
			vsched.Go("caller", func() {
				rq := &mcp.CallToolRequest{}
				rq.Params.Name = cfg.Tool
				rq.Params.Arguments = map[string]interface{}{"nonce": c.nonce}
				c.out, c.err = cl.CallTool(ctx, rq)
				c.done = true
			})
		}
		faulted := map[int]bool{} // calls that the fault is allowed to fail
		vsched.Go("fault", func() {
			switch cfg.Fault {
			case "cancel":
				calls[0].cancel()
			case "close":
				cl.Close()
			case "childexit":
				r.S2C.Break(io.EOF)
				if r.ChildExited != nil {
					r.ChildExited()
				}
			case "reset", "eof":
				var ferr error = io.EOF
				if cfg.Fault == "reset" {
					ferr = errors.New("read tcp 10.0.0.1:1234->10.0.0.2:80: read: connection reset by peer")
				}
				switch cfg.Mode {
				case "io":
					r.S2C.Break(ferr)
				case "ls":
					p := exchProbe{r.Fab, http.MethodGet, ""}
					if x := p.find(); x != nil {
						x.BreakStream(ferr)
					}
				default:
					p := exchProbe{r.Fab, http.MethodPost, `"n0"`}
					vsched.Block("fault waits for the POST of call n0", p)
					if x := p.find(); x != nil {
						x.BreakStream(ferr)
					}
				}
			}
		})
		switch cfg.Fault {
		case "cancel":
			faulted[0] = true
		case "reset", "eof":
			if cfg.Mode == "ls" || cfg.Mode == "io" {
				for i := range calls {
					faulted[i] = true
				}
			} else {
				faulted[0] = true
			}
		default:
			for i := range calls {
				faulted[i] = true
			}
		}
		// Close() on an HTTP client does not end the connections of requests already in flight:
		// such calls may fail or complete normally; only the no-panic / no-partial / no-leak parts apply.
		lenient := cfg.Fault == "close" && (cfg.Mode == "ss" || cfg.Mode == "sj")
		vsched.Quiesce()
		// 1. promptness: with the handler still blocked, every call hit by the fault has returned
		for i, c := range calls {
			if cfg.Tool == "slow" && faulted[i] && !c.done && !lenient {
				viol = append(viol, V(k("call-hangs"), "call %s is still pending after the fault although its context/connection ended; blocked: %v", c.nonce, vsched.LiveThreads()))
			}
		}
		gate.Set()
		vsched.Quiesce()
		for i, c := range calls {
			switch {
			case !c.done:
				viol = append(viol, V(k("call-never-returns"), "call %s never returned; blocked: %v", c.nonce, vsched.LiveThreads()))
			case c.err == nil && c.out == nil:
				viol = append(viol, V(k("nil-nil"), "call %s returned (nil, nil)", c.nonce))
			case c.err == nil && TextOf(c.out) != "echo:"+c.nonce:
				viol = append(viol, V(k("partial-result"), "call %s returned a wrong/partial result %q", c.nonce, TextOf(c.out)))
			case c.err != nil && !faulted[i]:
				viol = append(viol, V(k("collateral"), "call %s, which the fault does not concern, failed: %v", c.nonce, c.err))
			case c.err == nil && cfg.Tool == "slow" && faulted[i] && cfg.Fault != "none" && !lenient:
				viol = append(viol, V(k("result-after-fault"), "call %s returned a result although its connection/context had ended before the handler was released", c.nonce))
			}
			st := "ok"
			if c.err != nil {
				st = "err"
			}
			obs.Add("%s=%s", c.nonce, st)
		}
		// 2. release: after Close nothing of the library is left behind (the tear-down itself runs
		// under the default schedule: its interleavings are explored by the "close" fault scenarios)
		vsched.SetBranching(false)
		cerr := cl.Close()
		_ = cerr
		for _, c := range calls {
			c.cancel()
		}
		vsched.Quiesce()
		if leaked := threadsSince(srvBase, libraryThreads(vsched.LiveThreads())); len(leaked) > 0 && cfg.Mode != "io" {
			viol = append(viol, V(k("goroutine-leak"), "after Close these library goroutines are still alive: %v", leaked))
		} else if cfg.Mode == "io" {
			// the in-process stdio server shares the scheduler: only client-side sites count
			var cl2 []string
			for _, t := range leaked {
				if strings.HasPrefix(t, "transport_stdio.go") || strings.HasPrefix(t, "verif_hooks.go") || strings.HasPrefix(t, "stdio_client.go") {
					cl2 = append(cl2, t)
				}
			}
			if len(cl2) > 0 {
				viol = append(viol, V(k("goroutine-leak"), "after Close these client goroutines are still alive: %v", cl2))
			}
		}
		if r.Fab != nil {
			for _, x := range r.Fab.OpenBodies() {
				viol = append(viol, V(k("body-leak"), "the response body of %s %s (status %d) was never closed by the client", x.Method, x.Path, x.Status))
				break
			}
		}
		if p := mcp.VerifPending(cl); p["pending"] != 0 {
			viol = append(viol, V(k("pending-leak"), "client pending table still holds %d entries after Close", p["pending"]))
		}
	})
	return finishOutcome(res, obs, viol, true)
}

func init() {
	for _, cfg := range c08Configs() {
		cfg := cfg
		RegisterScenario(&Scenario{Name: cfg.name(), Run: func(p []int, m []vsched.ChoicePoint) explore.Outcome { return c08Run(p, cfg) },
			Doc: fmt.Sprintf("%s client, %d pending CallTool(%s) || fault %s injected at an arbitrary point; then release, Close, leak accounting", cfg.Mode, cfg.N, cfg.Tool, cfg.Fault)})
	}
	RegisterEnum(&Enum{Name: "c08/truncate", Doc: "scripted server: the answer to a call is cut at every byte offset (then EOF or reset) for the Streamable JSON, Streamable SSE, legacy SSE and stdio clients",
		Count: func(tier string) int { return len(c08TruncCases()) }, Eval: func(tier string, i int) CaseResult { return c08Trunc(c08TruncCases()[i]) }})
	RegisterCheck("C08", func(c *Ctx) {
		c.Level = "fault_enumeration"
		c.Rule = "for every (client kind, fault kind in {ctx cancel, reset, clean EOF, Close by another goroutine, child exit}, handler blocked or not, 1..2 pending calls, and the handshake itself pending against a server that stalls before the stream headers or withholds the initialize answer): the fault is a thread whose single step is placed at every point of the exchange by DFS (sleep-set reduced, preemption bounded); plus truncation of the answer at every byte offset; oracle: every call returns promptly with an error or the complete correct result, never (nil,nil)/partial/panic, untouched calls succeed, and after Close no library goroutine, open response body or pending entry remains"
		c.Assume = append(c.Assume, "the stdio child is modelled by pipes plus the process-watcher effect; exec, signals, pids and OS file descriptors are not exercised", "connection release is judged on memnet response bodies", "virtual time: 'promptly' = returned at quiescence after the fault while the handler is still blocked")
		c.Enumerate("c08/truncate")
		c.Enumerate("c08/get-refused")
		c.Enumerate("c08/retry-cancel")
		c.Enumerate("c08/server-release")
		c.Enumerate("c08/server-release-inflight")
		c.Enumerate("c08/connect-fails")
		c.Enumerate("c08/close-from-handler")
		for _, cfg := range c08Configs() {
			pb := c.Pick(2, 3)
			if cfg.N == 2 || (cfg.Mode == "ls" && (cfg.Fault == "reset" || cfg.Fault == "eof")) {
				pb = c.Pick(1, 2) // stream-level faults wake every thread of the legacy SSE session at once
			}
			c.DFS(cfg.name(), explore.Bounds{Preempt: pb, Dev: 1, POR: true, MaxExec: c.Pick(4000, 400000)})
		}
		for _, cfg := range c08HsConfigs() {
			c.DFS(cfg.name(), explore.Bounds{Preempt: c.Pick(2, 3), Dev: 0, POR: true, MaxExec: c.Pick(3000, 200000)})
		}
	})
}

type c08TruncCase struct {
	Mode string
	Cut  int
	Err  string // eof | reset
}

const c08Answer = `{"jsonrpc":"2.0","id":2,"result":{"content":[{"type":"text","text":"echo:full"}]}}`

func c08Wire(mode string) string {
	switch mode {
	case "ss":
		return "id: evt-1\ndata: " + c08Answer + "\n\n"
	case "ls":
		return "event: message\ndata: " + c08Answer + "\n\n"
	}
	return c08Answer + "\n"
}

func c08TruncCases() []c08TruncCase {
	var out []c08TruncCase
	for _, mode := range []string{"sj", "ss", "ls", "io"} {
		n := len(c08Wire(mode))
		for cut := 0; cut <= n; cut++ {
			out = append(out, c08TruncCase{mode, cut, "eof"})
			if cut%4 == 0 {
				out = append(out, c08TruncCase{mode, cut, "reset"})
			}
		}
	}
	return out
}

// c08Trunc: a scripted server answers the handshake normally and the tool call with the first
// Cut bytes of the answer, then ends the connection.
func c08Trunc(tc c08TruncCase) CaseResult {
	cr := CaseResult{Desc: fmt.Sprintf("mode=%s answer cut after %d of %d bytes then %s", tc.Mode, tc.Cut, len(c08Wire(tc.Mode)), tc.Err), Nontrivial: true}
	var viol []explore.Violation
	obs := &hx.Log{}
	k := func(kind string) string { return fmt.Sprintf("%s:%s:%s", kind, tc.Mode, tc.Err) }
	res := vsched.Run(vsched.Config{}, func() {
		ss := newScriptedServer(tc.Mode)
		wire := c08Wire(tc.Mode)
		var ferr error = io.EOF
		if tc.Err == "reset" {
			ferr = errors.New("read: connection reset by peer")
		}
		ss.onCall = func(w scriptWriter) {
			w.WritePartial(wire[:tc.Cut], ferr)
		}
		cl, err := ss.connect()
		if err != nil {
			viol = append(viol, V("harness", "connect: %v", err))
			return
		}
		var out *mcp.CallToolResult
		var cerr error
		done := &hx.Flag{}
		vsched.Go("caller", func() {
			rq := &mcp.CallToolRequest{}
			rq.Params.Name = "t"
			out, cerr = cl.CallTool(context.Background(), rq)
			done.Set()
		})
		vsched.Quiesce()
		complete := tc.Cut == len(wire) || (tc.Mode == "sj" && tc.Cut >= len(c08Answer)) || (tc.Mode == "io" && tc.Cut >= len(c08Answer))
		switch {
		case !done.Get():
			viol = append(viol, V(k("call-hangs"), "the connection ended after %d bytes of the answer but the call never returned; blocked: %v", tc.Cut, vsched.LiveThreads()))
			obs.Add("hang")
		case cerr == nil && out == nil:
			viol = append(viol, V(k("nil-nil"), "call returned (nil, nil) after a truncated answer"))
		case cerr == nil && TextOf(out) != "echo:full":
			viol = append(viol, V(k("partial-result"), "call returned %q from a truncated answer", TextOf(out)))
		case cerr == nil && !complete && !(tc.Mode == "ss" && tc.Cut >= len("id: evt-1\ndata: "+c08Answer+"\n")) && !(tc.Mode == "ls" && tc.Cut >= len("event: message\ndata: "+c08Answer+"\n")):
			viol = append(viol, V(k("result-from-incomplete-frame"), "call returned the result although only %d of %d bytes of the frame arrived", tc.Cut, len(wire)))
		case cerr != nil && complete:
			viol = append(viol, V(k("complete-answer-lost"), "the complete answer arrived before the connection ended, but the call failed: %v", cerr))
		}
		if cerr != nil {
			obs.Add("err")
		} else {
			obs.Add("ok")
		}
		cl.Close()
		vsched.Quiesce()
		ss.stop()
		vsched.Quiesce()
		if leaked := libraryThreads(vsched.LiveThreads()); len(leaked) > 0 {
			viol = append(viol, V(k("goroutine-leak"), "after Close these library goroutines are still alive: %v", leaked))
		}
		if ss.fab != nil {
			for _, x := range ss.fab.OpenBodies() {
				viol = append(viol, V(k("body-leak"), "the response body of %s %s was never closed by the client", x.Method, x.Path))
				break
			}
		}
	})
	o := finishOutcome(res, obs, viol, true)
	cr.ObsKey = fmt.Sprintf("%s|%s|%d|%s", tc.Mode, tc.Err, tc.Cut, o.ObsKey)
	cr.Violations = o.Violations
	cr.Broken = o.Broken
	return cr
}

// ---- the handshake itself as the pending call -------------------------------------------------

type c08HsCfg struct {
	Mode  string // ls sj ss io
	Stall string // connect (legacy SSE: before the headers of the stream) | init (the answer to initialize is withheld)
	Fault string // cancel | close
}

func (c c08HsCfg) name() string {
	return fmt.Sprintf("c08/handshake/%s/%s/%s", c.Mode, c.Stall, c.Fault)
}

func c08HsConfigs() []c08HsCfg {
	var out []c08HsCfg
	for _, ms := range [][2]string{{"ls", "connect"}, {"ls", "init"}, {"sj", "init"}, {"ss", "init"}, {"io", "init"}} {
		for _, f := range []string{"cancel", "close"} {
			out = append(out, c08HsCfg{ms[0], ms[1], f})
		}
	}
	return out
}

// c08Handshake: Initialize is pending against a server that stalls; the fault (cancel of the
// caller's context, or Close from another goroutine) is placed at every point by the explorer.
func c08Handshake(prefix []int, cfg c08HsCfg) explore.Outcome {
	var viol []explore.Violation
	obs := &hx.Log{}
	k := func(kind string) string {
		return fmt.Sprintf("%s:handshake:%s:%s:%s", kind, cfg.Mode, cfg.Stall, cfg.Fault)
	}
	res := vsched.Run(cfgFor(prefix), func() {
		ss := newScriptedServer(cfg.Mode)
		gate := &hx.Flag{}
		if cfg.Stall == "connect" {
			ss.gateConnect = gate
		} else {
			ss.gateInit = gate
		}
		cl, err := ss.client()
		if err != nil {
			viol = append(viol, V("setup-handshake-fails", "setting the scenario up with well-behaved peers fails: %v", err))
			return
		}
		ctx, cancel := vcontext.WithCancel(context.Background())
		var initErr error
		done := &hx.Flag{}
		vsched.Go("init", func() {
			_, initErr = cl.Initialize(ctx, &mcp.InitializeRequest{})
			done.Set()
		})
		closed := &hx.Flag{}
		vsched.Go("fault", func() {
			if cfg.Fault == "cancel" {
				cancel()
			} else {
				cl.Close()
				closed.Set()
			}
		})
		vsched.Quiesce()
		// Close does not abort an HTTP request that is already in flight on the caller's context
		// (Streamable initialize POST): the caller's own cancel must then end it.
		lenient := cfg.Fault == "close" && (cfg.Mode == "sj" || cfg.Mode == "ss")
		if !done.Get() && !lenient {
			viol = append(viol, V(k("call-hangs"), "Initialize is still pending after %s although the server never answers; blocked: %v", cfg.Fault, vsched.LiveThreads()))
		}
		vsched.SetBranching(false)
		cancel()
		vsched.Quiesce()
		if !done.Get() {
			viol = append(viol, V(k("call-never-returns"), "Initialize did not return even after its context was cancelled; blocked: %v", vsched.LiveThreads()))
		} else if initErr == nil {
			viol = append(viol, V(k("result-after-fault"), "Initialize succeeded although the server never completed the handshake"))
		}
		if !closed.Get() {
			cdone := &hx.Flag{}
			vsched.Go("close", func() { cl.Close(); cdone.Set() })
			vsched.Quiesce()
			if !cdone.Get() {
				viol = append(viol, V(k("close-hangs"), "Close did not return; blocked: %v", vsched.LiveThreads()))
			}
		}
		leakCheck := func(when string) {
			if leaked := libraryThreads(vsched.LiveThreads()); len(leaked) > 0 {
				viol = append(viol, V(k("goroutine-leak"), "%s these library goroutines are still alive: %v", when, leaked))
			}
			if ss.fab != nil {
				for _, x := range ss.fab.OpenBodies() {
					viol = append(viol, V(k("body-leak"), "%s the response body of %s %s is still open", when, x.Method, x.Path))
					break
				}
			}
			if p := mcp.VerifPending(cl); p["pending"] != 0 {
				viol = append(viol, V(k("pending-leak"), "%s the client's pending table holds %d entries", when, p["pending"]))
			}
		}
		leakCheck("after Close, with the server still stalled,")
		// the server finally answers into the void: nothing may come back to life
		gate.Set()
		vsched.Quiesce()
		leakCheck("after the late answer of the server")
		obs.Add("done=%v err=%v", done.Get(), initErr != nil)
		ss.stop()
	})
	return finishOutcome(res, obs, viol, true)
}

// c08GetRefused: the server refuses the Streamable client's automatic listening stream with a
// status and a body; calls still work; after Close nothing of that exchange is left open.
func c08GetRefused(tier string, i int) CaseResult {
	statuses := []int{405, 404, 400, 500, 503, 401}
	mode := []string{"sj", "ss"}[i%2]
	st := statuses[i/2]
	cr := CaseResult{Desc: fmt.Sprintf("client=%s GET answered %d with a body", mode, st), Nontrivial: true}
	var viol []explore.Violation
	obs := &hx.Log{}
	k := func(s string) string { return fmt.Sprintf("%s:get-refused-%d:%s", s, st, mode) }
	res := vsched.Run(vsched.Config{}, func() {
		ss := newScriptedServer(mode)
		ss.getStatus = st
		cl, err := ss.connect(mcp.WithClientGetSSEEnabled(true))
		if err != nil {
			viol = append(viol, V(k("handshake-fails"), "a refused listening stream must not fail the handshake: %v", err))
			return
		}
		vsched.Quiesce()
		done := &hx.Flag{}
		var cerr error
		vsched.Go("caller", func() {
			rq := &mcp.CallToolRequest{}
			rq.Params.Name = "t"
			_, cerr = cl.CallTool(context.Background(), rq)
			done.Set()
		})
		vsched.Quiesce()
		if !done.Get() || cerr != nil {
			viol = append(viol, V(k("call-fails"), "a call after the refused listening stream: done=%v err=%v", done.Get(), cerr))
		}
		closed := &hx.Flag{}
		vsched.Go("close", func() { cl.Close(); closed.Set() })
		vsched.Quiesce()
		if !closed.Get() {
			viol = append(viol, V(k("close-hangs"), "Close did not return; blocked: %v", vsched.LiveThreads()))
		}
		if leaked := libraryThreads(vsched.LiveThreads()); len(leaked) > 0 {
			viol = append(viol, V(k("goroutine-leak"), "after Close these library goroutines are still alive: %v", leaked))
		}
		for _, x := range ss.fab.OpenBodies() {
			viol = append(viol, V(k("body-leak"), "the response body of %s %s (status %d) was never closed by the client", x.Method, x.Path, x.Status))
			break
		}
		obs.Add("gets=%d", strings.Count(strings.Join(ss.httpLog, " "), "GET"))
		ss.stop()
	})
	o := finishOutcome(res, obs, viol, true)
	cr.ObsKey = cr.Desc + o.ObsKey
	cr.Violations = o.Violations
	cr.Broken = o.Broken
	return cr
}

// c08ConnectFails: the very first exchange of a client fails - connection refused, reset or closed
// before any response header, an HTTP error status, a stream that ends at once - while the caller's
// context stays alive (context.Background or an application-wide context). Initialize returns an
// error; after Close nothing the library started for the attempt is left, however often it is tried.
func c08ConnectFails(tier string, i int) CaseResult {
	modes := []string{"ls", "sj", "ss"}
	faults := []string{"refused", "reset", "eof", "status-500", "status-404", "ends-at-once", "retry-refused"}
	mode, fault := modes[i%3], faults[i/3]
	cr := CaseResult{Desc: fmt.Sprintf("client=%s: the first exchange fails (%s), three attempts, caller context stays alive", mode, fault), Nontrivial: true}
	var viol []explore.Violation
	obs := &hx.Log{}
	k := func(s string) string { return fmt.Sprintf("%s:connect-fails:%s:%s", s, mode, fault) }
	res := vsched.Run(vsched.Config{}, func() {
		ss := newScriptedServer(mode)
		first := func(req *http.Request) bool {
			if mode == "ls" {
				return req.Method == http.MethodGet
			}
			return req.Method == http.MethodPost
		}
		ss.fab.Intercept = func(req *http.Request, x *memnet.Exchange) (*http.Response, error, bool) {
			if !first(req) {
				return nil, nil, false
			}
			switch fault {
			case "refused", "retry-refused":
				return nil, errors.New("dial tcp 10.0.0.2:80: connect: connection refused"), true
			case "reset":
				return nil, errors.New("read tcp 10.0.0.1:5->10.0.0.2:80: read: connection reset by peer"), true
			case "eof":
				return nil, io.EOF, true
			case "status-500":
				return memnet.StaticResponse(req, 500, http.Header{"Content-Type": []string{"text/plain"}}, []byte("no")), nil, true
			case "status-404":
				return memnet.StaticResponse(req, 404, http.Header{"Content-Type": []string{"text/plain"}}, []byte("no")), nil, true
			default: // ends-at-once: 200, the right content type, and an empty body
				ct := "application/json"
				if mode != "sj" {
					ct = "text/event-stream"
				}
				return memnet.StaticResponse(req, 200, http.Header{"Content-Type": []string{ct}}, nil), nil, true
			}
		}
		var opts []mcp.ClientOption
		if fault == "retry-refused" {
			opts = append(opts, mcp.WithRetry(mcp.RetryConfig{MaxRetries: 2, InitialBackoff: 10 * time.Millisecond, BackoffFactor: 1, MaxBackoff: 10 * time.Millisecond}))
		}
		appCtx, appCancel := vcontext.WithCancel(context.Background()) // lives as long as the application
		defer appCancel()
		for attempt := 1; attempt <= 3; attempt++ {
			cl, err := ss.client(opts...)
			if err != nil {
				viol = append(viol, V("harness", "constructor: %v", err))
				return
			}
			done := &hx.Flag{}
			var ierr error
			vsched.Go("init", func() {
				_, ierr = cl.Initialize(appCtx, &mcp.InitializeRequest{})
				done.Set()
			})
			vsched.Quiesce()
			for guard := 0; !done.Get() && guard < 10; guard++ {
				vsched.FireEarliestTimer() // the waits between retry attempts
				vsched.Quiesce()
			}
			if !done.Get() {
				viol = append(viol, V(k("init-hangs"), "attempt %d: Initialize did not return although its first exchange failed; blocked: %v", attempt, vsched.LiveThreads()))
				return
			}
			if ierr == nil {
				viol = append(viol, V(k("init-succeeds"), "attempt %d: Initialize reported success although its first exchange failed", attempt))
			}
			closed := &hx.Flag{}
			vsched.Go("close", func() { cl.Close(); closed.Set() })
			vsched.Quiesce()
			if !closed.Get() {
				viol = append(viol, V(k("close-hangs"), "attempt %d: Close did not return; blocked: %v", attempt, vsched.LiveThreads()))
				return
			}
			if leaked := libraryThreads(vsched.LiveThreads()); len(leaked) > 0 {
				viol = append(viol, V(k("goroutine-leak"), "after failed attempt %d and Close (the caller's context is still alive) these library goroutines are still there: %v", attempt, leaked))
				return
			}
			for _, x := range ss.fab.OpenBodies() {
				viol = append(viol, V(k("body-leak"), "attempt %d: the response body of %s %s (status %d) was never closed by the client", attempt, x.Method, x.Path, x.Status))
				return
			}
		}
		obs.Add("ok")
		ss.stop()
	})
	o := finishOutcome(res, obs, viol, true)
	cr.ObsKey = cr.Desc + o.ObsKey
	cr.Violations = o.Violations
	cr.Broken = o.Broken
	return cr
}

// c08CloseFromHandler: the application closes the client from inside one of its own notification
// handlers (a "shutdown" or "session revoked" notice) - on the listening stream, on the answer
// stream of a call, on stdout. Close returns, and afterwards nothing of
// the client is left.
func c08CloseFromHandler(tier string, i int) CaseResult {
	variant := []string{"sj-get", "ss-get", "ss-post", "io"}[i]
	mode := strings.SplitN(variant, "-", 2)[0]
	cr := CaseResult{Desc: "client=" + variant + ": Close is called from inside a notification handler", Nontrivial: true}
	var viol []explore.Violation
	obs := &hx.Log{}
	k := func(s string) string { return fmt.Sprintf("%s:close-from-handler:%s", s, variant) }
	res := vsched.Run(vsched.Config{}, func() {
		ss := newScriptedServer(mode)
		note := `{"jsonrpc":"2.0","method":"notifications/bye","params":{"reason":"revoked"}}`
		ss.onRequest = func(msg map[string]interface{}, rawMsg string, w scriptWriter) bool {
			if m, _ := msg["method"].(string); m != "tools/call" || variant != "ss-post" {
				return false
			}
			w.Frame(note)
			w.Frame(fmt.Sprintf(`{"jsonrpc":"2.0","id":%s,"result":{"content":[{"type":"text","text":"late"}]}}`, rawID([]byte(rawMsg))))
			return true
		}
		cl, err := ss.connect(mcp.WithClientGetSSEEnabled(true))
		if err != nil {
			viol = append(viol, V("setup-handshake-fails", "setting the scenario up with well-behaved peers fails: %v", err))
			return
		}
		entered, returned := &hx.Flag{}, &hx.Flag{}
		cl.RegisterNotificationHandler("notifications/bye", func(n *mcp.JSONRPCNotification) error {
			entered.Set()
			cl.Close()
			returned.Set()
			return nil
		})
		vsched.Quiesce()
		if variant == "ss-post" {
			vsched.Go("caller", func() {
				rq := &mcp.CallToolRequest{}
				rq.Params.Name = "t"
				cl.CallTool(context.Background(), rq)
			})
		} else if w := ss.background(); w != nil {
			w.Frame(note)
		} else {
			viol = append(viol, V("harness", "no background stream to send the notification on"))
			return
		}
		vsched.Quiesce()
		obs.Add("entered=%v returned=%v", entered.Get(), returned.Get())
		if !entered.Get() {
			viol = append(viol, V("harness", "the notification handler was never called"))
			return
		}
		if !returned.Get() {
			viol = append(viol, V(k("close-hangs"), "Close, called from inside a notification handler, does not return; blocked: %v", vsched.LiveThreads()))
			return
		}
		again := &hx.Flag{}
		vsched.Go("close-again", func() { cl.Close(); again.Set() })
		vsched.Quiesce()
		if !again.Get() {
			viol = append(viol, V(k("second-close-hangs"), "a second Close does not return; blocked: %v", vsched.LiveThreads()))
		}
		ss.stop()
		vsched.Quiesce()
		if leaked := libraryThreads(vsched.LiveThreads()); len(leaked) > 0 {
			viol = append(viol, V(k("goroutine-leak"), "after Close (from a handler) these library goroutines are still alive: %v", leaked))
		}
		if ss.fab != nil {
			for _, x := range ss.fab.OpenBodies() {
				viol = append(viol, V(k("body-leak"), "the response body of %s %s was never closed by the client", x.Method, x.Path))
				break
			}
		}
	})
	o := finishOutcome(res, obs, viol, true)
	cr.ObsKey = cr.Desc + o.ObsKey
	cr.Violations = o.Violations
	cr.Broken = o.Broken
	return cr
}

type c08CtxKey struct{}

// c08ServerRelease: "on the server once the peer's connections are gone, the goroutines ... the
// library created for those connections are released" - also when the server is configured with a
// context function, whether that function derives its result from the context it is given or
// builds it from scratch (values only, no cancellation).
func c08ServerRelease(tier string, i int) CaseResult {
	modes := []string{"ls", "ss", "sj"}
	ctxKinds := []string{"none", "derived", "detached"}
	mode, ck := modes[i%3], ctxKinds[i/3]
	cr := CaseResult{Desc: fmt.Sprintf("server=%s context function=%s: two peers connect, call, and go away", mode, ck), Nontrivial: true}
	var viol []explore.Violation
	obs := &hx.Log{}
	k := func(s string) string { return fmt.Sprintf("%s:server-release:%s:ctxfunc-%s", s, mode, ck) }
	res := vsched.Run(vsched.Config{}, func() {
		cf := func(ctx context.Context, r *http.Request) context.Context {
			if ck == "detached" {
				return context.WithValue(context.Background(), c08CtxKey{}, r.Header.Get("X-Tok"))
			}
			return context.WithValue(ctx, c08CtxKey{}, r.Header.Get("X-Tok"))
		}
		var opts []interface{}
		if ck != "none" {
			if mode == "ls" {
				opts = append(opts, mcp.WithSSEContextFunc(cf))
			} else {
				opts = append(opts, mcp.WithHTTPContextFunc(cf))
			}
		}
		r := NewRig(mode, opts...)
		r.RegisterTool(mcp.NewTool("fast"), func(ctx context.Context, req *mcp.CallToolRequest) (*mcp.CallToolResult, error) {
			return mcp.NewTextResult("ok"), nil
		})
		r.Start()
		vsched.Quiesce()
		baseThreads := libraryThreads(vsched.LiveThreads())
		base := len(baseThreads)
		var peers []*RawPeer
		for n := 0; n < 2; n++ {
			rp := NewRawPeer(r)
			if err := rp.Handshake(); err != nil {
				viol = append(viol, V("setup-handshake-fails", "setting the scenario up with well-behaved peers fails: %v", err))
				return
			}
			if mode != "ls" {
				rp.OpenStream()
			}
			if a, err := rp.Call(`{"jsonrpc":"2.0","id":5,"method":"tools/call","params":{"name":"fast"}}`, "5"); err != nil || !strings.Contains(a, "ok") {
				viol = append(viol, V(k("call-fails"), "tools/call: %v %s", err, truncate(a, 100)))
			}
			peers = append(peers, rp)
		}
		vsched.Quiesce()
		during := len(libraryThreads(vsched.LiveThreads()))
		for _, rp := range peers {
			if rp.Stream != nil {
				rp.Stream.CloseFromClient() // the peer's connection is gone
			}
		}
		vsched.Quiesce()
		after := threadsSince(baseThreads, libraryThreads(vsched.LiveThreads()))
		if len(after) > 0 {
			viol = append(viol, V(k("goroutine-leak"), "the server ran %d library goroutines before the peers came, %d while they were connected, and %d more than at the start after their connections are gone: %v", base, during, len(after), after))
		}
		if mode == "ls" {
			// the session of a vanished legacy SSE peer is gone too: a late POST to it is refused
			re := peers[0].React(http.MethodPost, "", []byte(`{"jsonrpc":"2.0","id":9,"method":"ping"}`), nil)
			if re.Status == 202 {
				viol = append(viol, V(k("session-survives"), "a POST to the session of a peer whose stream is gone is still accepted (202)"))
			}
		}
		obs.Add("base=%d during=%d after=%d", base, during, len(after))
	})
	o := finishOutcome(res, obs, viol, true)
	cr.ObsKey = cr.Desc + o.ObsKey
	cr.Violations = o.Violations
	cr.Broken = o.Broken
	return cr
}

// c08ServerReleaseInflight: a peer vanishes while its call is still running in a handler that only
// ends when its context ends; on the HTTP transports that carry the call on the POST's own
// connection the server must end that context, and everything it started for the peer is released.
func c08ServerReleaseInflight(tier string, i int) CaseResult {
	mode := []string{"ss", "sj", "sl", "slj", "sd", "ls"}[i]
	cr := CaseResult{Desc: fmt.Sprintf("server=%s: a peer calls a tool that waits for the end of its context, then the peer's connections are gone", mode), Nontrivial: true}
	var viol []explore.Violation
	obs := &hx.Log{}
	k := func(s string) string { return fmt.Sprintf("%s:server-release-inflight:%s", s, mode) }
	res := vsched.Run(vsched.Config{}, func() {
		r := NewRig(mode)
		entered, release, ctxEnded, returned := &hx.Flag{}, &hx.Flag{}, &hx.Flag{}, &hx.Flag{}
		r.RegisterTool(mcp.NewTool("wait"), func(ctx context.Context, req *mcp.CallToolRequest) (*mcp.CallToolResult, error) {
			entered.Set()
			vsched.BlockObjs("tool handler waits for the end of its context", ctxProbe{ctx, release}, []uintptr{vsched.CtxID(ctx), uintptr(unsafe.Pointer(release))}, true)
			if ctx.Err() != nil {
				ctxEnded.Set()
			}
			returned.Set()
			return nil, fmt.Errorf("gave up: %v", ctx.Err())
		})
		r.Start()
		vsched.Quiesce()
		baseThreads := libraryThreads(vsched.LiveThreads())
		rp := NewRawPeer(r)
		if err := rp.Handshake(); err != nil {
			viol = append(viol, V("setup-handshake-fails", "setting the scenario up with well-behaved peers fails: %v", err))
			return
		}
		if mode == "ss" || mode == "sj" {
			rp.OpenStream()
		}
		cctx, cancel := vcontext.WithCancel(context.Background())
		var px *memnet.Exchange
		posted := &hx.Flag{}
		vsched.Go("peer-post", func() {
			body := []byte(`{"jsonrpc":"2.0","id":5,"method":"tools/call","params":{"name":"wait"}}`)
			url, sid := r.URL, rp.SID
			if mode == "ls" {
				url, sid = rp.Endpoint, ""
			}
			resp, x, err := rp.P.Open(cctx, http.MethodPost, url, sid, body, nil)
			px = x
			if err == nil {
				io.Copy(io.Discard, resp.Body)
				resp.Body.Close()
			}
			posted.Set()
		})
		vsched.Quiesce()
		if !entered.Get() {
			viol = append(viol, V(k("call-not-served"), "the tool handler never started"))
			release.Set()
			vsched.Quiesce()
			return
		}
		// the peer is gone: its POST (if still open) and its stream
		cancel()
		if rp.Stream != nil {
			rp.Stream.CloseFromClient()
		}
		vsched.Quiesce()
		// the call travels on the POST's own connection (Streamable) or belongs to the session whose stream is gone (legacy SSE)
		if !ctxEnded.Get() {
			viol = append(viol, V(k("handler-context-survives-peer"), "the peer's connections are gone, but the context given to the tool handler has not ended (returned=%v), so what the server started for the call cannot be released; blocked: %v", returned.Get(), vsched.LiveThreads()))
		}
		obs.Add("ctxEnded=%v returned=%v", ctxEnded.Get(), returned.Get())
		if !returned.Get() {
			release.Set() // let the handler go so that the rest can be judged
			vsched.Quiesce()
		}
		if px != nil && !px.HandlerDone {
			viol = append(viol, V(k("request-goroutine-stuck"), "the server-side handling of the POST is still running after the peer is gone and the tool handler has returned; blocked: %v", vsched.LiveThreads()))
		}
		after := threadsSince(baseThreads, libraryThreads(vsched.LiveThreads()))
		if len(after) > 0 {
			viol = append(viol, V(k("goroutine-leak"), "after the peer's connections are gone these library goroutines are still alive: %v", after))
		}
		if p := pendingOf(r); p != 0 {
			viol = append(viol, V(k("pending-left"), "%d server->client requests pending", p))
		}
	})
	o := finishOutcome(res, obs, viol, true)
	cr.ObsKey = cr.Desc + o.ObsKey
	cr.Violations = o.Violations
	cr.Broken = o.Broken
	return cr
}

// c08RetryCancel: with retry configured the call spends most of its time waiting between
// attempts; a cancelled context (or a deadline) must end it at once, not at the next attempt.
func c08RetryCancel(tier string, i int) CaseResult {
	mode := []string{"sj", "ss", "ls"}[i%3]
	how := []string{"cancel", "deadline"}[i/3]
	cr := CaseResult{Desc: fmt.Sprintf("client=%s with retry, every attempt answered 503, %s during the wait between attempts", mode, how), Nontrivial: true}
	var viol []explore.Violation
	obs := &hx.Log{}
	k := func(s string) string { return fmt.Sprintf("%s:retry-%s:%s", s, how, mode) }
	res := vsched.Run(vsched.Config{}, func() {
		ss := newScriptedServer(mode)
		attempts := 0
		ss.onRequest = func(msg map[string]interface{}, raw string, w scriptWriter) bool {
			if m, _ := msg["method"].(string); m == "tools/call" {
				attempts++
				w.HTTP(503, "text/plain", "busy")
				return true
			}
			return false
		}
		cl, err := ss.connect(mcp.WithRetry(mcp.RetryConfig{MaxRetries: 5, InitialBackoff: 10 * time.Second, BackoffFactor: 2, MaxBackoff: time.Minute}))
		if err != nil {
			viol = append(viol, V("setup-handshake-fails", "setting the scenario up with well-behaved peers fails: %v", err))
			return
		}
		vsched.Quiesce()
		var ctx context.Context
		var cancel context.CancelFunc
		ctx, cancel = vcontext.WithCancel(context.Background())
		if how == "deadline" {
			// a deadline in virtual time: a timer of the harness cancels the context 3 s in, i.e. inside the first wait of 10 s
			vsched.Go("deadline", func() { vsched.Sleep(3 * time.Second); cancel() })
		}
		defer cancel()
		done := &hx.Flag{}
		var cerr error
		vsched.Go("caller", func() {
			rq := &mcp.CallToolRequest{}
			rq.Params.Name = "t"
			_, cerr = cl.CallTool(ctx, rq)
			done.Set()
		})
		vsched.Quiesce() // first attempt refused; the client now waits 10 s before the second
		if done.Get() {
			viol = append(viol, V(k("no-retry"), "the call returned (%v) after %d attempt(s) although retry is configured", cerr, attempts))
			return
		}
		if how == "cancel" {
			cancel()
			vsched.Quiesce()
		} else {
			vsched.Sleep(4 * time.Second) // past the deadline, 6 s before the wait would end
			vsched.Quiesce()
		}
		if !done.Get() {
			viol = append(viol, V(k("call-hangs"), "the call is still waiting for its next attempt although its context ended; blocked: %v", vsched.LiveThreads()))
		} else if cerr == nil {
			viol = append(viol, V(k("result-after-fault"), "the call returned a result although its context ended and every attempt was refused"))
		}
		if attempts != 1 {
			viol = append(viol, V(k("attempts"), "%d attempts were made, 1 expected before the context ended", attempts))
		}
		cl.Close()
		vsched.Quiesce()
		if leaked := libraryThreads(vsched.LiveThreads()); len(leaked) > 0 {
			viol = append(viol, V(k("goroutine-leak"), "after Close these library goroutines are still alive: %v", leaked))
		}
		obs.Add("attempts=%d", attempts)
		ss.stop()
	})
	o := finishOutcome(res, obs, viol, true)
	cr.ObsKey = cr.Desc + o.ObsKey
	cr.Violations = o.Violations
	cr.Broken = o.Broken
	return cr
}

func init() {
	RegisterEnum(&Enum{Name: "c08/server-release", Doc: "server side: peers connect, call and vanish; with no context function, one that derives from the given context, and one that returns a context built from scratch; the goroutines the server started for the connections are released",
		Count: func(string) int { return 9 }, Eval: c08ServerRelease})
	RegisterEnum(&Enum{Name: "c08/server-release-inflight", Doc: "server side: a peer vanishes while its call runs in a handler that only ends with its context (Streamable with SSE / JSON answers, stateless, sessions disabled; legacy SSE): the handler's context ends with the connection that carried the call, and what the server started for the peer is released",
		Count: func(string) int { return 6 }, Eval: c08ServerReleaseInflight})
	RegisterEnum(&Enum{Name: "c08/connect-fails", Doc: "the first exchange of a client fails (refused, reset, EOF before headers, 500, 404, a stream that ends at once; also with retry configured) while the caller's context stays alive; three attempts in a row: Initialize fails, Close returns, no goroutine or response body of the attempt is left",
		Count: func(string) int { return 21 }, Eval: c08ConnectFails})
	RegisterEnum(&Enum{Name: "c08/close-from-handler", Doc: "Close called from inside a notification handler (listening stream of a JSON / SSE Streamable client, answer stream of a call, stdout): it returns, a second Close returns, no goroutine or response body is left",
		Count: func(string) int { return 4 }, Eval: c08CloseFromHandler})
	RegisterEnum(&Enum{Name: "c08/retry-cancel", Doc: "clients with retry configured, every attempt answered 503: the context is cancelled (or its deadline passes) during the wait between two attempts; the call ends at once",
		Count: func(string) int { return 6 }, Eval: c08RetryCancel})
	RegisterEnum(&Enum{Name: "c08/get-refused", Doc: "Streamable client whose automatic listening stream is refused (405, 404, 400, 500, 503, 401, each with a body): calls work, and after Close no goroutine or response body of the refused exchange is left",
		Count: func(string) int { return 12 }, Eval: c08GetRefused})
	for _, cfg := range c08HsConfigs() {
		cfg := cfg
		RegisterScenario(&Scenario{Name: cfg.name(), Run: func(p []int, m []vsched.ChoicePoint) explore.Outcome { return c08Handshake(p, cfg) },
			Doc: fmt.Sprintf("%s client: Initialize pending against a server that stalls at %s || %s at an arbitrary point; then Close, leak accounting, late server answer", cfg.Mode, cfg.Stall, cfg.Fault)})
	}
}
