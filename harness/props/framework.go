// Package props contains one harness per property plus the small framework they share:
// registration of named scenarios (so that worker processes can re-create them), parallel
// depth-first exploration, sharded deterministic enumeration, evidence and replay files.
package props

import (
	"bufio"
	"encoding/json"
	"fmt"
	"os"
	"os/exec"
	"path/filepath"
	"runtime/debug"
	"sort"
	"strings"
	"sync"
	"time"

	"verif.local/engine/explore"
	"verif.local/engine/vsched"
)

// Scenario is a named family of controlled executions explored by DFS.
type Scenario struct {
	Name string
	Run  explore.RunFunc
	Doc  string
}

// Enum is a named deterministic enumeration: Cases(tier) yields the case list; Eval runs case i.
type Enum struct {
	Name  string
	Doc   string
	Count func(tier string) int
	Eval  func(tier string, i int) CaseResult
	// Describe (optional) writes case i out without evaluating it (used when evaluating it kills the process).
	Describe func(tier string, i int) string
}

// CaseResult of one enumerated case.
type CaseResult struct {
	Desc       string // written-out form of the case (sample)
	ObsKey     string
	Nontrivial bool
	Violations []explore.Violation
	Broken     string
	States     int // optional: BFS bookkeeping
	Trans      int
}

var (
	scenarios = map[string]*Scenario{}
	enums     = map[string]*Enum{}
	checks    = map[string]func(c *Ctx){}
)

func RegisterScenario(s *Scenario)            { scenarios[s.Name] = s }
func RegisterEnum(e *Enum)                    { enums[e.Name] = e }
func RegisterCheck(id string, f func(c *Ctx)) { checks[id] = f }

// curPOR is the sleep-set specification of the execution about to run (nil: plain DFS). A process
// runs one execution at a time, so a package variable is enough.
var curPOR *explore.PORItem

// cfgFor builds the scheduler configuration of a scenario execution.
func cfgFor(prefix []int) vsched.Config {
	c := vsched.Config{Prefix: prefix}
	if curPOR != nil {
		c.POR = true
		c.SleepAt = curPOR.SleepAt
		c.Sleep = curPOR.Sleep
		if c.Sleep == nil {
			c.SleepAt = -1
		}
	}
	return c
}

// porRun adapts a scenario to the POR explorer.
func porRun(sc *Scenario) explore.RunPORFunc {
	return func(it explore.PORItem) explore.Outcome {
		curPOR = &it
		defer func() { curPOR = nil }()
		return sc.Run(it.Prefix, nil)
	}
}

// Part is the per-scenario / per-enumeration breakdown written into the evidence file.
type Part struct {
	Name        string   `json:"name"`
	Kind        string   `json:"kind"`
	Doc         string   `json:"doc,omitempty"`
	Bounds      string   `json:"bounds,omitempty"`
	Executions  int      `json:"executions"`
	Nontrivial  int      `json:"nontrivial"`
	Distinct    int      `json:"distinct_outcomes"`
	MaxChoices  int      `json:"max_choice_points,omitempty"`
	Violations  int      `json:"violations"`
	Known       int      `json:"known_findings"`
	Capped      bool     `json:"capped"`
	States      int      `json:"states,omitempty"`
	Transitions int      `json:"transitions,omitempty"`
	Samples     []string `json:"samples,omitempty"`
	WallS       float64  `json:"wall_s"`
	Pruned      int      `json:"sleep_set_pruned,omitempty"`
	Broken      string   `json:"harness_broken,omitempty"`
}

// Known finding entry (known_findings.json).
type Known struct {
	Property string `json:"property"`
	Key      string `json:"key"`
	Status   string `json:"status"` // known | fixed
	Commit   string `json:"commit,omitempty"`
	What     string `json:"what"`
}

// Ctx is handed to a property's check function.
type Ctx struct {
	ID             string
	Tier           string
	Seed           int
	Level          string
	Workers        int
	Deadline       time.Time
	PartBudget     time.Duration // wall-clock share of one DFS part (0: only the overall deadline)
	Parts          []*Part
	Assume         []string
	Rule           string
	known          []Known
	knownHit       map[string]int
	newViol        []explore.Violation
	broken         string
	replayDir      string
	self           string
	mu             sync.Mutex
	nontrivialKeys map[string]bool
	samples        []interface{}
}

func (c *Ctx) maxKeep() int {
	if os.Getenv("VERIF_DEBUG_ALL") != "" {
		return 1 << 20
	}
	return 40
}

func (c *Ctx) Quick() bool { return c.Tier != "thorough" }

// Pick returns q in the quick tier and t in the thorough tier.
func (c *Ctx) Pick(q, t int) int {
	if c.Quick() {
		return q
	}
	return t
}

func (c *Ctx) isKnown(v explore.Violation) *Known {
	for i := range c.known {
		k := &c.known[i]
		if k.Property == c.ID && k.Status == "known" && globMatch(k.Key, v.Key) {
			return k
		}
	}
	return nil
}

// classify splits violations into known findings and new ones.
func (c *Ctx) classify(p *Part, vs []explore.Violation, scenario string) {
	c.mu.Lock()
	defer c.mu.Unlock()
	for _, v := range vs {
		if k := c.isKnown(v); k != nil {
			c.knownHit[k.Key]++
			p.Known++
			continue
		}
		p.Violations++
		if v.Detail == nil {
			v.Detail = map[string]interface{}{}
		}
		v.Detail["scenario"] = scenario
		if len(c.newViol) < c.maxKeep() {
			c.newViol = append(c.newViol, v)
		}
	}
}

// DFS explores a registered scenario within bounds, in parallel worker processes.
func (c *Ctx) DFS(name string, b explore.Bounds) *Part {
	sc := scenarios[name]
	if sc == nil {
		panic("unknown scenario " + name)
	}
	t0 := time.Now()
	p := &Part{Name: name, Kind: "dfs", Doc: sc.Doc, Bounds: fmt.Sprintf("preemptions<=%d deviations<=%d", b.Preempt, b.Dev)}
	c.Parts = append(c.Parts, p)
	if b.Deadline.IsZero() {
		b.Deadline = c.Deadline
		// no single part may eat the budget of the parts behind it (on a loaded machine the expensive
		// scenarios would otherwise starve everything that follows them)
		if pd := time.Now().Add(c.PartBudget); c.PartBudget > 0 && pd.Before(b.Deadline) {
			b.Deadline = pd
		}
	}
	st := explore.NewStats()
	if b.POR && os.Getenv("VERIF_INPROC") != "" {
		run := porRun(sc)
		dbg := func(it explore.PORItem) explore.Outcome {
			o := run(it)
			fmt.Printf("EXEC prefix=%v sleepAt=%d sleep=%v pruned=%v obs=%s\n", it.Prefix, it.SleepAt, sleepIDs(it.Sleep), o.Pruned, o.ObsKey)
			for i, cp := range o.Trace {
				fmt.Printf("   [%d] %s n=%d chosen=%d pre=%v threads=%v sleep=%v wild=%v\n", i, cp.Kind, cp.N, cp.Chosen, cp.Preempt, cp.Threads, sleepIDs(cp.Sleep), cp.Wild)
			}
			return o
		}
		explore.SubtreePOR(dbg, explore.PORItem{SleepAt: -1}, b, st)
	} else if b.POR {
		p.Bounds += " sleep-sets"
		roots := explore.FrontierPOR(porRun(sc), b, c.Workers*16, st)
		if st.Broken == "" && len(roots) > 0 && time.Now().Before(b.Deadline) {
			c.farmPOR(name, roots, b, st)
		}
	} else {
		roots := explore.Frontier(sc.Run, b, c.Workers*64, st)
		if st.Broken == "" && len(roots) > 0 && time.Now().Before(b.Deadline) {
			c.farm(name, roots, b, st)
		}
	}
	if time.Now().After(b.Deadline) {
		st.Capped = true
	}
	p.Pruned = st.Pruned
	c.finishPart(p, st, name, t0)
	return p
}

func (c *Ctx) finishPart(p *Part, st *explore.Stats, name string, t0 time.Time) {
	p.Executions = st.Executions
	p.Nontrivial = st.Nontrivial
	p.Distinct = len(st.Outcomes)
	p.MaxChoices = st.MaxChoices
	p.Capped = st.Capped
	p.WallS = time.Since(t0).Seconds()
	for i, k := range st.DistinctOutcomes() {
		if i >= 3 {
			break
		}
		if len(k) > 400 {
			k = k[:400] + "…"
		}
		p.Samples = append(p.Samples, k)
	}
	c.mu.Lock()
	for k := range st.Outcomes {
		c.nontrivialKeys[name+"/"+k] = true
	}
	if st.Broken != "" && c.broken == "" {
		c.broken = name + ": " + st.Broken
	}
	c.mu.Unlock()
	if st.Broken != "" {
		// the exploration of this part lost its footing (an execution did not replay): nothing it
		// observed is believed, neither silence nor alarms
		p.Broken = st.Broken
		return
	}
	c.classify(p, st.Violations, name)
	if st.ViolCount > len(st.Violations) {
		// more violations than were kept: count the surplus as new unless every kept one is known
		if p.Violations > 0 {
			p.Violations += st.ViolCount - len(st.Violations)
		} else {
			p.Known += st.ViolCount - len(st.Violations)
		}
	}
}

// DFSBoth explores a scenario twice: with sleep-set reduction at the deep bound b, and without any
// reduction at a shallow preemption bound. The reduction treats transitions on different
// synchronisation objects as commuting, which presumes that plain memory is data-race free; a
// change that shares state through an unsynchronised variable breaks exactly that assumption, and
// the plain pass (every interleaving of scheduling points within its bound) is what catches it.
func (c *Ctx) DFSBoth(name string, b explore.Bounds, plainP int) {
	b.POR = true
	c.DFS(name, b)
	capN := 1500
	if !c.Quick() {
		capN = 60000
	}
	c.DFS(name, explore.Bounds{Preempt: plainP, Dev: 0, MaxExec: capN})
}

type workReq struct {
	Scenario string           `json:"scenario"`
	Prefix   []int            `json:"prefix"`
	Bounds   explore.Bounds   `json:"bounds"`
	POR      *explore.PORItem `json:"por,omitempty"`
}

// farmPOR distributes sleep-set subtree roots over worker processes.
func (c *Ctx) farmPOR(name string, roots []explore.PORItem, b explore.Bounds, st *explore.Stats) {
	reqs := make([]workReq, len(roots))
	for i := range roots {
		reqs[i] = workReq{Scenario: name, Prefix: roots[i].Prefix, Bounds: b, POR: &roots[i]}
	}
	c.farmReqs(reqs, b, st)
}

// farm distributes subtree roots over worker processes.
func (c *Ctx) farm(name string, roots [][]int, b explore.Bounds, st *explore.Stats) {
	reqs := make([]workReq, len(roots))
	for i := range roots {
		reqs[i] = workReq{Scenario: name, Prefix: roots[i], Bounds: b}
	}
	c.farmReqs(reqs, b, st)
}

func (c *Ctx) farmReqs(roots []workReq, b explore.Bounds, st *explore.Stats) {
	jobs := make(chan workReq, len(roots))
	for _, r := range roots {
		jobs <- r
	}
	close(jobs)
	var wg sync.WaitGroup
	var mu sync.Mutex
	n := c.Workers
	if n > len(roots) {
		n = len(roots)
	}
	for w := 0; w < n; w++ {
		wg.Add(1)
		go func() {
			defer wg.Done()
			cmd := exec.Command(c.self, "-worker")
			cmd.Env = append(os.Environ(), "GOMAXPROCS=1")
			cmd.Stderr = os.Stderr
			in, _ := cmd.StdinPipe()
			out, _ := cmd.StdoutPipe()
			if err := cmd.Start(); err != nil {
				mu.Lock()
				st.Broken = "cannot start worker: " + err.Error()
				mu.Unlock()
				return
			}
			rd := bufio.NewReaderSize(out, 1<<20)
			enc := json.NewEncoder(in)
			for pre := range jobs {
				mu.Lock()
				over := b.MaxExec > 0 && st.Executions+st.Pruned >= b.MaxExec
				if over {
					st.Capped = true
				}
				mu.Unlock()
				if over {
					continue
				}
				if time.Now().After(b.Deadline) {
					mu.Lock()
					st.Capped = true
					mu.Unlock()
					continue
				}
				if b.MaxExec > 0 {
					pre.Bounds.MaxExec = b.MaxExec/8 + 1 // per subtree root; the global cap is enforced above
				}
				enc.Encode(pre)
				line, err := rd.ReadBytes('\n')
				if err != nil {
					mu.Lock()
					if st.Broken == "" {
						st.Broken = fmt.Sprintf("worker died on prefix %v: %v", pre.Prefix, err)
					}
					mu.Unlock()
					break
				}
				var ws explore.Stats
				if err := json.Unmarshal(line, &ws); err != nil {
					mu.Lock()
					st.Broken = "bad worker output: " + err.Error()
					mu.Unlock()
					break
				}
				mu.Lock()
				st.Merge(&ws)
				mu.Unlock()
			}
			in.Close()
			cmd.Wait()
		}()
	}
	wg.Wait()
}

// WorkerLoop serves DFS and enumeration requests on stdin (one JSON per line).
func WorkerLoop() {
	// unbounded recursion should kill a worker quickly and cheaply (the default limit is 1 GB)
	debug.SetMaxStack(256 << 20)
	rd := bufio.NewReaderSize(os.Stdin, 1<<20)
	wr := bufio.NewWriter(os.Stdout)
	for {
		line, err := rd.ReadBytes('\n')
		if len(line) == 0 && err != nil {
			return
		}
		var probe struct {
			Scenario string `json:"scenario"`
			Enum     string `json:"enum"`
		}
		json.Unmarshal(line, &probe)
		if probe.Enum != "" {
			var rq enumReq
			json.Unmarshal(line, &rq)
			res := runEnumShard(rq)
			b, _ := json.Marshal(res)
			wr.Write(b)
			wr.WriteByte('\n')
			wr.Flush()
			continue
		}
		var rq workReq
		if err := json.Unmarshal(line, &rq); err != nil {
			fmt.Fprintln(os.Stderr, "worker: bad request", err)
			return
		}
		sc := scenarios[rq.Scenario]
		st := explore.NewStats()
		if sc == nil {
			st.Broken = "unknown scenario " + rq.Scenario
		} else if rq.POR != nil {
			explore.SubtreePOR(porRun(sc), *rq.POR, rq.Bounds, st)
		} else {
			explore.Subtree(sc.Run, rq.Prefix, rq.Bounds, st)
		}
		b, _ := json.Marshal(st)
		wr.Write(b)
		wr.WriteByte('\n')
		wr.Flush()
	}
}

type enumReq struct {
	Enum         string `json:"enum"`
	Tier         string `json:"tier"`
	Shard        int    `json:"shard"`
	Of           int    `json:"of"`
	DeadlineUnix int64  `json:"deadline"`
	From         int    `json:"from,omitempty"`  // first case index of the shard to evaluate (resume after a case that killed the worker)
	Only         bool   `json:"only,omitempty"`  // evaluate case From alone
	Trace        bool   `json:"trace,omitempty"` // announce every case index on stderr before evaluating it
	Until        int    `json:"until,omitempty"` // stop before this case index (0: no limit)
}

type enumRes struct {
	Cases      int                 `json:"cases"`
	Nontrivial int                 `json:"nontrivial"`
	Outcomes   map[string]int      `json:"outcomes"`
	Violations []explore.Violation `json:"violations"`
	ViolCount  int                 `json:"viol_count"`
	Samples    []string            `json:"samples"`
	Capped     bool                `json:"capped"`
	Broken     string              `json:"broken"`
	States     int                 `json:"states"`
	Trans      int                 `json:"trans"`
}

func runEnumShard(rq enumReq) *enumRes {
	res := &enumRes{Outcomes: map[string]int{}}
	e := enums[rq.Enum]
	if e == nil {
		res.Broken = "unknown enum " + rq.Enum
		return res
	}
	n := e.Count(rq.Tier)
	dl := time.Unix(rq.DeadlineUnix, 0)
	perKey := map[string]int{}
	for i := rq.Shard; i < n; i += rq.Of {
		if i < rq.From {
			continue
		}
		if rq.Only && i != rq.From {
			break
		}
		if rq.Until > 0 && i >= rq.Until {
			break
		}
		if rq.Trace {
			fmt.Fprintf(os.Stderr, "ENUM-AT %d\n", i)
		}
		if time.Now().After(dl) {
			res.Capped = true
			break
		}
		r := e.Eval(rq.Tier, i)
		res.Cases++
		if r.Nontrivial {
			res.Nontrivial++
		}
		res.Outcomes[r.ObsKey]++
		res.States += r.States
		res.Trans += r.Trans
		if r.Broken != "" && res.Broken == "" {
			res.Broken = r.Broken
		}
		if len(res.Samples) < 2 && r.Desc != "" {
			res.Samples = append(res.Samples, r.Desc)
		}
		for _, v := range r.Violations {
			res.ViolCount++
			if v.Detail == nil {
				v.Detail = map[string]interface{}{}
			}
			v.Detail["case_index"] = i
			v.Detail["case"] = r.Desc
			// keep at most two witnesses per key, but every key: a flood of one kind must never hide another
			perKey[v.Key]++
			if perKey[v.Key] <= 2 || os.Getenv("VERIF_DEBUG_ALL") != "" {
				res.Violations = append(res.Violations, v)
			}
		}
	}
	return res
}

// spawnEnum runs one enumeration request in a fresh worker process; stderr is kept (tail) for the
// post-mortem of a worker that dies.
func (c *Ctx) spawnEnum(rq enumReq) (*enumRes, string, error) {
	cmd := exec.Command(c.self, "-worker")
	cmd.Env = append(os.Environ(), "GOMAXPROCS=2")
	var errBuf tailBuf
	cmd.Stderr = &errBuf
	in, _ := cmd.StdinPipe()
	out, _ := cmd.StdoutPipe()
	if err := cmd.Start(); err != nil {
		return nil, "", err
	}
	json.NewEncoder(in).Encode(rq)
	in.Close()
	var r enumRes
	dec := json.NewDecoder(bufio.NewReaderSize(out, 1<<20))
	err := dec.Decode(&r)
	cmd.Wait()
	if err != nil {
		return nil, errBuf.String(), err
	}
	if !rq.Trace {
		os.Stderr.WriteString(errBuf.String())
	}
	return &r, errBuf.String(), nil
}

// tailBuf keeps the first 64 KiB and the last 64 KiB written to it.
type tailBuf struct {
	mu   sync.Mutex
	head []byte
	tail []byte
}

func (t *tailBuf) Write(p []byte) (int, error) {
	t.mu.Lock()
	defer t.mu.Unlock()
	n := len(p)
	if len(t.head) < 1<<16 {
		k := 1<<16 - len(t.head)
		if k > len(p) {
			k = len(p)
		}
		t.head = append(t.head, p[:k]...)
		p = p[k:]
	}
	t.tail = append(t.tail, p...)
	if len(t.tail) > 1<<16 {
		t.tail = t.tail[len(t.tail)-1<<16:]
	}
	return n, nil
}

func (t *tailBuf) String() string {
	t.mu.Lock()
	defer t.mu.Unlock()
	return string(t.head) + string(t.tail)
}

// runShardIsolated evaluates one shard in worker processes. A case that kills its worker with a
// Go runtime fatal error raised inside the library (stack exhaustion from unbounded recursion,
// concurrent map access) is isolated: the shard is run again announcing every case, the dying case
// is evaluated alone twice more, and when it dies the same way both times it is reported as a
// violation of that case; the rest of the shard is then resumed behind it. Any other death of a
// worker leaves the part broken.
func (c *Ctx) runShardIsolated(rq enumReq) *enumRes {
	total := &enumRes{Outcomes: map[string]int{}}
	merge := func(r *enumRes) {
		total.Cases += r.Cases
		total.Nontrivial += r.Nontrivial
		total.States += r.States
		total.Trans += r.Trans
		total.ViolCount += r.ViolCount
		total.Capped = total.Capped || r.Capped
		for k, v := range r.Outcomes {
			total.Outcomes[k] += v
		}
		total.Violations = append(total.Violations, r.Violations...)
		if len(total.Samples) < 2 {
			total.Samples = append(total.Samples, r.Samples...)
		}
		if r.Broken != "" && total.Broken == "" {
			total.Broken = r.Broken
		}
	}
	for deaths := 0; ; deaths++ {
		r, _, err := c.spawnEnum(rq)
		if err == nil {
			merge(r)
			return total
		}
		if deaths >= 8 {
			total.Broken = fmt.Sprintf("enum worker %d died %d times", rq.Shard, deaths+1)
			return total
		}
		// which case kills it?
		tr := rq
		tr.Trace = true
		_, log, err2 := c.spawnEnum(tr)
		if err2 == nil {
			total.Broken = fmt.Sprintf("enum worker %d died (%v) but not when run again", rq.Shard, err)
			return total
		}
		at := -1
		for _, l := range strings.Split(log, "\n") {
			var i int
			if n, _ := fmt.Sscanf(l, "ENUM-AT %d", &i); n == 1 {
				at = i
			}
		}
		if at < 0 {
			total.Broken = fmt.Sprintf("enum worker %d died before its first case: %v", rq.Shard, err)
			return total
		}
		one := rq
		one.From, one.Only = at, true
		_, log1, e1 := c.spawnEnum(one)
		_, log2, e2 := c.spawnEnum(one)
		f1, fn1 := libraryFatal(log1)
		f2, fn2 := libraryFatal(log2)
		if e1 == nil || e2 == nil || f1 == "" || f1 != f2 || fn1 != fn2 {
			total.Broken = fmt.Sprintf("enum worker %d died at case %d (%v); alone the case gives %q/%q", rq.Shard, at, err, f1, f2)
			return total
		}
		// results of the cases before the dying one
		if at > rq.From {
			pre := rq
			pre.Trace = false
			// cases rq.From .. at-1 of this shard: evaluated again in a worker that stops before 'at'
			pre.DeadlineUnix = rq.DeadlineUnix
			r0 := c.spawnEnumUntil(pre, at)
			if r0 != nil {
				merge(r0)
			}
		}
		total.Cases++
		total.ViolCount++
		total.Outcomes["fatal:"+f1]++
		total.Violations = append(total.Violations, explore.Violation{
			Key:    fmt.Sprintf("process-killed:%s:%s", f1, fn1),
			Msg:    fmt.Sprintf("evaluating case %d of %s kills the process with a Go runtime fatal error (%s) raised in %s; reproduced twice in a fresh process", at, rq.Enum, f1, fn1),
			Detail: map[string]interface{}{"case_index": at, "case": describeCase(rq.Enum, rq.Tier, at)},
		})
		rq.From = at + 1
	}
}

func describeCase(enum, tier string, i int) string {
	if e := enums[enum]; e != nil && e.Describe != nil {
		return e.Describe(tier, i)
	}
	return fmt.Sprintf("case %d of %s", i, enum)
}

// spawnEnumUntil evaluates the cases of the shard in [rq.From, until).
func (c *Ctx) spawnEnumUntil(rq enumReq, until int) *enumRes {
	rq.Until = until
	r, _, err := c.spawnEnum(rq)
	if err != nil {
		return nil
	}
	return r
}

// libraryFatal recognises, in the stderr of a dead worker, a Go runtime fatal error whose crashing
// goroutine was executing library code; it returns the class of the error and the innermost
// library function.
func libraryFatal(log string) (string, string) {
	class := ""
	switch {
	case strings.Contains(log, "goroutine stack exceeds"):
		class = "stack-overflow"
	case strings.Contains(log, "fatal error: concurrent map"):
		class = "concurrent-map-access"
	default:
		return "", ""
	}
	const mod = "trpc.group/trpc-go/trpc-mcp-go"
	i := strings.Index(log, "\ngoroutine ")
	if i < 0 {
		return "", ""
	}
	// the first goroutine printed is the one that crashed; its first library frame names the culprit
	for n, l := range strings.Split(log[i+1:], "\n") {
		if n > 0 && l == "" {
			break
		}
		if strings.HasPrefix(l, mod) {
			fn := l
			if k := strings.LastIndex(fn, "("); k > 0 {
				fn = fn[:k]
			}
			return class, strings.TrimPrefix(fn, mod)
		}
	}
	return "", ""
}

// Enumerate runs a registered enumeration, sharded over worker processes.
func (c *Ctx) Enumerate(name string) *Part {
	e := enums[name]
	if e == nil {
		panic("unknown enum " + name)
	}
	t0 := time.Now()
	p := &Part{Name: name, Kind: "enumeration", Doc: e.Doc}
	c.Parts = append(c.Parts, p)
	n := e.Count(c.Tier)
	shards := c.Workers
	if n < shards*4 {
		shards = 1
	}
	results := make([]*enumRes, shards)
	var wg sync.WaitGroup
	for s := 0; s < shards; s++ {
		wg.Add(1)
		go func(s int) {
			defer wg.Done()
			rq := enumReq{Enum: name, Tier: c.Tier, Shard: s, Of: shards, DeadlineUnix: c.Deadline.Unix()}
			if os.Getenv("VERIF_INPROC") != "" {
				results[s] = runEnumShard(rq)
				return
			}
			results[s] = c.runShardIsolated(rq)
		}(s)
	}
	wg.Wait()
	outcomes := map[string]int{}
	var viol []explore.Violation
	violCount := 0
	for _, r := range results {
		p.Executions += r.Cases + r.Trans
		p.Nontrivial += r.Nontrivial
		p.States += r.States
		p.Transitions += r.Trans
		p.Capped = p.Capped || r.Capped
		for k, v := range r.Outcomes {
			outcomes[k] += v
		}
		viol = append(viol, r.Violations...)
		violCount += r.ViolCount
		if len(p.Samples) < 3 {
			p.Samples = append(p.Samples, r.Samples...)
		}
		if r.Broken != "" {
			c.mu.Lock()
			if c.broken == "" {
				c.broken = name + ": " + r.Broken
			}
			c.mu.Unlock()
		}
	}
	p.Distinct = len(outcomes)
	if p.Transitions > 0 && p.States == 0 {
		p.States = p.Distinct // model states are the distinct outcome keys of the enumeration
	}
	c.mu.Lock()
	for k := range outcomes {
		c.nontrivialKeys[name+"/"+k] = true
	}
	c.mu.Unlock()
	p.Bounds = fmt.Sprintf("%d cases (complete enumeration of the stated alphabet)", n)
	if p.Executions < n {
		p.Capped = true
	}
	p.WallS = time.Since(t0).Seconds()
	c.classify(p, viol, name)
	if violCount > len(viol) {
		if p.Violations > 0 {
			p.Violations += violCount - len(viol)
		} else {
			p.Known += violCount - len(viol)
		}
	}
	return p
}

// Main runs one property check and returns the process exit code.
func Main(id, tier string, seed int, verifDir, self string, budget time.Duration) int {
	f := checks[id]
	if f == nil {
		fmt.Printf("HARNESS-BROKEN unknown property %s\n", id)
		return 2
	}
	t0 := time.Now()
	c := &Ctx{ID: id, Tier: tier, Seed: seed, Workers: 16, self: self, knownHit: map[string]int{},
		nontrivialKeys: map[string]bool{}, replayDir: filepath.Join(verifDir, "replays", id)}
	if w := os.Getenv("VERIF_WORKERS"); w != "" {
		fmt.Sscanf(w, "%d", &c.Workers)
	}
	c.Deadline = t0.Add(budget)
	c.PartBudget = budget / 6
	if b, err := os.ReadFile(filepath.Join(verifDir, "known_findings.json")); err == nil {
		var kf struct {
			Findings []Known `json:"findings"`
		}
		if err := json.Unmarshal(b, &kf); err != nil {
			fmt.Printf("HARNESS-BROKEN known_findings.json: %v\n", err)
			return 2
		}
		c.known = kf.Findings
	}
	f(c)
	wall := time.Since(t0).Seconds()

	// evidence
	evals, nontriv, states, trans := 0, 0, 0, 0
	exhaustive := true
	var samples []interface{}
	for _, p := range c.Parts {
		evals += p.Executions
		nontriv += p.Nontrivial
		states += p.States
		trans += p.Transitions
		if p.Capped {
			exhaustive = false
		}
		for i, s := range p.Samples {
			if i < 2 {
				samples = append(samples, map[string]string{"part": p.Name, "case": s})
			}
		}
	}
	samples = append(samples, c.samples...)
	if len(samples) == 0 {
		samples = append(samples, "none")
	}
	cov := map[string]interface{}{
		"evaluations":           evals,
		"distinct_nontrivial":   len(c.nontrivialKeys),
		"nontrivial_executions": nontriv,
		"rule":                  c.Rule,
		"samples":               samples,
		"exhaustive":            exhaustive,
		"parts":                 c.Parts,
	}
	if states > 0 {
		cov["states"] = states
		cov["transitions"] = trans
		cov["traces_validated_against_impl"] = trans
	}
	var knownLines []string
	keys := make([]string, 0, len(c.knownHit))
	for k := range c.knownHit {
		keys = append(keys, k)
	}
	sort.Strings(keys)
	for _, k := range keys {
		for _, kn := range c.known {
			if kn.Key == k && kn.Property == id {
				knownLines = append(knownLines, fmt.Sprintf("KNOWN-FINDING: property=%s %s [%s] (seen %d times)", id, kn.What, kn.Key, c.knownHit[k]))
			}
		}
	}
	cov["known_findings_seen"] = knownLines
	ev := map[string]interface{}{
		"property_id": id, "tier": tier, "seed": seed, "level": c.Level, "coverage": cov,
		"assumptions": c.Assume, "wall_s": wall, "violations": len(c.newViol),
	}
	os.MkdirAll(filepath.Join(verifDir, "evidence"), 0o755)
	eb, _ := json.MarshalIndent(ev, "", " ")
	if err := os.WriteFile(filepath.Join(verifDir, "evidence", id+".json"), eb, 0o644); err != nil {
		fmt.Printf("HARNESS-BROKEN cannot write evidence: %v\n", err)
		return 2
	}
	for _, p := range c.Parts {
		fmt.Printf("part %-38s %-11s exec=%-8d distinct=%-6d viol=%d known=%d capped=%v %.1fs  %s\n", p.Name, p.Kind, p.Executions, p.Distinct, p.Violations, p.Known, p.Capped, p.WallS, p.Bounds)
	}
	for _, l := range knownLines {
		fmt.Println(l)
	}
	if c.broken != "" && len(c.newViol) == 0 {
		fmt.Printf("HARNESS-BROKEN %s\n", c.broken)
		return 2
	}
	if len(c.newViol) > 0 {
		if c.broken != "" {
			// violations come only from parts that were explored soundly; the part named here was discarded
			fmt.Printf("NOTE part discarded (could not be explored deterministically): %s\n", c.broken)
		}
		os.MkdirAll(c.replayDir, 0o755)
		seen := map[string]bool{}
		n := 0
		for _, v := range c.newViol {
			if seen[v.Key] {
				continue
			}
			seen[v.Key] = true
			path := filepath.Join(c.replayDir, fmt.Sprintf("%s-%d.json", sanitize(v.Key), n))
			n++
			rb, _ := json.MarshalIndent(map[string]interface{}{"property": id, "tier": tier, "violation": v}, "", " ")
			os.WriteFile(path, rb, 0o644)
			msg := v.Msg
			if len(msg) > 300 {
				msg = msg[:300] + "…"
			}
			fmt.Printf("VIOLATION property=%s replay=%s key=%s :: %s\n", id, path, v.Key, msg)
		}
		return 1
	}
	fmt.Printf("OK property=%s tier=%s evaluations=%d distinct=%d exhaustive=%v wall=%.1fs\n", id, tier, evals, len(c.nontrivialKeys), exhaustive, wall)
	return 0
}

func sanitize(s string) string {
	var sb strings.Builder
	for _, r := range s {
		if r >= 'a' && r <= 'z' || r >= 'A' && r <= 'Z' || r >= '0' && r <= '9' || r == '-' || r == '_' {
			sb.WriteRune(r)
		} else {
			sb.WriteByte('_')
		}
		if sb.Len() > 60 {
			break
		}
	}
	return sb.String()
}

// Replay re-runs a stored violation twice and reports whether it reproduces identically.
func Replay(path string) int {
	b, err := os.ReadFile(path)
	if err != nil {
		fmt.Println("HARNESS-BROKEN", err)
		return 2
	}
	var r struct {
		Property  string            `json:"property"`
		Tier      string            `json:"tier"`
		Violation explore.Violation `json:"violation"`
	}
	if err := json.Unmarshal(b, &r); err != nil {
		fmt.Println("HARNESS-BROKEN", err)
		return 2
	}
	name, _ := r.Violation.Detail["scenario"].(string)
	if sc := scenarios[name]; sc != nil {
		o1 := sc.Run(r.Violation.Choices, nil)
		o2 := sc.Run(r.Violation.Choices, nil)
		k1, k2 := violKeys(o1.Violations), violKeys(o2.Violations)
		fmt.Printf("replay 1: %v\nreplay 2: %v\n", k1, k2)
		for _, v := range o1.Violations {
			fmt.Printf("  %s: %s\n", v.Key, v.Msg)
		}
		if fmt.Sprint(k1) != fmt.Sprint(k2) || fmt.Sprint(choices(o1.Trace)) != fmt.Sprint(choices(o2.Trace)) {
			fmt.Println("HARNESS-BROKEN replay is not deterministic")
			return 2
		}
		if contains(k1, r.Violation.Key) {
			fmt.Printf("VIOLATION property=%s replay=%s (reproduced twice)\n", r.Property, path)
			return 1
		}
		fmt.Println("not reproduced on this tree")
		return 0
	}
	if e := enums[name]; e != nil {
		idx := int(r.Violation.Detail["case_index"].(float64))
		if strings.HasPrefix(r.Violation.Key, "process-killed:") {
			fmt.Printf("case %d: %s\nthe violation is that evaluating this case kills the process; a reproduction ends this replay with the Go runtime's fatal error\n", idx, describeCase(name, r.Tier, idx))
		}
		r1 := e.Eval(r.Tier, idx)
		r2 := e.Eval(r.Tier, idx)
		k1, k2 := violKeys(r1.Violations), violKeys(r2.Violations)
		fmt.Printf("case %d: %s\nreplay 1: %v\nreplay 2: %v\n", idx, r1.Desc, k1, k2)
		for _, v := range r1.Violations {
			fmt.Printf("  %s: %s\n", v.Key, v.Msg)
		}
		if fmt.Sprint(k1) != fmt.Sprint(k2) {
			fmt.Println("HARNESS-BROKEN replay is not deterministic")
			return 2
		}
		if contains(k1, r.Violation.Key) {
			fmt.Printf("VIOLATION property=%s replay=%s (reproduced twice)\n", r.Property, path)
			return 1
		}
		fmt.Println("not reproduced on this tree")
		return 0
	}
	fmt.Println("HARNESS-BROKEN unknown scenario in replay file:", name)
	return 2
}

func violKeys(vs []explore.Violation) []string {
	var out []string
	for _, v := range vs {
		out = append(out, v.Key)
	}
	sort.Strings(out)
	return out
}

func choices(tr []vsched.ChoicePoint) []int {
	out := make([]int, len(tr))
	for i, c := range tr {
		out[i] = c.Chosen
	}
	return out
}

func contains(xs []string, x string) bool {
	for _, y := range xs {
		if y == x {
			return true
		}
	}
	return false
}

// V is a convenience constructor.
func V(key, format string, a ...interface{}) explore.Violation {
	return explore.Violation{Key: key, Msg: fmt.Sprintf(format, a...)}
}

// DebugScenario explores one scenario and prints statistics (development aid).
func DebugScenario(name string, p, d int, self string, por bool) {
	c := &Ctx{ID: "debug", Tier: "quick", Workers: 16, self: self, knownHit: map[string]int{}, nontrivialKeys: map[string]bool{}}
	c.Deadline = time.Now().Add(10 * time.Minute)
	t0 := time.Now()
	part := c.DFS(name, explore.Bounds{Preempt: p, Dev: d, POR: por})
	fmt.Printf("%s P<=%d D<=%d por=%v: exec=%d pruned=%d distinct=%d maxchoices=%d viol=%d capped=%v %.1fs\n", name, p, d, por, part.Executions, part.Pruned, part.Distinct, part.MaxChoices, part.Violations, part.Capped, time.Since(t0).Seconds())
	keys := []string{}
	for k := range c.nontrivialKeys {
		keys = append(keys, k)
	}
	sort.Strings(keys)
	if os.Getenv("VERIF_SHOW_OUTCOMES") != "" {
		for _, k := range keys {
			fmt.Println("  outcome:", k)
		}
	}
	for _, v := range c.newViol {
		fmt.Printf("  VIOL %s: %s\n", v.Key, v.Msg)
	}
	for _, s := range part.Samples {
		fmt.Println("  sample:", s)
	}
}

// DebugEnum runs one enumeration and prints statistics (development aid).
func DebugEnum(name, tier, self string) {
	c := &Ctx{ID: "debug", Tier: tier, Workers: 16, self: self, knownHit: map[string]int{}, nontrivialKeys: map[string]bool{}}
	c.Deadline = time.Now().Add(20 * time.Minute)
	part := c.Enumerate(name)
	fmt.Printf("%s: cases=%d distinct=%d viol=%d capped=%v %.1fs\n", name, part.Executions, part.Distinct, part.Violations, part.Capped, part.WallS)
	seen := map[string]int{}
	for _, v := range c.newViol {
		seen[v.Key]++
		if seen[v.Key] <= 2 || os.Getenv("VERIF_DEBUG_ALL") != "" {
			fmt.Printf("  VIOL %s: %s   [case %v]\n", v.Key, truncate(v.Msg, 300), v.Detail["case"])
		}
	}
	if c.broken != "" {
		fmt.Println("  BROKEN:", c.broken)
	}
	if os.Getenv("VERIF_SHOW_OUTCOMES") != "" {
		keys := []string{}
		for k := range c.nontrivialKeys {
			keys = append(keys, k)
		}
		sort.Strings(keys)
		for _, k := range keys {
			fmt.Println("  outcome:", k)
		}
	}
}

// globMatch matches s against a pattern in which '*' stands for any (possibly empty) substring.
func globMatch(pat, s string) bool {
	if !strings.Contains(pat, "*") {
		return pat == s
	}
	parts := strings.Split(pat, "*")
	if !strings.HasPrefix(s, parts[0]) {
		return false
	}
	s = s[len(parts[0]):]
	for i := 1; i < len(parts)-1; i++ {
		k := strings.Index(s, parts[i])
		if k < 0 {
			return false
		}
		s = s[k+len(parts[i]):]
	}
	return strings.HasSuffix(s, parts[len(parts)-1])
}

func sleepIDs(sl []vsched.Sleeper) []int {
	var out []int
	for _, x := range sl {
		out = append(out, x.Thread)
	}
	return out
}
