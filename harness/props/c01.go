package props

import (
	"context"
	"encoding/json"
	"errors"
	"fmt"
	"io"
	"net"
	"net/http"
	"os"
	"sort"
	"strings"
	"syscall"

	mcp "trpc.group/trpc-go/trpc-mcp-go"
	"verif.local/engine/explore"
	"verif.local/engine/vsched"
	"verif.local/harness/hx"
)

// C01 — every call gets exactly one answer, and it is its own.

type c01Cfg struct {
	mode    string
	clients int // number of library clients
	callers int // caller threads per client
	calls   int // sequential calls per caller
	mixed   bool
	noise   bool // while the calls are in flight the server also sends a notification to the caller's session (same stream as the answers on legacy SSE)
}

func init() {
	for _, mode := range []string{"sj", "ss", "sl", "sd", "ls", "io"} {
		for _, cfg := range []c01Cfg{{mode, 1, 2, 1, false, false}, {mode, 1, 3, 1, false, false}, {mode, 1, 2, 2, false, false}, {mode, 2, 1, 1, false, false}, {mode, 1, 3, 1, true, false}, {mode, 1, 2, 1, false, true}} {
			cfg := cfg
			if cfg.clients == 2 && mode == "io" {
				continue // a stdio server has exactly one peer
			}
			name := fmt.Sprintf("c01/%s/%dc-%dx%d", mode, cfg.clients, cfg.callers, cfg.calls)
			if cfg.mixed {
				name = fmt.Sprintf("c01/%s/mixed", mode)
			}
			if cfg.noise {
				if mode != "ls" && mode != "ss" {
					continue
				}
				name = fmt.Sprintf("c01/%s/noise", mode)
			}
			RegisterScenario(&Scenario{Name: name, Run: func(p []int, m []vsched.ChoicePoint) explore.Outcome { return c01Run(p, cfg) },
				Doc: fmt.Sprintf("%d client(s) x %d concurrent caller threads x %d calls on mode %s; echo tool with per-call nonce", cfg.clients, cfg.callers, cfg.calls, mode)})
		}
	}
	RegisterEnum(&Enum{Name: "c01/ids", Doc: "request id classes x transports, reference peer on the raw wire and library clients with seeded id counters",
		Count: func(tier string) int { return len(c01IDCases()) }, Eval: c01IDEval})
	RegisterEnum(&Enum{Name: "c01/backpressure", Doc: "legacy SSE: N in-flight requests while the stream reader is stalled (event queue capacity 100)",
		Count: func(tier string) int { return 4 }, Eval: c01Backpressure})
	RegisterCheck("C01", func(c *Ctx) {
		c.Level = "exploration"
		c.Rule = "DFS over all schedules within the preemption bound of concurrent CallTool/GetPrompt/ReadResource on real clients and servers (every transport/mode); an execution is distinct by (per-call outcome, handler invocation order, wire response order); plus complete enumeration of id classes x transports, of the back-pressure sizes and of answer sizes across the 4 KiB / 64 KiB / 1 MiB boundaries x operation kinds x transports"
		c.Assume = append(c.Assume, "net/http and OS pipes replaced by memnet", "handshake prelude runs under the default schedule", "sleep-set partial-order reduction (DESIGN 2.8): a class of executions that differ only in the order of independent transitions is explored once; data-race freedom of plain memory is assumed for the reduction (C20 checks it)", "quick: 2 callers P<=2, mixed kinds and two clients P<=1; thorough: P<=4 / 3 callers / 2 calls per caller P<=3")
		c.Enumerate("c01/ids")
		c.Enumerate("c01/backpressure")
		c.Enumerate("c01/sizes")
		c.Enumerate("c01/lost-response")
		for _, mode := range []string{"sj", "ss", "sl", "sd", "ls", "io"} {
			c.DFSBoth(fmt.Sprintf("c01/%s/1c-2x1", mode), explore.Bounds{Preempt: c.Pick(2, 4), Dev: c.Pick(1, 2)}, map[bool]int{true: 0, false: 1}[mode == "ls" || mode == "io"])
			c.DFS(fmt.Sprintf("c01/%s/mixed", mode), explore.Bounds{Preempt: c.Pick(1, 3), Dev: 1, POR: true})
			if mode != "io" {
				c.DFS(fmt.Sprintf("c01/%s/2c-1x1", mode), explore.Bounds{Preempt: c.Pick(1, 3), Dev: 1, POR: true})
			}
			c.DFS(fmt.Sprintf("c01/%s/errors", mode), explore.Bounds{Preempt: c.Pick(1, 2), Dev: 0, POR: true, MaxExec: c.Pick(1500, 60000)})
			c.DFS(fmt.Sprintf("c01/%s/ops", mode), explore.Bounds{Preempt: c.Pick(1, 2), Dev: 0, POR: true, MaxExec: c.Pick(2500, 100000)})
			if mode == "ls" || mode == "ss" {
				c.DFS(fmt.Sprintf("c01/%s/noise", mode), explore.Bounds{Preempt: c.Pick(2, 3), Dev: 1, POR: true, MaxExec: c.Pick(6000, 200000)})
			}
			if !c.Quick() {
				c.DFS(fmt.Sprintf("c01/%s/1c-3x1", mode), explore.Bounds{Preempt: 3, Dev: 1, POR: true})
				c.DFS(fmt.Sprintf("c01/%s/1c-2x2", mode), explore.Bounds{Preempt: 3, Dev: 1, POR: true})
			}
		}
	})
}

type wireMsg struct {
	ID     json.RawMessage `json:"id"`
	Method string          `json:"method"`
	Params json.RawMessage `json:"params"`
	Result json.RawMessage `json:"result"`
	Error  json.RawMessage `json:"error"`
}

// wireTraffic extracts client->server requests and server->client responses from the recorded
// environment, independent of the library's parsers.
func wireTraffic(r *Rig) (reqs []wireMsg, resps []wireMsg, bad []string) {
	parse := func(b []byte, into *[]wireMsg) {
		var m wireMsg
		if err := json.Unmarshal(b, &m); err != nil {
			bad = append(bad, fmt.Sprintf("unparsable frame %q", truncate(string(b), 80)))
			return
		}
		*into = append(*into, m)
	}
	if r.Fab != nil {
		for _, x := range r.Fab.Log() {
			if x.Method == "POST" && len(x.ReqBody) > 0 {
				var m wireMsg
				if json.Unmarshal(x.ReqBody, &m) == nil && m.Method != "" && len(m.ID) > 0 {
					reqs = append(reqs, m)
				}
			}
			ct := x.RespHeader.Get("Content-Type")
			if strings.Contains(ct, "text/event-stream") {
				for _, d := range hx.DataFrames(x.Body()) {
					var m wireMsg
					if json.Unmarshal([]byte(d), &m) == nil && m.Method == "" && len(m.ID) > 0 {
						resps = append(resps, m)
					} else if json.Unmarshal([]byte(d), &m) != nil && !strings.HasPrefix(d, "/") {
						bad = append(bad, fmt.Sprintf("unparsable SSE data %q", truncate(d, 80)))
					}
				}
			} else if strings.Contains(ct, "application/json") && len(x.Body()) > 0 && x.Status == 200 {
				var m wireMsg
				if json.Unmarshal(x.Body(), &m) == nil && m.Method == "" && len(m.ID) > 0 {
					resps = append(resps, m)
				}
			}
		}
	} else {
		for _, ln := range strings.Split(string(r.C2S.Stream()), "\n") {
			if strings.TrimSpace(ln) == "" {
				continue
			}
			var m wireMsg
			if json.Unmarshal([]byte(ln), &m) == nil && m.Method != "" && len(m.ID) > 0 {
				reqs = append(reqs, m)
			}
		}
		for _, ln := range strings.Split(string(r.S2C.Stream()), "\n") {
			if strings.TrimSpace(ln) == "" {
				continue
			}
			var m wireMsg
			if err := json.Unmarshal([]byte(ln), &m); err != nil {
				bad = append(bad, fmt.Sprintf("unparsable stdio line %q", truncate(ln, 80)))
				continue
			}
			if m.Method == "" && len(m.ID) > 0 {
				resps = append(resps, m)
			}
		}
	}
	_ = parse
	return
}

func truncate(s string, n int) string {
	if len(s) > n {
		return s[:n] + "…"
	}
	return s
}

// c01Ops: one CallTool is held in flight (its handler waits) while the same client issues every
// other operation of the Connector interface, two of each list operation; every call must get its
// own answer (the list answers name what is registered, the tool answer echoes its nonce).
func c01Ops(prefix []int, mode string) explore.Outcome {
	var viol []explore.Violation
	obs := &hx.Log{}
	k := func(s string) string { return s + ":" + mode }
	res := vsched.Run(cfgFor(prefix), func() {
		vsched.SetBranching(false)
		r := NewRig(mode)
		gate := &hx.Flag{}
		calls := &hx.Log{}
		r.RegisterTool(mcp.NewTool("slow", mcp.WithString("nonce")), func(ctx context.Context, req *mcp.CallToolRequest) (*mcp.CallToolResult, error) {
			n, _ := req.Params.Arguments["nonce"].(string)
			calls.Add("%s", n)
			gate.Wait("slow tool waits for release")
			return mcp.NewTextResult("echo:" + n), nil
		})
		r.RegisterPrompt(&mcp.Prompt{Name: "the-prompt"}, func(ctx context.Context, req *mcp.GetPromptRequest) (*mcp.GetPromptResult, error) {
			if len(req.Params.Arguments) == 1 {
				return &mcp.GetPromptResult{Description: "prompt:" + req.Params.Arguments["nonce"], Messages: []mcp.PromptMessage{}}, nil
			}
			return &mcp.GetPromptResult{Description: "prompt-args:" + hx.CanonOf(req.Params.Arguments), Messages: []mcp.PromptMessage{}}, nil
		})
		r.RegisterTool(mcp.NewTool("args"), func(ctx context.Context, req *mcp.CallToolRequest) (*mcp.CallToolResult, error) {
			return mcp.NewTextResult("args:" + hx.CanonOf(req.Params.Arguments)), nil
		})
		// an answer whose own content uses the member names of the envelope it travels in
		r.RegisterTool(mcp.NewTool("nested", mcp.WithString("method"), mcp.WithString("id")), func(ctx context.Context, req *mcp.CallToolRequest) (*mcp.CallToolResult, error) {
			return &mcp.CallToolResult{Content: []mcp.Content{mcp.NewTextContent("nested-ok")},
				StructuredContent: map[string]interface{}{"method": "tools/call", "id": 7, "jsonrpc": "2.0", "params": map[string]interface{}{"method": "x"}, "result": map[string]interface{}{"id": "a"}, "error": map[string]interface{}{"code": 1, "message": "not an error"}}}, nil
		})
		r.RegisterResource(&mcp.Resource{Name: "the-resource", URI: "res://r"}, func(ctx context.Context, req *mcp.ReadResourceRequest) (mcp.ResourceContents, error) {
			return mcp.TextResourceContents{URI: "res://r", Text: "resource:r"}, nil
		})
		r.Start()
		cl, err := r.Connect()
		if err != nil {
			viol = append(viol, V("setup-handshake-fails", "setting the scenario up with well-behaved peers fails: %v", err))
			return
		}
		vsched.Quiesce()
		vsched.SetBranching(true)
		var slowText string
		var slowErr error
		slowDone := &hx.Flag{}
		vsched.Go("slow-caller", func() {
			rq := &mcp.CallToolRequest{}
			rq.Params.Name = "slow"
			rq.Params.Arguments = map[string]interface{}{"nonce": "S1"}
			out, e := cl.CallTool(context.Background(), rq)
			slowErr = e
			slowText = TextOf(out)
			slowDone.Set()
		})
		got := &hx.Log{}
		othersDone := &hx.Flag{}
		vsched.Go("others", func() {
			ctx := context.Background()
			for round := 0; round < 2; round++ {
				if lr, e := cl.ListResources(ctx, &mcp.ListResourcesRequest{}); e != nil || len(lr.Resources) != 1 || lr.Resources[0].Name != "the-resource" {
					got.Add("ListResources#%d: %v %v", round, lr, e)
				}
				if lt, e := cl.ListTools(ctx, &mcp.ListToolsRequest{}); e != nil || len(lt.Tools) != 3 {
					got.Add("ListTools#%d: %v %v", round, lt, e)
				}
				if lp, e := cl.ListPrompts(ctx, &mcp.ListPromptsRequest{}); e != nil || len(lp.Prompts) != 1 || lp.Prompts[0].Name != "the-prompt" {
					got.Add("ListPrompts#%d: %v %v", round, lp, e)
				}
			}
			nt := &mcp.CallToolRequest{}
			nt.Params.Name = "nested"
			if o, e := cl.CallTool(ctx, nt); e != nil || TextOf(o) != "nested-ok" {
				got.Add("CallTool whose structured result has members named method / id / result / error: %q %v", TextOf(o), e)
			}
			gp := &mcp.GetPromptRequest{}
			gp.Params.Name = "the-prompt"
			gp.Params.Arguments = map[string]string{"nonce": "P1"}
			if o, e := cl.GetPrompt(ctx, gp); e != nil || o.Description != "prompt:P1" {
				got.Add("GetPrompt: %v %v", o, e)
			}
			rr := &mcp.ReadResourceRequest{}
			rr.Params.URI = "res://r"
			if o, e := cl.ReadResource(ctx, rr); e != nil || len(o.Contents) != 1 {
				got.Add("ReadResource: %v %v", o, e)
			}
			// successive calls with different argument sets: each answer is computed from its own arguments only
			for _, args := range []map[string]string{{"a": "1", "b": "2", "c": "3"}, {"a": "4", "z": "9"}, {"only": "x", "q": "y"}, {"a": "5", "b": "6"}} {
				gp := &mcp.GetPromptRequest{}
				gp.Params.Name = "the-prompt"
				gp.Params.Arguments = args
				if o, e := cl.GetPrompt(ctx, gp); e != nil || o.Description != "prompt-args:"+hx.CanonOf(args) {
					got.Add("GetPrompt with arguments %v answered %v %v", args, o, e)
				}
				ct := &mcp.CallToolRequest{}
				ct.Params.Name = "args"
				ct.Params.Arguments = map[string]interface{}{}
				for k, v := range args {
					ct.Params.Arguments[k] = v
				}
				if o, e := cl.CallTool(ctx, ct); e != nil || TextOf(o) != "args:"+hx.CanonOf(args) {
					got.Add("CallTool with arguments %v answered %q %v", args, TextOf(o), e)
				}
			}
			othersDone.Set()
		})
		vsched.Quiesce()
		if !othersDone.Get() {
			viol = append(viol, V(k("ops-hang"), "with one CallTool in flight the other operations of the same client did not complete; blocked: %v", vsched.LiveThreads()))
		}
		for _, g := range got.Items() {
			viol = append(viol, V(k("ops-wrong-answer"), "while a CallTool was in flight: %s", truncate(g, 300)))
		}
		if slowDone.Get() {
			viol = append(viol, V(k("early-answer"), "the held CallTool returned (%q, %v) before its handler was released", slowText, slowErr))
		}
		gate.Set()
		vsched.Quiesce()
		if !slowDone.Get() {
			viol = append(viol, V(k("call-hangs"), "the CallTool that was in flight during the other operations never completed; blocked: %v", vsched.LiveThreads()))
		} else if slowErr != nil || slowText != "echo:S1" {
			viol = append(viol, V(k("wrong-answer"), "the CallTool that was in flight during the other operations returned %q, %v (want echo:S1)", slowText, slowErr))
		}
		if n := len(calls.Items()); n != 1 {
			viol = append(viol, V(k("handler-runs"), "the tool handler ran %d times for one call", n))
		}
		obs.Add("others=%v slow=%q", othersDone.Get(), slowText)
	})
	return finishOutcome(res, obs, viol, true)
}

func init() {
	for _, mode := range []string{"sj", "ss", "sl", "sd", "ls", "io"} {
		mode := mode
		RegisterScenario(&Scenario{Name: "c01/" + mode + "/ops", Run: func(p []int, m []vsched.ChoicePoint) explore.Outcome { return c01Ops(p, mode) },
			Doc: "one CallTool held in flight || ListResources, ListTools, ListPrompts (twice each), GetPrompt, ReadResource on the same client"})
	}
}

func c01Run(prefix []int, cfg c01Cfg) explore.Outcome {
	if cfg.noise {
		defer nonAtomicWriters()() // answers and notifications share one ResponseWriter: concurrent use is reported
	}
	var viol []explore.Violation
	obs := &hx.Log{}
	calls := &hx.Log{}
	order := &hx.Log{}
	res := vsched.Run(cfgFor(prefix), func() {
		vsched.SetBranching(false)
		r := NewRig(cfg.mode)
		r.EchoTool(calls)
		r.RegisterPrompt(&mcp.Prompt{Name: "p"}, func(ctx context.Context, req *mcp.GetPromptRequest) (*mcp.GetPromptResult, error) {
			n := req.Params.Arguments["nonce"]
			calls.Add("%s", n)
			return &mcp.GetPromptResult{Description: "prompt:" + n, Messages: []mcp.PromptMessage{{Role: mcp.RoleUser, Content: mcp.NewTextContent("prompt:" + n)}}}, nil
		})
		r.RegisterResource(&mcp.Resource{Name: "r", URI: "res://r"}, func(ctx context.Context, req *mcp.ReadResourceRequest) (mcp.ResourceContents, error) {
			calls.Add("res")
			return mcp.TextResourceContents{URI: "res://r", Text: "resource:r"}, nil
		})
		r.Start()
		var clients []Client
		for i := 0; i < cfg.clients; i++ {
			c, err := r.Connect()
			if err != nil {
				viol = append(viol, V("harness", "handshake failed on %s: %v", cfg.mode, err))
				return
			}
			clients = append(clients, c)
		}
		vsched.Quiesce()
		vsched.SetBranching(true)
		type result struct {
			nonce string
			text  string
			err   error
			done  bool
		}
		var results []*result
		if cfg.noise {
			vsched.Go("noise", func() {
				params := map[string]interface{}{"level": "info", "data": "noise"}
				switch {
				case r.SSE != nil:
					r.SSE.SendNotification("sse-0001", "notifications/message", params)
				case r.Server != nil:
					if sc, ok := clients[0].(mcp.SessionClient); ok && sc.GetSessionID() != "" {
						r.Server.SendNotification(sc.GetSessionID(), "notifications/message", params)
					}
				}
			})
		}
		for ci, cl := range clients {
			for t := 0; t < cfg.callers; t++ {
				ci, cl, t := ci, cl, t
				var mine []*result
				for k := 0; k < cfg.calls; k++ {
					rs := &result{nonce: fmt.Sprintf("c%dt%dk%d", ci, t, k)}
					mine = append(mine, rs)
					results = append(results, rs)
				}
				vsched.Go("caller", func() {
					for _, rs := range mine {
						kind := "tool"
						if cfg.mixed {
							kind = []string{"tool", "prompt", "resource"}[t%3]
						}
						switch kind {
						case "tool":
							req := &mcp.CallToolRequest{}
							req.Params.Name = "echo"
							req.Params.Arguments = map[string]interface{}{"nonce": rs.nonce}
							out, err := cl.CallTool(context.Background(), req)
							rs.err = err
							rs.text = strings.TrimPrefix(TextOf(out), "echo:")
						case "prompt":
							req := &mcp.GetPromptRequest{}
							req.Params.Name = "p"
							req.Params.Arguments = map[string]string{"nonce": rs.nonce}
							out, err := cl.GetPrompt(context.Background(), req)
							rs.err = err
							if out != nil {
								rs.text = strings.TrimPrefix(out.Description, "prompt:")
							}
						case "resource":
							req := &mcp.ReadResourceRequest{}
							req.Params.URI = "res://r"
							out, err := cl.ReadResource(context.Background(), req)
							rs.err = err
							rs.nonce = "res"
							if out != nil && len(out.Contents) == 1 {
								if tc, ok := out.Contents[0].(mcp.TextResourceContents); ok && tc.Text == "resource:r" {
									rs.text = "res"
								}
							}
						}
						rs.done = true
						order.Add("%s", rs.nonce)
					}
				})
			}
		}
		vsched.Quiesce()
		// ---- oracle ----
		for _, rs := range results {
			switch {
			case !rs.done:
				viol = append(viol, V("call-hangs:"+cfg.mode, "call %s never completed although its connection is up; blocked: %v", rs.nonce, vsched.LiveThreads()))
			case rs.err != nil:
				viol = append(viol, V("call-fails:"+cfg.mode, "call %s failed: %v", rs.nonce, rs.err))
			case rs.text != rs.nonce:
				viol = append(viol, V("wrong-answer:"+cfg.mode, "call %s received the answer %q", rs.nonce, rs.text))
			}
		}
		cnt := map[string]int{}
		for _, n := range calls.Items() {
			cnt[n]++
		}
		for _, rs := range results {
			if cnt[rs.nonce] != 1 && rs.nonce != "res" {
				viol = append(viol, V("handler-count:"+cfg.mode, "handler ran %d times for call %s", cnt[rs.nonce], rs.nonce))
			}
		}
		reqs, resps, bad := wireTraffic(r)
		for _, b := range bad {
			viol = append(viol, V("wire-garbage:"+cfg.mode, "%s", b))
		}
		respByID := map[string]int{}
		for _, m := range resps {
			respByID[hx.Canon(m.ID)]++
		}
		reqIDs := map[string]bool{}
		for _, m := range reqs {
			id := hx.Canon(m.ID)
			if reqIDs[id] && cfg.clients == 1 {
				viol = append(viol, V("duplicate-request-id:"+cfg.mode, "two requests with id %s on one client", id))
			}
			reqIDs[id] = true
			if m.Method == "initialize" {
				continue
			}
			if n := respByID[id]; n != 1*countReq(reqs, id) {
				viol = append(viol, V("wire-response-count:"+cfg.mode, "%d response frames for request id %s (%s), want %d", n, id, m.Method, countReq(reqs, id)))
			}
		}
		for id := range respByID {
			if !reqIDs[id] {
				viol = append(viol, V("wire-unsolicited-response:"+cfg.mode, "response frame with id %s that no request carried", id))
			}
		}
		obs.Add("handlers=%s returns=%s", strings.Join(calls.Items(), ","), strings.Join(order.Items(), ","))
	})
	o := finishOutcome(res, obs, viol, true)
	return o
}

func countReq(reqs []wireMsg, id string) int {
	n := 0
	for _, m := range reqs {
		if hx.Canon(m.ID) == id {
			n++
		}
	}
	return n
}

// ---- id classes -------------------------------------------------------------------------

type c01IDCase struct {
	mode string
	id   string // raw JSON of the id; "seed:N" = library client with id counter seeded to N
}

func c01IDCases() []c01IDCase {
	raw := []string{`1`, `2`, `999999`, `1000000`, `1234567`, `2147483648`, `9007199254740991`, `9007199254740992`, `"a"`, `"1"`, `""`, `"1e6"`, `0`, `-1`}
	seeds := []string{"seed:0", "seed:999998", "seed:999999", "seed:1234566", "seed:2147483647", "seed:9007199254740990"}
	var out []c01IDCase
	for _, m := range AllModes {
		for _, id := range raw {
			out = append(out, c01IDCase{m, id})
		}
		for _, s := range seeds {
			out = append(out, c01IDCase{m, s})
		}
	}
	sort.SliceStable(out, func(i, j int) bool { return false })
	return out
}

func c01IDEval(tier string, i int) CaseResult {
	cs := c01IDCases()[i]
	cr := CaseResult{Desc: fmt.Sprintf("mode=%s id=%s", cs.mode, cs.id), Nontrivial: true}
	var viol []explore.Violation
	obs := &hx.Log{}
	res := vsched.Run(vsched.Config{}, func() {
		r := NewRig(cs.mode)
		calls := &hx.Log{}
		r.EchoTool(calls)
		r.Start()
		if strings.HasPrefix(cs.id, "seed:") {
			var n int64
			fmt.Sscanf(cs.id, "seed:%d", &n)
			cl, err := r.NewClient()
			if err != nil {
				viol = append(viol, V("setup-handshake-fails", "setting the scenario up with well-behaved peers fails: %v", err))
				return
			}
			mcp.VerifSeedRequestID(cl, n)
			if _, err := cl.Initialize(context.Background(), &mcp.InitializeRequest{}); err != nil {
				viol = append(viol, V("id-class:"+cs.mode+":init", "Initialize with request id %d fails: %v", n+1, err))
				obs.Add("init-fail")
				return
			}
			req := &mcp.CallToolRequest{}
			req.Params.Name = "echo"
			req.Params.Arguments = map[string]interface{}{"nonce": "x"}
			done := &hx.Flag{}
			var out *mcp.CallToolResult
			var err2 error
			vsched.Go("caller", func() { out, err2 = cl.CallTool(context.Background(), req); done.Set() })
			vsched.Quiesce()
			if !done.Get() {
				viol = append(viol, V("id-class:"+cs.mode+":hang", "CallTool with request id %d never returns (answer not recognised); blocked: %v", n+2, vsched.LiveThreads()))
				obs.Add("hang")
			} else if err2 != nil || TextOf(out) != "echo:x" {
				viol = append(viol, V("id-class:"+cs.mode+":fail", "CallTool with request id %d: result %q err %v", n+2, TextOf(out), err2))
				obs.Add("fail")
			} else {
				obs.Add("ok")
			}
			return
		}
		// reference peer on the raw wire
		rp := NewRawPeer(r)
		if err := rp.Handshake(); err != nil {
			viol = append(viol, V("harness", "raw handshake on %s: %v", cs.mode, err))
			return
		}
		ans, err := rp.Call(fmt.Sprintf(`{"jsonrpc":"2.0","id":%s,"method":"tools/call","params":{"name":"echo","arguments":{"nonce":"x"}}}`, cs.id), cs.id)
		if err != nil {
			viol = append(viol, V("id-echo:"+cs.mode+":noanswer", "request with id %s got no answer: %v", cs.id, err))
			obs.Add("noanswer")
			return
		}
		var m wireMsg
		json.Unmarshal([]byte(ans), &m)
		if hx.Canon(m.ID) != hx.Canon([]byte(cs.id)) {
			viol = append(viol, V("id-echo:"+cs.mode+":changed", "request id %s was answered with id %s", cs.id, string(m.ID)))
			obs.Add("changed")
		} else if !strings.Contains(string(m.Result), "echo:x") {
			viol = append(viol, V("id-echo:"+cs.mode+":result", "request id %s: answer %s", cs.id, truncate(ans, 200)))
			obs.Add("badresult")
		} else {
			obs.Add("ok")
		}
	})
	o := finishOutcome(res, obs, viol, true)
	cr.ObsKey = cs.mode + "/" + idClass(cs.id) + ":" + o.ObsKey
	cr.Violations = o.Violations
	cr.Broken = o.Broken
	return cr
}

func idClass(id string) string {
	if strings.HasPrefix(id, "seed:") {
		return "lib"
	}
	if strings.HasPrefix(id, `"`) {
		return "string"
	}
	return "int"
}

func c01Backpressure(tier string, i int) CaseResult {
	n := []int{2, 101, 102, 150}[i]
	cr := CaseResult{Desc: fmt.Sprintf("legacy SSE, %d requests in flight while the stream reader is stalled", n), Nontrivial: true}
	var viol []explore.Violation
	obs := &hx.Log{}
	res := vsched.Run(vsched.Config{}, func() {
		r := NewRig("ls")
		calls := &hx.Log{}
		r.EchoTool(calls)
		rp := NewRawPeer(r)
		if err := rp.Handshake(); err != nil {
			viol = append(viol, V("setup-handshake-fails", "setting the scenario up with well-behaved peers fails: %v", err))
			return
		}
		// the client stops reading: the connection's buffers fill up and the server's stream writer
		// blocks inside Write (memnet.Stall); meanwhile n requests are posted and answered.
		rp.Stream.Stall(true)
		for k := 0; k < n; k++ {
			rp.PostOnly(fmt.Sprintf(`{"jsonrpc":"2.0","id":%d,"method":"tools/call","params":{"name":"echo","arguments":{"nonce":"n%d"}}}`, 1000+k, k))
		}
		vsched.Quiesce()
		rp.Stream.Stall(false) // the client reads again
		vsched.Quiesce()
		frames := rp.StreamFrames()
		got := map[string]int{}
		for _, f := range frames {
			var m wireMsg
			if json.Unmarshal([]byte(f), &m) == nil && len(m.ID) > 0 && m.Method == "" {
				got[string(m.ID)]++
			}
		}
		missing := 0
		for k := 0; k < n; k++ {
			if got[fmt.Sprint(1000+k)] != 1 {
				missing++
			}
		}
		if missing > 0 {
			viol = append(viol, V("ls-queue-drop", "%d of %d in-flight requests never received a response frame (event queue overflow drops the frame) although the stream stayed open", missing, n))
		}
		obs.Add("n=%d missing=%d", n, missing)
	})
	o := finishOutcome(res, obs, viol, true)
	cr.ObsKey = o.ObsKey
	cr.Violations = o.Violations
	cr.Broken = o.Broken
	return cr
}

// ---- answer sizes --------------------------------------------------------------------------------
//
// "The outcome is the server's answer to that very request" for answers of every size: the frame
// that carries the answer crosses the usual buffer boundaries of line- and event-oriented readers
// (4 KiB, 64 KiB, 1 MiB). One client, two successive calls per operation with different nonces.

var c01Sizes = []int{100, 4095, 4096, 4097, 65535, 65536, 65537, 131072, 1<<20 + 1}
var c01SizeOps = []string{"CallTool", "ReadResource", "GetPrompt", "ListTools"}

type c01SizeCase struct {
	Mode string
	Op   string
	N    int
}

func c01SizeCases() []c01SizeCase {
	var out []c01SizeCase
	for _, m := range AllModes {
		for _, op := range c01SizeOps {
			for _, n := range c01Sizes {
				out = append(out, c01SizeCase{m, op, n})
			}
		}
	}
	return out
}

func c01Payload(nonce string, n int) string {
	s := "<" + nonce + ">"
	return s + strings.Repeat("p", n-len(s)-1) + "$"
}

func c01SizeEval(tier string, i int) CaseResult {
	cs := c01SizeCases()[i]
	cr := CaseResult{Desc: fmt.Sprintf("mode=%s op=%s answer payload of %d bytes", cs.Mode, cs.Op, cs.N), Nontrivial: true}
	var viol []explore.Violation
	obs := &hx.Log{}
	k := func(kind string) string {
		cls := "small"
		switch {
		case cs.N > 1<<20:
			cls = ">1MiB"
		case cs.N > 1<<16:
			cls = ">64KiB"
		case cs.N >= 1<<16-1:
			cls = "64KiB"
		case cs.N >= 4095:
			cls = "4KiB"
		}
		return fmt.Sprintf("%s:%s:%s:%s", kind, cs.Mode, cs.Op, cls)
	}
	res := vsched.Run(vsched.Config{}, func() {
		r := NewRig(cs.Mode)
		calls := &hx.Log{}
		r.RegisterTool(mcp.NewTool("big", mcp.WithDescription(c01Payload("tool-description", cs.N)), mcp.WithString("nonce")), func(ctx context.Context, req *mcp.CallToolRequest) (*mcp.CallToolResult, error) {
			n, _ := req.Params.Arguments["nonce"].(string)
			calls.Add("tool %s", n)
			return mcp.NewTextResult(c01Payload(n, cs.N)), nil
		})
		r.RegisterPrompt(&mcp.Prompt{Name: "big", Arguments: []mcp.PromptArgument{{Name: "nonce"}}}, func(ctx context.Context, req *mcp.GetPromptRequest) (*mcp.GetPromptResult, error) {
			calls.Add("prompt %s", req.Params.Arguments["nonce"])
			return &mcp.GetPromptResult{Description: c01Payload(req.Params.Arguments["nonce"], cs.N), Messages: []mcp.PromptMessage{}}, nil
		})
		for _, u := range []string{"res://a", "res://b"} {
			u := u
			r.RegisterResource(&mcp.Resource{Name: "r" + u, URI: u}, func(ctx context.Context, req *mcp.ReadResourceRequest) (mcp.ResourceContents, error) {
				calls.Add("resource %s", req.Params.URI)
				return mcp.TextResourceContents{URI: u, Text: c01Payload(u, cs.N)}, nil
			})
		}
		r.Start()
		cl, err := r.Connect()
		if err != nil {
			viol = append(viol, V("setup-handshake-fails", "setting the scenario up with well-behaved peers fails: %v", err))
			return
		}
		ctx := context.Background()
		done := &hx.Flag{}
		got := &hx.Log{}
		vsched.Go("caller", func() {
			defer done.Set()
			for _, nonce := range []string{"res://a", "res://b"} {
				want := c01Payload(nonce, cs.N)
				var have string
				var e error
				switch cs.Op {
				case "CallTool":
					rq := &mcp.CallToolRequest{}
					rq.Params.Name = "big"
					rq.Params.Arguments = map[string]interface{}{"nonce": nonce}
					var o *mcp.CallToolResult
					o, e = cl.CallTool(ctx, rq)
					have = TextOf(o)
				case "GetPrompt":
					rq := &mcp.GetPromptRequest{}
					rq.Params.Name = "big"
					rq.Params.Arguments = map[string]string{"nonce": nonce}
					var o *mcp.GetPromptResult
					o, e = cl.GetPrompt(ctx, rq)
					if o != nil {
						have = o.Description
					}
				case "ReadResource":
					rq := &mcp.ReadResourceRequest{}
					rq.Params.URI = nonce
					var o *mcp.ReadResourceResult
					o, e = cl.ReadResource(ctx, rq)
					if o != nil && len(o.Contents) == 1 {
						if t, ok := o.Contents[0].(mcp.TextResourceContents); ok {
							have = t.Text
						} else if t, ok := o.Contents[0].(*mcp.TextResourceContents); ok {
							have = t.Text
						}
					}
				case "ListTools":
					want = c01Payload("tool-description", cs.N)
					var o *mcp.ListToolsResult
					o, e = cl.ListTools(ctx, &mcp.ListToolsRequest{})
					if o != nil && len(o.Tools) == 1 {
						have = o.Tools[0].Description
					}
				}
				switch {
				case e != nil:
					got.Add("%s(%s) with an answer payload of %d bytes failed although the connection stayed up: %s", cs.Op, nonce, cs.N, truncate(e.Error(), 200))
				case have != want:
					got.Add("%s(%s) with an answer payload of %d bytes returned %d bytes %q", cs.Op, nonce, cs.N, len(have), truncate(have, 40))
				}
			}
		})
		vsched.Quiesce()
		if !done.Get() {
			viol = append(viol, V(k("size-call-hangs"), "%s never returned; blocked: %v", cr.Desc, vsched.LiveThreads()))
		}
		for _, g := range got.Items() {
			viol = append(viol, V(k("size-wrong-outcome"), "%s", g))
		}
		if cs.Op != "ListTools" && done.Get() {
			if n := len(calls.Items()); n != 2 {
				viol = append(viol, V(k("size-handler-runs"), "two calls ran the handler %d times: %v", n, calls.Items()))
			}
		}
		obs.Add("%v", len(got.Items()))
		cl.Close()
	})
	o := finishOutcome(res, obs, viol, true)
	cr.ObsKey = cr.Desc + "|" + o.ObsKey
	cr.Violations = o.Violations
	cr.Broken = o.Broken
	return cr
}

func init() {
	RegisterEnum(&Enum{Name: "c01/sizes", Doc: "answers whose frame crosses the 4 KiB, 64 KiB and 1 MiB boundaries, for CallTool, ReadResource, GetPrompt and ListTools on every transport/mode: each of two successive calls returns its own complete answer and runs its handler once",
		Count: func(string) int { return len(c01SizeCases()) }, Eval: c01SizeEval})
}

// ---- a response lost with its connection -----------------------------------------------------
//
// "Absent a configured retry the server-side handler runs exactly once per request; no call ever
// receives ... a duplicate": the server reads and handles a request, then the keep-alive connection
// dies before the first byte of the answer reaches the client (memnet.LoseResponses, which also
// does what net/http's Transport does for requests it considers replayable). The call fails; nothing
// below the caller sends the request a second time.

var c01LostErrs = []struct {
	Name string
	Err  error
}{
	{"eof", io.EOF},
	{"reset", &net.OpError{Op: "read", Net: "tcp", Err: os.NewSyscallError("read", syscall.ECONNRESET)}},
	{"closed-idle", errors.New("http: server closed idle connection")},
}

var c01LostOps = []string{"CallTool", "GetPrompt", "ReadResource"}

func c01LostEval(tier string, i int) CaseResult {
	modes := []string{"sj", "ss", "sl", "sd", "ls"}
	mode := modes[i%len(modes)]
	i /= len(modes)
	op := c01LostOps[i%len(c01LostOps)]
	le := c01LostErrs[i/len(c01LostOps)]
	cr := CaseResult{Desc: fmt.Sprintf("mode=%s op=%s: the response is lost with its connection (%s), no retry configured", mode, op, le.Name), Nontrivial: true}
	var viol []explore.Violation
	obs := &hx.Log{}
	k := func(kind string) string { return fmt.Sprintf("%s:%s:%s:%s", kind, mode, op, le.Name) }
	res := vsched.Run(vsched.Config{}, func() {
		r := NewRig(mode)
		calls := &hx.Log{}
		r.EchoTool(calls)
		r.RegisterPrompt(&mcp.Prompt{Name: "echo", Arguments: []mcp.PromptArgument{{Name: "nonce"}}}, func(ctx context.Context, req *mcp.GetPromptRequest) (*mcp.GetPromptResult, error) {
			calls.Add("%s", req.Params.Arguments["nonce"])
			return &mcp.GetPromptResult{Description: "echo:" + req.Params.Arguments["nonce"], Messages: []mcp.PromptMessage{}}, nil
		})
		for _, n := range []string{"L1", "L2"} {
			n := n
			r.RegisterResource(&mcp.Resource{Name: n, URI: "res://" + n}, func(ctx context.Context, req *mcp.ReadResourceRequest) (mcp.ResourceContents, error) {
				calls.Add("%s", n)
				return mcp.TextResourceContents{URI: "res://" + n, Text: "echo:" + n}, nil
			})
		}
		r.Start()
		cl, err := r.Connect()
		if err != nil {
			viol = append(viol, V("setup-handshake-fails", "setting the scenario up with well-behaved peers fails: %v", err))
			return
		}
		vsched.Quiesce()
		method := map[string]string{"CallTool": "tools/call", "GetPrompt": "prompts/get", "ReadResource": "resources/read"}[op]
		issue := func(nonce string) (string, error) {
			ctx := context.Background()
			switch op {
			case "CallTool":
				rq := &mcp.CallToolRequest{}
				rq.Params.Name = "echo"
				rq.Params.Arguments = map[string]interface{}{"nonce": nonce}
				o, e := cl.CallTool(ctx, rq)
				return TextOf(o), e
			case "GetPrompt":
				rq := &mcp.GetPromptRequest{}
				rq.Params.Name = "echo"
				rq.Params.Arguments = map[string]string{"nonce": nonce}
				o, e := cl.GetPrompt(ctx, rq)
				if o != nil {
					return o.Description, e
				}
				return "", e
			default:
				rq := &mcp.ReadResourceRequest{}
				rq.Params.URI = "res://" + nonce
				o, e := cl.ReadResource(ctx, rq)
				if o != nil && len(o.Contents) == 1 {
					if t, ok := o.Contents[0].(mcp.TextResourceContents); ok {
						return t.Text, e
					}
				}
				return "", e
			}
		}
		r.Fab.LoseResponses(1, func(q *http.Request) bool {
			if q.Method != http.MethodPost || q.GetBody == nil {
				return false
			}
			b, _ := q.GetBody()
			body, _ := io.ReadAll(b)
			return strings.Contains(string(body), `"`+method+`"`)
		}, le.Err)
		var out string
		var cerr error
		done := &hx.Flag{}
		vsched.Go("caller", func() { out, cerr = issue("L1"); done.Set() })
		vsched.Quiesce()
		arrivals := 0
		for _, x := range r.Fab.Log() {
			if x.Method == http.MethodPost && strings.Contains(string(x.ReqBody), `"`+method+`"`) {
				arrivals++
			}
		}
		runs := count(calls.Items(), "L1")
		switch {
		case r.Fab.Lost != 1:
			viol = append(viol, V("harness", "the fault was not injected (%d responses lost)", r.Fab.Lost))
		case !done.Get():
			viol = append(viol, V(k("lost-response-call-hangs"), "the call whose response was lost with its connection never returned; blocked: %v", vsched.LiveThreads()))
		}
		if runs != 1 {
			viol = append(viol, V(k("lost-response-handler-runs"), "no retry is configured, the response was lost once: the server-side handler ran %d times for the one call", runs))
		}
		if arrivals != 1 {
			viol = append(viol, V(k("lost-response-resent"), "no retry is configured, the response was lost once: the request arrived %d times at the server", arrivals))
		}
		if done.Get() && cerr == nil && mode != "ls" {
			viol = append(viol, V(k("lost-response-result"), "the response never reached the client, yet the call returned %q without an error", out))
		}
		obs.Add("runs=%d arrivals=%d err=%v", runs, arrivals, cerr != nil)
		if done.Get() {
			o2, e2 := issue("L2")
			if e2 != nil || o2 != "echo:L2" {
				viol = append(viol, V(k("lost-response-later-call"), "after one lost response a later call on the same client returned %q, %v", o2, e2))
			}
		}
		cl.Close()
	})
	o := finishOutcome(res, obs, viol, true)
	cr.ObsKey = cr.Desc + "|" + o.ObsKey
	cr.Violations = o.Violations
	cr.Broken = o.Broken
	return cr
}

func init() {
	RegisterEnum(&Enum{Name: "c01/lost-response", Doc: "the server handles a request, the keep-alive connection dies before the first byte of the answer (EOF / reset / closed idle connection), no retry configured: 5 HTTP modes x {CallTool, GetPrompt, ReadResource}; the handler ran once, the request arrived once, the call fails, a later call gets its own answer",
		Count: func(string) int { return 5 * len(c01LostOps) * len(c01LostErrs) }, Eval: c01LostEval})
}

// ---- error answers in flight ----------------------------------------------------------------------
//
// "That outcome is the server's answer to that very request" also when the answer is a JSON-RPC
// error: two calls that fail for different reasons (each error text names what was asked for) and one
// that succeeds, in flight together on one client.
func c01Errors(prefix []int, mode string) explore.Outcome {
	var viol []explore.Violation
	obs := &hx.Log{}
	k := func(s string) string { return s + ":" + mode }
	res := vsched.Run(cfgFor(prefix), func() {
		vsched.SetBranching(false)
		r := NewRig(mode)
		calls := &hx.Log{}
		r.EchoTool(calls)
		r.RegisterTool(mcp.NewTool("fails", mcp.WithString("why")), func(ctx context.Context, req *mcp.CallToolRequest) (*mcp.CallToolResult, error) {
			why, _ := req.Params.Arguments["why"].(string)
			return nil, fmt.Errorf("refused because of %s", why)
		})
		r.Start()
		cl, err := r.Connect()
		if err != nil {
			viol = append(viol, V("setup-handshake-fails", "setting the scenario up with well-behaved peers fails: %v", err))
			return
		}
		vsched.Quiesce()
		vsched.SetBranching(true)
		type outc struct {
			text string
			err  error
			done bool
		}
		outs := make([]outc, 3)
		call := func(i int, name string, args map[string]interface{}) {
			vsched.Go(fmt.Sprintf("caller-%d", i), func() {
				rq := &mcp.CallToolRequest{}
				rq.Params.Name = name
				rq.Params.Arguments = args
				o, e := cl.CallTool(context.Background(), rq)
				outs[i] = outc{TextOf(o), e, true}
			})
		}
		call(0, "fails", map[string]interface{}{"why": "reason-ALPHA-" + strings.Repeat("a", 300)})
		call(1, "echo", map[string]interface{}{"nonce": "N1"})
		call(2, "fails", map[string]interface{}{"why": "reason-BETA"})
		vsched.Quiesce()
		wantErr := []string{"reason-ALPHA-", "", "reason-BETA"}
		for i, o := range outs {
			switch {
			case !o.done:
				viol = append(viol, V(k("errors-call-hangs"), "call %d did not return; blocked: %v", i, vsched.LiveThreads()))
			case wantErr[i] == "" && (o.err != nil || o.text != "echo:N1"):
				viol = append(viol, V(k("errors-wrong-outcome"), "the successful call, in flight with failing ones, returned %q, %v", o.text, o.err))
			case wantErr[i] != "" && o.err == nil:
				viol = append(viol, V(k("errors-wrong-outcome"), "call %d must fail (%s) but returned %q", i, wantErr[i], o.text))
			case wantErr[i] != "" && !strings.Contains(o.err.Error(), wantErr[i]):
				viol = append(viol, V(k("errors-foreign-error"), "call %d failed with an error that is not its own (%s expected in it): %s", i, wantErr[i], truncate(o.err.Error(), 200)))
			}
		}
		obs.Add("done")
	})
	return finishOutcome(res, obs, viol, true)
}

func init() {
	for _, mode := range AllModes {
		mode := mode
		RegisterScenario(&Scenario{Name: "c01/" + mode + "/errors", Run: func(p []int, m []vsched.ChoicePoint) explore.Outcome { return c01Errors(p, mode) },
			Doc: "three calls in flight on one client: two whose handler fails with different texts, one success; every caller gets its own outcome"})
	}
}
