package props

import (
	"context"
	"encoding/json"
	"fmt"
	"reflect"
	"sort"
	"strings"
	"time"

	mcp "trpc.group/trpc-go/trpc-mcp-go"
	"verif.local/engine/explore"
	"verif.local/engine/vsched"
	"verif.local/harness/hx"
)

// C18 — generated schemas describe what encoding/json really produces and accepts.

var c18Styles = []string{"inline", "defs", "nested"} // values of schema.ReferenceStyle

type c18Case struct {
	Group     string
	Desc      string
	Feature   string // coarse class used in violation keys
	T         reflect.Type
	Recursive bool
	Only0     bool
}

var c18CaseCache = map[string][]c18Case{}

func c18Cases(tier string) []c18Case {
	if cs, ok := c18CaseCache[tier]; ok {
		return cs
	}
	depth := 1
	if tier == "thorough" {
		depth = 3
	}
	var out []c18Case
	// G1: grammar x tags
	for _, ty := range c18Types(depth) {
		for _, tg := range c18Tags {
			tagLeaf := ty.leaf
			if ty.name != ty.leaf {
				tagLeaf = "" // value constraints are written for the leaf kind itself, not for containers of it
			}
			root := reflect.StructOf([]reflect.StructField{
				{Name: "F", Type: ty.t, Tag: reflect.StructTag(tg.tag(tagLeaf))},
				{Name: "Z", Type: reflect.TypeOf(""), Tag: `json:"z"`},
			})
			out = append(out, c18Case{Group: "grammar", Desc: fmt.Sprintf("struct{F %s `%s`; Z string}", ty.name, tg.tag(tagLeaf)),
				Feature: ty.leaf + ":" + tg.name, T: root, Only0: tg.only0})
		}
	}
	// G2: two or three occurrences of one struct type under different wrappers and names
	anon := reflect.StructOf([]reflect.StructField{
		{Name: "P", Type: reflect.TypeOf(""), Tag: `json:"p"`},
		{Name: "Q", Type: reflect.PtrTo(reflect.TypeOf(0)), Tag: `json:"q,omitempty"`},
	})
	wraps := []string{"id", "ptr", "ptr-omitempty", "slice", "mapstr", "array2"}
	wrap := func(w string, t reflect.Type) (reflect.Type, string) {
		switch w {
		case "id":
			return t, ""
		case "ptr":
			return reflect.PtrTo(t), ""
		case "ptr-omitempty":
			return reflect.PtrTo(t), ",omitempty"
		}
		return c18Apply(w, t), ""
	}
	names := [][3]string{{"a", "b", "c"}, {"a/b", "c~d", "e f"}, {"a%41", "$defs", "items"}}
	for si, s := range []reflect.Type{reflect.TypeOf(C18Inner{}), anon} {
		for _, w1 := range wraps {
			for _, w2 := range wraps {
				for ni, nm := range names {
					t1, o1 := wrap(w1, s)
					t2, o2 := wrap(w2, s)
					root := reflect.StructOf([]reflect.StructField{
						{Name: "A", Type: t1, Tag: reflect.StructTag(fmt.Sprintf(`json:"%s%s"`, nm[0], o1))},
						{Name: "B", Type: t2, Tag: reflect.StructTag(fmt.Sprintf(`json:"%s%s"`, nm[1], o2))},
						{Name: "C", Type: reflect.SliceOf(reflect.PtrTo(s)), Tag: reflect.StructTag(fmt.Sprintf(`json:"%s"`, nm[2]))},
					})
					out = append(out, c18Case{Group: "repeat", Desc: fmt.Sprintf("struct{A %s(S%d) %q; B %s(S%d) %q; C []*S %q}", w1, si, nm[0]+o1, w2, si, nm[1]+o2, nm[2]),
						Feature: fmt.Sprintf("repeat:names%d", ni), T: root})
				}
			}
		}
	}
	// G2b: the repeated type first occurs d object levels below the root, followed by siblings, and is used again later
	for d := 1; d <= 6; d++ {
		for _, w1 := range []string{"id", "slice", "ptr-omitempty", "mapstr"} {
			s := reflect.TypeOf(C18Inner{})
			t1, o1 := wrap(w1, s)
			level := reflect.StructOf([]reflect.StructField{
				{Name: "First", Type: t1, Tag: reflect.StructTag(fmt.Sprintf(`json:"first%s"`, o1))},
				{Name: "Mid", Type: reflect.TypeOf(0), Tag: `json:"mid"`},
				{Name: "Other", Type: anon, Tag: `json:"other"`},
				{Name: "Again", Type: s, Tag: `json:"again"`},
				{Name: "OtherAgain", Type: reflect.SliceOf(anon), Tag: `json:"other_again"`},
			})
			for k := 0; k < d; k++ {
				level = reflect.StructOf([]reflect.StructField{
					{Name: "N", Type: level, Tag: reflect.StructTag(fmt.Sprintf(`json:"n%d"`, d-k))},
					{Name: "Pad", Type: reflect.TypeOf(""), Tag: `json:"pad"`},
				})
			}
			root := reflect.StructOf([]reflect.StructField{
				{Name: "Top", Type: level, Tag: `json:"top"`},
				{Name: "Tail", Type: reflect.PtrTo(s), Tag: `json:"tail,omitempty"`},
				{Name: "Tail2", Type: anon, Tag: `json:"tail2"`},
			})
			out = append(out, c18Case{Group: "repeat-deep", Desc: fmt.Sprintf("type first seen %d levels below the root as %s, with later siblings, reused later", d+1, w1),
				Feature: fmt.Sprintf("repeat-deep:%d", d+1), T: root})
		}
	}
	// G3: embedding built at run time
	inner, inner2 := reflect.TypeOf(C18Inner{}), reflect.TypeOf(C18Inner2{})
	emb := []struct {
		name string
		f    []reflect.StructField
	}{
		{"embedded", []reflect.StructField{{Name: "C18Inner", Type: inner, Anonymous: true}, {Name: "X", Type: reflect.TypeOf(0), Tag: `json:"x"`}}},
		{"embedded-pointer", []reflect.StructField{{Name: "C18Inner", Type: reflect.PtrTo(inner), Anonymous: true}, {Name: "X", Type: reflect.TypeOf(0), Tag: `json:"x"`}}},
		{"embedded-tagged", []reflect.StructField{{Name: "C18Inner", Type: inner, Anonymous: true, Tag: `json:"named"`}, {Name: "X", Type: reflect.TypeOf(0), Tag: `json:"x"`}}},
		{"embedded-shadowed", []reflect.StructField{{Name: "C18Inner", Type: inner, Anonymous: true}, {Name: "A", Type: reflect.TypeOf(0), Tag: `json:"a"`}}},
		{"embedded-conflict", []reflect.StructField{{Name: "C18Inner", Type: inner, Anonymous: true}, {Name: "C18Inner2", Type: inner2, Anonymous: true}}},
		{"embedded-omitempty", []reflect.StructField{{Name: "C18Inner", Type: inner, Anonymous: true, Tag: `json:",omitempty"`}, {Name: "X", Type: reflect.TypeOf(""), Tag: `json:"x"`}}},
	}
	for _, e := range emb {
		root := reflect.StructOf(e.f)
		out = append(out, c18Case{Group: "embedded", Desc: e.name, Feature: e.name, T: root})
		// the same struct one level down
		outer := reflect.StructOf([]reflect.StructField{{Name: "In", Type: reflect.SliceOf(root), Tag: `json:"in"`}})
		out = append(out, c18Case{Group: "embedded", Desc: e.name + " inside a slice field", Feature: e.name, T: outer})
	}
	// G4: compiled corpus
	for _, c := range c18CorpusTypes() {
		out = append(out, c18Case{Group: "corpus", Desc: c.name, Feature: "corpus:" + strings.SplitN(c.name, "(", 2)[0], T: c.t, Recursive: c.recursive})
	}
	c18CaseCache[tier] = out
	return out
}

type c18OracleViolation struct {
	Kind      string `json:"kind"`
	Where     string `json:"where"`
	Detail    string `json:"detail"`
	Validator string `json:"validator"`
	Instance  int    `json:"instance"`
}

// c18Generate runs the generator for (t, style) with panic capture and a generous time bound.
func c18Generate(t reflect.Type, style int) (js []byte, fault string) {
	type res struct {
		js    []byte
		fault string
	}
	ch := make(chan res, 1)
	go func() {
		defer func() {
			if r := recover(); r != nil {
				ch <- res{nil, fmt.Sprintf("panic: %v", r)}
			}
		}()
		s := mcp.VerifSchemaForType(t, style)
		b, err := json.Marshal(s)
		if err != nil {
			ch <- res{nil, "unencodable schema: " + err.Error()}
			return
		}
		ch <- res{b, ""}
	}()
	select {
	case r := <-ch:
		return r.js, r.fault
	case <-time.After(120 * time.Second):
		return nil, "no result after 120 s"
	}
}

func c18SchemaEval(tier string, i int) CaseResult {
	cases := c18Cases(tier)
	cs := cases[i/3]
	style := i % 3
	sname := c18Styles[style]
	cr := CaseResult{Desc: fmt.Sprintf("[%s] %s style=%s", cs.Group, cs.Desc, sname), Nontrivial: true}
	key := func(kind string) string { return fmt.Sprintf("%s:%s:%s", kind, sname, cs.Feature) }
	js, fault := c18Generate(cs.T, style)
	if fault != "" {
		k := "generator-fails"
		if strings.HasPrefix(fault, "no result") {
			k = "non-termination"
		}
		cr.Violations = append(cr.Violations, V(key(k), "%s: schema generation: %s", cr.Desc, fault))
		cr.ObsKey = k
		return cr
	}
	shapes, root := c18ShapeOf(cs.T)
	var instances []json.RawMessage
	variants := []int{0, 1, 2}
	if cs.Only0 {
		variants = []int{0}
	}
	for _, v := range variants {
		val, full := c18Populate(cs.T, v)
		b, err := json.Marshal(val.Interface())
		if err != nil {
			cr.Broken = fmt.Sprintf("%s: encoding/json cannot encode the populated value: %v", cr.Desc, err)
			return cr
		}
		var generic interface{}
		json.Unmarshal(b, &generic)
		if err := c18VerifyModel(shapes, root, generic, v == 0 && !cs.Recursive, "#"); err != nil {
			cr.Broken = fmt.Sprintf("%s: reference naming model disagrees with encoding/json: %v (json: %s)", cr.Desc, err, truncate(string(b), 300))
			return cr
		}
		if full {
			instances = append(instances, b)
		}
	}
	var ans struct {
		Violations []c18OracleViolation `json:"violations"`
		Stats      map[string]int       `json:"stats"`
	}
	req := map[string]interface{}{"style": sname, "schema": json.RawMessage(js), "shapes": shapes, "root": root,
		"instances": instances, "truncation_ok": style == 0 && cs.Recursive}
	if err := hx.PyCall("schema_check.py", req, &ans); err != nil {
		cr.Broken = err.Error()
		return cr
	}
	seen := map[string]bool{}
	for _, v := range ans.Violations {
		k := key(v.Kind)
		if seen[k] {
			continue
		}
		seen[k] = true
		cr.Violations = append(cr.Violations, explore.Violation{Key: k, Msg: fmt.Sprintf("%s: %s at %s: %s", cr.Desc, v.Kind, v.Where, v.Detail),
			Detail: map[string]interface{}{"schema": string(js), "instances": instances}})
	}
	cr.ObsKey = fmt.Sprintf("%s refs=%d structs=%d inst=%d viol=%d", cs.Group, ans.Stats["refs"], ans.Stats["structs_compared"], ans.Stats["instances"], len(cr.Violations))
	return cr
}

// ---- public API conformance of the hook: WithInputStruct[T](style) must equal the hook's result ----

func c18Public[T any](style int) *mcp.Tool {
	switch style {
	case 3: // no style option at all: the default (inline) style through its own entry point
		return mcp.NewTool("t", mcp.WithInputStruct[T](), mcp.WithOutputStruct[T]())
	case 0:
		return mcp.NewTool("t", mcp.WithInputStruct[T](mcp.WithInlineStyle()), mcp.WithOutputStruct[T](mcp.WithInlineStyle()))
	case 1:
		return mcp.NewTool("t", mcp.WithInputStruct[T](mcp.WithRefStyle()), mcp.WithOutputStruct[T](mcp.WithRefStyle()))
	}
	return mcp.NewTool("t", mcp.WithInputStruct[T](mcp.WithNestedRefStyle()), mcp.WithOutputStruct[T](mcp.WithNestedRefStyle()))
}

var c18PublicTools = []struct {
	name string
	t    reflect.Type
	mk   func(style int) *mcp.Tool
}{
	{"Node", reflect.TypeOf(C18Node{}), c18Public[C18Node]},
	{"Tree", reflect.TypeOf(C18Tree{}), c18Public[C18Tree]},
	{"A", reflect.TypeOf(C18A{}), c18Public[C18A]},
	{"Wide", reflect.TypeOf(C18Wide{}), c18Public[C18Wide]},
	{"G[G[string]]", reflect.TypeOf(C18G[C18G[string]]{}), c18Public[C18G[C18G[string]]]},
	{"SameName", reflect.TypeOf(C18SameName{}), c18Public[C18SameName]},
	{"EmbDeep", reflect.TypeOf(C18EmbDeep{}), c18Public[C18EmbDeep]},
	{"Slash", reflect.TypeOf(C18Slash{}), c18Public[C18Slash]},
	{"Times", reflect.TypeOf(C18Times{}), c18Public[C18Times]},
	{"Inner", reflect.TypeOf(C18Inner{}), c18Public[C18Inner]},
}

// stripAddrs removes the run-dependent addresses the $defs generator puts into names of anonymous types.
func c18HookEval(tier string, i int) CaseResult {
	pt := c18PublicTools[i/4]
	style := i % 4
	styleName := "default(no option)"
	genStyle := 0
	if style < 3 {
		styleName, genStyle = c18Styles[style], style
	}
	cr := CaseResult{Desc: fmt.Sprintf("WithInputStruct[%s](%s) vs VerifSchemaForType", pt.name, styleName), Nontrivial: true}
	// another tool is declared from the same struct type first and extended with builder options (a
	// pagination cursor, say): what one tool adds to its schema is no business of the next one
	base := hx.CanonOf(pt.mk(style).InputSchema) // the schema of the type before anybody touched a tool built from it
	other := pt.mk(style)
	mcp.WithString("cursor", mcp.Required(), mcp.Description("added by the other tool"))(other)
	mcp.WithNumber("limit")(other)
	tool := pt.mk(style)
	pub := hx.CanonOf(tool.InputSchema)
	pubOut := hx.CanonOf(tool.OutputSchema)
	if strings.Contains(pub, `"cursor"`) || strings.Contains(pubOut, `"cursor"`) || strings.Contains(pub, `"limit"`) {
		cr.Violations = append(cr.Violations, V("schema-shared-between-tools:"+styleName, "%s: a second tool declared from the same struct type carries the parameters another tool added to its own schema with builder options: %s", cr.Desc, truncate(pub, 300)))
		cr.ObsKey = "shared"
		return cr
	}
	if pub != base {
		cr.Violations = append(cr.Violations, V("schema-shared-between-tools:"+styleName, "%s: the schema of a tool declared from the struct type changed after another tool of the same type was extended: %s, before %s", cr.Desc, truncate(pub, 200), truncate(base, 200)))
		cr.ObsKey = "shared"
		return cr
	}
	if style == 3 {
		// (the default generator has no verification hook of its own: the styles with options are compared below)
		cr.ObsKey = fmt.Sprintf("default len=%d", len(pub))
		return cr
	}
	js, fault := c18Generate(pt.t, genStyle)
	if fault != "" {
		cr.Broken = fault
		return cr
	}
	hook := hx.Canon(js)
	if pub != hook || pubOut != hook {
		cr.Broken = fmt.Sprintf("%s: the verification hook does not reproduce the public API: public %s hook %s", cr.Desc, truncate(pub, 200), truncate(hook, 200))
	}
	cr.ObsKey = fmt.Sprintf("equal len=%d", len(hook))
	return cr
}

// ---- typed handler binding ----

type C18Args struct {
	S    string             `json:"s"`
	I    int                `json:"i"`
	I64  int64              `json:"i64"`
	U8   uint8              `json:"u8"`
	U64  uint64             `json:"u64"`
	F    float64            `json:"f"`
	F32  float32            `json:"f32"`
	B    bool               `json:"b"`
	P    *int               `json:"p,omitempty"`
	L    []int64            `json:"l"`
	M    map[string]float64 `json:"m"`
	N    C18Inner           `json:"n"`
	NP   *C18Node           `json:"np,omitempty"`
	Any  interface{}        `json:"any"`
	At   time.Time          `json:"at"`
	Blob []byte             `json:"blob"`
	Q    int64              `json:"q,string"`
	Arr  [2]string          `json:"arr"`
	C18Inner2
}

type c18BindCase struct {
	name string
	run  func(mode string, variant int) (sent, expect, got string, err error)
}

func c18BindRun[T any](mode string, variant int) (sent, expect, got string, err error) {
	var zero T
	val, _ := c18Populate(reflect.TypeOf(zero), variant)
	b, merr := json.Marshal(val.Interface())
	if merr != nil {
		return "", "", "", merr
	}
	sent = string(b)
	// reference binding: encoding/json applied directly to the bytes the caller sends
	var ref T
	if uerr := json.Unmarshal(b, &ref); uerr != nil {
		return sent, "", "", uerr
	}
	expect = fmt.Sprintf("%#v", c18Flatten(ref))
	var args map[string]interface{}
	json.Unmarshal(b, &args)
	r := NewRig(mode)
	got = "!handler not called"
	r.RegisterTool(mcp.NewTool("typed", mcp.WithInputStruct[T]()), mcp.NewTypedToolHandler(func(ctx context.Context, req *mcp.CallToolRequest, in T) (C18Inner, error) {
		got = fmt.Sprintf("%#v", c18Flatten(in))
		return C18Inner{A: "ok"}, nil
	}))
	r.Start()
	cl, cerr := r.Connect()
	if cerr != nil {
		return sent, expect, got, cerr
	}
	done := &hx.Flag{}
	var callErr error
	var isErr bool
	var text string
	var sparseDiff string
	vsched.Go("caller", func() {
		defer done.Set()
		rq := &mcp.CallToolRequest{}
		rq.Params.Name = "typed"
		rq.Params.Arguments = args
		out, e := cl.CallTool(context.Background(), rq)
		callErr = e
		if e == nil {
			isErr = out.IsError
			text = TextOf(out)
		}
		first := got
		// later calls on the same tool with sparser arguments: what an earlier call carried must not show through
		keys := make([]string, 0, len(args))
		for k := range args {
			keys = append(keys, k)
		}
		sort.Strings(keys)
		for _, sub := range [][]string{{}, keys[:len(keys)/2], keys[len(keys)/2:]} {
			part := map[string]interface{}{}
			for _, k := range sub {
				part[k] = args[k]
			}
			pb, _ := json.Marshal(part)
			var ref T
			if json.Unmarshal(pb, &ref) != nil {
				continue
			}
			want := fmt.Sprintf("%#v", c18Flatten(ref))
			rq2 := &mcp.CallToolRequest{}
			rq2.Params.Name = "typed"
			rq2.Params.Arguments = part
			if o2, e2 := cl.CallTool(context.Background(), rq2); e2 != nil || o2.IsError {
				sparseDiff = fmt.Sprintf("call with arguments %s failed: %v %s", pb, e2, TextOf(o2))
				break
			}
			if got != want {
				sparseDiff = fmt.Sprintf("after a fully populated call, a call with arguments %s reached the handler as %s; encoding/json decodes them to %s", truncate(string(pb), 200), truncate(got, 300), truncate(want, 300))
				break
			}
		}
		got = first
	})
	vsched.Quiesce()
	if sparseDiff != "" && callErr == nil && !isErr {
		return sent, expect, "!" + sparseDiff, nil
	}
	cl.Close()
	if !done.Get() {
		return sent, expect, got, fmt.Errorf("call never returned")
	}
	if callErr != nil {
		return sent, expect, got, callErr
	}
	if isErr {
		return sent, expect, "!tool error: " + text, nil
	}
	return sent, expect, got, nil
}

// c18Flatten turns a value into a pointer-free printable form (so that %#v compares contents).
func c18Flatten(v interface{}) interface{} {
	b, _ := json.Marshal(v)
	return hx.Canon(b) + fmt.Sprintf(" go=%+v", derefAll(reflect.ValueOf(v)))
}

func derefAll(v reflect.Value) interface{} {
	switch v.Kind() {
	case reflect.Ptr, reflect.Interface:
		if v.IsNil() {
			return nil
		}
		return derefAll(v.Elem())
	case reflect.Struct:
		if t, ok := v.Interface().(time.Time); ok {
			return t.UTC().Format(time.RFC3339Nano)
		}
		m := []interface{}{}
		for i := 0; i < v.NumField(); i++ {
			if v.Type().Field(i).IsExported() {
				m = append(m, v.Type().Field(i).Name, derefAll(v.Field(i)))
			}
		}
		return m
	case reflect.Slice, reflect.Array:
		if v.Kind() == reflect.Slice && v.IsNil() {
			return "nil-slice"
		}
		out := []interface{}{}
		for i := 0; i < v.Len(); i++ {
			out = append(out, derefAll(v.Index(i)))
		}
		return out
	case reflect.Map:
		if v.IsNil() {
			return "nil-map"
		}
		return hx.CanonOf(v.Interface())
	}
	return v.Interface()
}

var c18BindCases = []c18BindCase{
	{"Args", c18BindRun[C18Args]},
	{"Inner", c18BindRun[C18Inner]},
	{"Node", c18BindRun[C18Node]},
	{"Tree", c18BindRun[C18Tree]},
	{"G[G[string]]", c18BindRun[C18G[C18G[string]]]},
	{"EmbDeep", c18BindRun[C18EmbDeep]},
	{"Times", c18BindRun[C18Times]},
	{"Slash", c18BindRun[C18Slash]},
}

var c18BindModes = []string{"sj", "ss", "ls", "io"}

func c18BindEval(tier string, i int) CaseResult {
	n := len(c18BindCases)
	bc := c18BindCases[i%n]
	variant := (i / n) % 3
	mode := c18BindModes[i/(3*n)]
	cr := CaseResult{Desc: fmt.Sprintf("typed handler %s variant=%d mode=%s", bc.name, variant, mode), Nontrivial: true}
	var viol []explore.Violation
	obs := &hx.Log{}
	res := vsched.Run(vsched.Config{}, func() {
		sent, expect, got, err := bc.run(mode, variant)
		if err != nil {
			viol = append(viol, V(fmt.Sprintf("bind-call-fails:%s:%s", bc.name, mode), "%s: %v (sent %s)", cr.Desc, err, truncate(sent, 200)))
			return
		}
		if expect != got {
			viol = append(viol, V(fmt.Sprintf("bind-differs:%s:%s", bc.name, mode), "%s: the handler received %s, encoding/json decodes the sent arguments to %s", cr.Desc, truncate(got, 400), truncate(expect, 400)))
		}
		obs.Add("bound %d bytes", len(sent))
	})
	o := finishOutcome(res, obs, viol, true)
	cr.ObsKey = cr.Desc + o.ObsKey
	cr.Violations = o.Violations
	cr.Broken = o.Broken
	return cr
}

// ---- tools/list: the schema read by the client is the schema registered ----

func c18ListEval(tier string, i int) CaseResult {
	cases := c18Cases(tier)
	cs := cases[i/3]
	style := i % 3
	sname := c18Styles[style]
	mode := []string{"sj", "ls", "io", "ss"}[(i/3)%4]
	cr := CaseResult{Desc: fmt.Sprintf("tools/list of [%s] %s style=%s mode=%s", cs.Group, cs.Desc, sname, mode), Nontrivial: true}
	key := func(kind string) string { return fmt.Sprintf("%s:%s:%s", kind, sname, cs.Feature) }
	js, fault := c18Generate(cs.T, style)
	if fault != "" {
		cr.ObsKey = "generator fault (reported by c18/schemas)"
		return cr
	}
	registered := hx.Canon(js)
	var viol []explore.Violation
	obs := &hx.Log{}
	res := vsched.Run(vsched.Config{}, func() {
		r := NewRig(mode)
		tool := mcp.NewTool("t", mcp.WithDescription("d"))
		tool.InputSchema = mcp.VerifSchemaForType(cs.T, style)
		tool.OutputSchema = mcp.VerifSchemaForType(cs.T, style)
		r.RegisterTool(tool, func(ctx context.Context, req *mcp.CallToolRequest) (*mcp.CallToolResult, error) {
			return mcp.NewTextResult("x"), nil
		})
		r.Start()
		cl, err := r.Connect()
		if err != nil {
			viol = append(viol, V("harness", "connect: %v", err))
			return
		}
		done := &hx.Flag{}
		var out *mcp.ListToolsResult
		var lerr error
		vsched.Go("lister", func() { defer done.Set(); out, lerr = cl.ListTools(context.Background(), &mcp.ListToolsRequest{}) })
		vsched.Quiesce()
		cl.Close()
		switch {
		case !done.Get():
			viol = append(viol, V(key("list-hangs"), "%s: ListTools never returned", cr.Desc))
		case lerr != nil:
			viol = append(viol, V(key("list-fails"), "%s: ListTools failed: %v", cr.Desc, lerr))
		case len(out.Tools) != 1:
			viol = append(viol, V(key("tool-dropped"), "%s: the client lists %d tools, 1 is registered (schema %s)", cr.Desc, len(out.Tools), truncate(registered, 300)))
		default:
			t := out.Tools[0]
			if got := hx.Canon(t.RawInputSchema); got != registered {
				viol = append(viol, V(key("raw-input-schema-differs"), "%s: RawInputSchema %s, registered %s", cr.Desc, truncate(got, 300), truncate(registered, 300)))
			}
			if got := hx.Canon(t.RawOutputSchema); got != registered {
				viol = append(viol, V(key("raw-output-schema-differs"), "%s: RawOutputSchema %s, registered %s", cr.Desc, truncate(got, 300), truncate(registered, 300)))
			}
			if got := hx.CanonOf(t.InputSchema); got != registered {
				viol = append(viol, V(key("input-schema-differs"), "%s: InputSchema re-encodes to %s, registered %s", cr.Desc, truncate(got, 300), truncate(registered, 300)))
			}
			if got := hx.CanonOf(t.OutputSchema); got != registered {
				viol = append(viol, V(key("output-schema-differs"), "%s: OutputSchema re-encodes to %s, registered %s", cr.Desc, truncate(got, 300), truncate(registered, 300)))
			}
		}
		obs.Add("listed")
	})
	o := finishOutcome(res, obs, viol, true)
	cr.ObsKey = fmt.Sprintf("%s %s %d", cs.Group, o.ObsKey, len(registered)/64)
	cr.Violations = o.Violations
	cr.Broken = o.Broken
	return cr
}

func init() {
	RegisterEnum(&Enum{Name: "c18/schemas", Doc: "every struct type of the grammar (leaves x constructors to the tier's depth x field tag variants), every repeated-occurrence and embedding shape, and a compiled corpus of recursive / generic / standard-library types, x 3 generation styles: termination, $ref resolution, field names vs encoding/json, acceptance of encoding/json's output for fully populated values (python jsonschema, Draft 2020-12)",
		Count: func(tier string) int { return 3 * len(c18Cases(tier)) }, Eval: c18SchemaEval})
	RegisterEnum(&Enum{Name: "c18/hook", Doc: "conformance of the run-time hook: WithInputStruct[T]/WithOutputStruct[T] with each style option equals VerifSchemaForType(T, style) on compiled types",
		Count: func(string) int { return 4 * len(c18PublicTools) }, Eval: c18HookEval})
	RegisterEnum(&Enum{Name: "c18/bind", Doc: "typed tool handlers end-to-end on 4 transports: the value the handler receives equals encoding/json's own decoding of the argument bytes the caller sent (3 value variants incl. +-2^53)",
		Count: func(string) int { return len(c18BindCases) * 3 * len(c18BindModes) }, Eval: c18BindEval})
	RegisterEnum(&Enum{Name: "c18/list", Doc: "every generated schema registered as a tool's input and output schema and read back with the library client's ListTools (transport rotates over sj, ls, io, ss): raw and re-encoded schemas equal the registered one as JSON",
		Count: func(tier string) int { return 3 * len(c18Cases(tier)) }, Eval: c18ListEval})
	RegisterCheck("C18", func(c *Ctx) {
		c.Level = "exploration"
		c.Rule = "complete enumeration of a type grammar (16 leaf kinds incl. []byte, time.Time, interface{}, json.RawMessage, json.Number, net.IP; constructors pointer/slice/array/map[string]/map[int]/struct to depth 1 (quick) or 3 (thorough); 26 field-tag variants (incl. member names error, result, jsonrpc, method, id, params)), 216 repeated-occurrence shapes, 24 deep repeated-occurrence shapes (first occurrence 2-7 object levels below the root), 12 embedding shapes and 18 compiled recursive/generic/standard-library types, each x 3 generation styles; oracle: independent python jsonschema Draft 2020-12 validator, RFC 6901 $ref resolution, field names compared with a reference model that is itself checked against encoding/json's output on every case"
		c.Assume = append(c.Assume, "types beyond the grammar depth and field-tag combinations beyond one varied field per struct are not enumerated", "fully populated value = 3 deterministic variants per type (typical, boundary, alternative); recursive values are cut at depth 2 and types whose only finite values contain a mandatory nil pointer are exempt from the acceptance clause")
		c.Enumerate("c18/hook")
		c.Enumerate("c18/schemas")
		c.Enumerate("c18/bind")
		c.Enumerate("c18/list")
	})
}
