// Package x (second of two packages with the same name) for the C18 type corpus.
package x

// T shares its package-qualified short name ("x.T") with c18a/x.T.
type T struct {
	B int `json:"b"`
}
