package props

import (
	"context"
	"encoding/json"
	"fmt"
	"net/http"
	"sort"
	"strings"
	"time"

	mcp "trpc.group/trpc-go/trpc-mcp-go"
	"verif.local/engine/explore"
	"verif.local/engine/memnet"
	"verif.local/engine/vsched"
	"verif.local/harness/hx"
)

// C09 — one message per frame: SSE events and stdio lines never interleave.

var c09Payloads = map[string]string{
	"small": "pay", "pct": "5% %d %s 100%", "lf": "a\nb", "crlf": "a\r\nb", "cr": "a\rb", "u2028": "a b c", "4097": strings.Repeat("x", 4097), "65537": strings.Repeat("y", 65537),
}

func c09PayloadNames() []string {
	var ks []string
	for k := range c09Payloads {
		ks = append(ks, k)
	}
	// short payloads first: the cheap classes are explored before the expensive ones
	sort.Slice(ks, func(i, j int) bool {
		if li, lj := len(c09Payloads[ks[i]]), len(c09Payloads[ks[j]]); li != lj {
			return li < lj
		}
		return ks[i] < ks[j]
	})
	return ks
}

func init() {
	for _, pl := range c09PayloadNames() {
		pl := pl
		RegisterScenario(&Scenario{Name: "c09/io-server/" + pl, Run: func(p []int, m []vsched.ChoicePoint) explore.Outcome { return c09IOServer(p, pl) },
			Doc: "stdio server: two concurrent requests, one of whose handlers issues roots/list through the outgoing pump; stdout recorded byte-wise"})
		RegisterScenario(&Scenario{Name: "c09/io-server-bad/" + pl, Run: func(p []int, m []vsched.ChoicePoint) explore.Outcome { return c09IOServerV(p, pl, true) },
			Doc: "stdio server: as io-server, with a non-JSON line and a non-JSON-RPC line between the two requests (their error replies share stdout with everything else)"})
		RegisterScenario(&Scenario{Name: "c09/io-client/" + pl, Run: func(p []int, m []vsched.ChoicePoint) explore.Outcome { return c09IOClient(p, pl) },
			Doc: "stdio client: a pending CallTool || the reader answering an unknown server request; stdin recorded byte-wise"})
		RegisterScenario(&Scenario{Name: "c09/get-stream/" + pl, Run: func(p []int, m []vsched.ChoicePoint) explore.Outcome { return c09GetStream(p, pl) },
			Doc: "Streamable GET stream: SendNotification || SendNotification || ListRoots request"})
		RegisterScenario(&Scenario{Name: "c09/get-resume/" + pl, Run: func(p []int, m []vsched.ChoicePoint) explore.Outcome { return c09GetResume(p, pl) },
			Doc: "Streamable GET stream opened with Last-Event-ID (a resuming client): the server's stream/resumed greeting || SendNotification || ListRoots request, sent as soon as the stream's headers are in"})
		RegisterScenario(&Scenario{Name: "c09/ls-tick/" + pl, Run: func(p []int, m []vsched.ChoicePoint) explore.Outcome { return c09LSStream(p, pl, true) },
			Doc: "legacy SSE stream: one response || server-issued roots/list || keep-alive tick (a clock thread fires the earliest timer at an arbitrary point)"})
		RegisterScenario(&Scenario{Name: "c09/ls-push/" + pl, Run: func(p []int, m []vsched.ChoicePoint) explore.Outcome { return c09LSPush(p, pl) },
			Doc: "legacy SSE stream: one response (event queue) || one pushed notification (notification pump)"})
		RegisterScenario(&Scenario{Name: "c09/ls-stream/" + pl, Run: func(p []int, m []vsched.ChoicePoint) explore.Outcome { return c09LSStream(p, pl, false) },
			Doc: "legacy SSE stream: two responses (event queue) || server-issued roots/list"})
		RegisterScenario(&Scenario{Name: "c09/post-sse/" + pl, Run: func(p []int, m []vsched.ChoicePoint) explore.Outcome { return c09PostSSE(p, pl) },
			Doc: "POST-SSE stream: handler emits three notifications with the payload, then the result"})
	}
	RegisterCheck("C09", func(c *Ctx) {
		c.Level = "exploration"
		c.Rule = "DFS (sleep-set reduced) over schedules of concurrent writers on one stream, every Write/Flush of the stream being a scheduling point; the recorded byte stream is split by a reference line reader / WHATWG SSE parser and must yield exactly the multiset of messages written, each parseable alone; distinct by (frame order, verdict)"
		c.Assume = append(c.Assume, "a pipe write larger than PIPE_BUF (4096) is delivered in pieces with scheduling points in between", "memnet replaces net/http; an http.ResponseWriter is modelled as not safe for concurrent use (Write and Flush are begin/commit pairs, an overlap is a violation)", "sleep-set partial-order reduction (DESIGN 2.8)")
		for _, pl := range c09PayloadNames() {
			big := len(c09Payloads[pl]) > 1000
			pb := c.Pick(3, 5)
			if big {
				pb = c.Pick(2, 3)
			}
			b := explore.Bounds{Preempt: pb, Dev: 1, POR: true}
			c.DFSBoth("c09/io-server/"+pl, b, 1)
			if !c.Quick() || pl == "small" || pl == "lf" || pl == "65537" {
				c.DFSBoth("c09/io-server-bad/"+pl, b, 1) // quick tier: three payload classes
			}
			c.DFSBoth("c09/io-client/"+pl, b, 1)
			c.DFS("c09/post-sse/"+pl, explore.Bounds{Preempt: 1, Dev: 1, POR: true})
			c.DFSBoth("c09/ls-push/"+pl, b, 1) // (two writers: cheap enough for every class)
			if c.Quick() && pl != "small" && pl != "65537" && pl != "lf" {
				continue // quick tier: the other HTTP stream scenarios run for three payload classes (thorough: all eight)
			}
			c.DFSBoth("c09/get-stream/"+pl, b, 1)
			c.DFSBoth("c09/get-resume/"+pl, b, 1)
			c.DFSBoth("c09/ls-stream/"+pl, b, 0)
			c.DFS("c09/ls-tick/"+pl, explore.Bounds{Preempt: c.Pick(2, 3), Dev: 1, POR: true})
		}
	})
}

// checkLines: every newline-terminated line holds exactly one JSON value; returns canonical forms.
func c09Lines(stream []byte, where string) (canon []string, viol []explore.Violation) {
	s := string(stream)
	if s != "" && !strings.HasSuffix(s, "\n") {
		viol = append(viol, V("unterminated:"+where, "the stream does not end with a newline: …%q", truncate(s[len(s)-min(len(s), 40):], 60)))
	}
	for _, ln := range strings.Split(s, "\n") {
		if ln == "" {
			continue
		}
		c := hx.Canon([]byte(ln))
		if strings.HasPrefix(c, "!invalid") {
			viol = append(viol, V("frame-corrupt:"+where, "a line is not exactly one JSON value (%s): %q", c, truncate(ln, 120)))
			continue
		}
		canon = append(canon, c)
	}
	if strings.Contains(s, "\n\n") {
		viol = append(viol, V("empty-line:"+where, "an empty line appears on the stream (a frame lost its terminator to another frame)"))
	}
	return
}

func min(a, b int) int {
	if a < b {
		return a
	}
	return b
}

// c09SSE: the byte stream parses into events each carrying exactly one JSON message.
func c09SSE(stream []byte, where string) (canon []string, viol []explore.Violation) {
	evs, _, residue := hx.ParseSSE(stream)
	if residue {
		viol = append(viol, V("sse-residue:"+where, "the stream ends inside an event: …%q", truncate(string(stream[len(stream)-min(len(stream), 60):]), 80)))
	}
	for _, e := range evs {
		if e.Event == "endpoint" {
			continue
		}
		c := hx.Canon([]byte(e.Data))
		if strings.HasPrefix(c, "!invalid") {
			viol = append(viol, V("frame-corrupt:"+where, "an SSE event does not carry exactly one JSON message (%s): %q", c, truncate(e.Data, 120)))
			continue
		}
		canon = append(canon, c)
	}
	return
}

// expectFrames compares the multiset of received messages with predicates describing the expected ones.
func c09Expect(got []string, where string, want map[string]func(m map[string]interface{}) bool) []explore.Violation {
	var viol []explore.Violation
	used := make([]bool, len(got))
	names := make([]string, 0, len(want))
	for n := range want {
		names = append(names, n)
	}
	sort.Strings(names)
	for _, n := range names {
		found := 0
		for i, g := range got {
			var m map[string]interface{}
			if json.Unmarshal([]byte(g), &m) != nil {
				continue
			}
			if want[n](m) {
				found++
				used[i] = true
			}
		}
		if found != 1 {
			viol = append(viol, V("frame-count:"+where, "message %q appears %d times on the stream, want exactly once", n, found))
		}
	}
	for i, g := range got {
		if !used[i] {
			viol = append(viol, V("frame-extra:"+where, "unexpected message on the stream: %s", truncate(g, 120)))
		}
	}
	return viol
}

func hasID(id float64) func(map[string]interface{}) bool {
	return func(m map[string]interface{}) bool {
		v, ok := m["id"].(float64)
		_, isReq := m["method"]
		return ok && v == id && !isReq
	}
}

func isMethod(method string) func(map[string]interface{}) bool {
	return func(m map[string]interface{}) bool { return m["method"] == method }
}

func resultText(m map[string]interface{}) string {
	r, _ := m["result"].(map[string]interface{})
	c, _ := r["content"].([]interface{})
	if len(c) != 1 {
		return ""
	}
	it, _ := c[0].(map[string]interface{})
	t, _ := it["text"].(string)
	return t
}

func c09IOServer(prefix []int, pl string) explore.Outcome { return c09IOServerV(prefix, pl, false) }

// c09IOServerV: with bad=true two lines the server cannot serve (not JSON; JSON but no JSON-RPC
// message) arrive between the two requests: their error replies are frames like any other.
func c09IOServerV(prefix []int, pl string, bad bool) explore.Outcome {
	var viol []explore.Violation
	obs := &hx.Log{}
	payload := c09Payloads[pl]
	res := vsched.Run(cfgFor(prefix), func() {
		vsched.SetBranching(false)
		r := NewRig("io")
		r.S2C.Atomic = 4096
		r.RegisterTool(mcp.NewTool("echo"), func(ctx context.Context, req *mcp.CallToolRequest) (*mcp.CallToolResult, error) {
			return mcp.NewTextResult("echo:" + payload), nil
		})
		r.RegisterTool(mcp.NewTool("roots"), func(ctx context.Context, req *mcp.CallToolRequest) (*mcp.CallToolResult, error) {
			srv, _ := mcp.GetServerFromContext(ctx).(*mcp.StdioServer)
			if srv == nil {
				return mcp.NewTextResult("no-server"), nil
			}
			rr, err := srv.ListRoots(ctx)
			if err != nil {
				return mcp.NewTextResult("roots-error:" + err.Error()), nil
			}
			return mcp.NewTextResult(fmt.Sprintf("roots:%d", len(rr.Roots))), nil
		})
		r.Start()
		rp := NewRawPeer(r)
		if err := rp.Handshake(); err != nil {
			viol = append(viol, V("setup-handshake-fails", "setting the scenario up with well-behaved peers fails: %v", err))
			return
		}
		vsched.Quiesce()
		vsched.SetBranching(true)
		vsched.Go("answerer", func() {
			f, ok := rp.Await("roots/list request", func(s string) bool { return strings.Contains(s, `"roots/list"`) && hx.Canon([]byte(s))[0] == '{' })
			if !ok {
				return
			}
			var m struct {
				ID json.RawMessage `json:"id"`
			}
			json.Unmarshal([]byte(f), &m)
			r.C2S.Write([]byte(fmt.Sprintf(`{"jsonrpc":"2.0","id":%s,"result":{"roots":[{"uri":"file:///a"}]}}`+"\n", m.ID)))
		})
		junk := ""
		where := "io-server"
		if bad {
			junk = "this is not json {\n" + `{"foo":1}` + "\n"
			where = "io-server-bad"
		}
		r.C2S.Write([]byte(`{"jsonrpc":"2.0","id":11,"method":"tools/call","params":{"name":"echo"}}` + "\n" + junk + `{"jsonrpc":"2.0","id":12,"method":"tools/call","params":{"name":"roots"}}` + "\n"))
		vsched.Quiesce()
		got, v := c09Lines(r.S2C.Stream(), where)
		viol = append(viol, v...)
		errCode := func(code float64) func(map[string]interface{}) bool {
			return func(m map[string]interface{}) bool {
				e, _ := m["error"].(map[string]interface{})
				return e != nil && e["code"] == code
			}
		}
		want := map[string]func(map[string]interface{}) bool{
			"init response":      func(m map[string]interface{}) bool { return m["id"] == "init-0" },
			"echo response":      func(m map[string]interface{}) bool { return hasID(11)(m) && resultText(m) == "echo:"+payload },
			"roots response":     func(m map[string]interface{}) bool { return hasID(12)(m) && resultText(m) == "roots:1" },
			"roots/list request": isMethod("roots/list"),
		}
		if bad {
			want["parse-error reply"] = errCode(-32700)
			want["invalid-request reply"] = errCode(-32600)
		}
		viol = append(viol, c09Expect(got, where, want)...)
		obs.Add("%d lines", len(got))
	})
	return finishOutcome(res, obs, viol, true)
}

func c09IOClient(prefix []int, pl string) explore.Outcome {
	var viol []explore.Violation
	obs := &hx.Log{}
	payload := c09Payloads[pl]
	res := vsched.Run(cfgFor(prefix), func() {
		vsched.SetBranching(false)
		c2s, s2c := memnet.NewPipe(1<<30), memnet.NewPipe(1<<30)
		c2s.Atomic = 4096
		cl, _, err := mcp.VerifNewStdioClientOverPipes(memnet.WEnd{P: c2s}, memnet.REnd{P: s2c}, nil, 30*time.Second, mcp.Implementation{Name: "c", Version: "1"}, mcp.WithStdioLogger(hx.Nop{}))
		if err != nil {
			viol = append(viol, V("setup-handshake-fails", "setting the scenario up with well-behaved peers fails: %v", err))
			return
		}
		// scripted server: answers initialize, then — once the tools/call request has been seen to
		// start arriving or not at all (explored) — sends an unknown request and the call's answer
		script := &c09Script{in: c2s, out: s2c}
		vsched.Go("scripted-server", script.run)
		if _, err := cl.Initialize(context.Background(), &mcp.InitializeRequest{}); err != nil {
			viol = append(viol, V("harness", "initialize: %v", err))
			return
		}
		vsched.Quiesce()
		vsched.SetBranching(true)
		var callErr error
		var out *mcp.CallToolResult
		done := &hx.Flag{}
		vsched.Go("caller", func() {
			rq := &mcp.CallToolRequest{}
			rq.Params.Name = "t"
			rq.Params.Arguments = map[string]interface{}{"p": payload}
			out, callErr = cl.CallTool(context.Background(), rq)
			done.Set()
		})
		vsched.Go("server-request", func() {
			s2c.Write([]byte(`{"jsonrpc":"2.0","id":77,"method":"foo/unknown"}` + "\n"))
		})
		vsched.Quiesce()
		if !done.Get() {
			viol = append(viol, V("call-hangs:io-client", "CallTool did not return; blocked %v", vsched.LiveThreads()))
		} else if callErr != nil || TextOf(out) != "done" {
			viol = append(viol, V("call-fails:io-client", "CallTool: %v %q", callErr, TextOf(out)))
		}
		got, v := c09Lines(c2s.Stream(), "io-client")
		viol = append(viol, v...)
		viol = append(viol, c09Expect(got, "io-client", map[string]func(map[string]interface{}) bool{
			"initialize":  isMethod("initialize"),
			"initialized": isMethod("notifications/initialized"),
			"tools/call": func(m map[string]interface{}) bool {
				p, _ := m["params"].(map[string]interface{})
				a, _ := p["arguments"].(map[string]interface{})
				return m["method"] == "tools/call" && a["p"] == payload
			},
			"error answer to the unknown request": func(m map[string]interface{}) bool { _, isErr := m["error"]; return isErr && m["id"] == float64(77) },
		})...)
		obs.Add("%d lines", len(got))
	})
	return finishOutcome(res, obs, viol, true)
}

type c09Script struct {
	in, out *memnet.Pipe
	buf     []byte
}

func (s *c09Script) run() {
	b := make([]byte, 1<<16)
	for {
		n, err := s.in.Read(b)
		if n > 0 {
			s.buf = append(s.buf, b[:n]...)
			for {
				k := strings.IndexByte(string(s.buf), '\n')
				if k < 0 {
					break
				}
				line := string(s.buf[:k])
				s.buf = s.buf[k+1:]
				var m struct {
					ID     json.RawMessage `json:"id"`
					Method string          `json:"method"`
				}
				if json.Unmarshal([]byte(line), &m) != nil {
					continue // a corrupted line: the oracle reports it from the recorded stream
				}
				switch m.Method {
				case "initialize":
					s.out.Write([]byte(fmt.Sprintf(`{"jsonrpc":"2.0","id":%s,"result":{"protocolVersion":"2025-03-26","capabilities":{"tools":{}},"serverInfo":{"name":"s","version":"1"}}}`+"\n", m.ID)))
				case "tools/call":
					s.out.Write([]byte(fmt.Sprintf(`{"jsonrpc":"2.0","id":%s,"result":{"content":[{"type":"text","text":"done"}]}}`+"\n", m.ID)))
				}
			}
		}
		if err != nil {
			return
		}
	}
}

func c09GetStream(prefix []int, pl string) explore.Outcome {
	defer nonAtomicWriters()() // Write/Flush on a ResponseWriter take time: concurrent use is reported
	var viol []explore.Violation
	obs := &hx.Log{}
	payload := c09Payloads[pl]
	res := vsched.Run(cfgFor(prefix), func() {
		vsched.SetBranching(false)
		r := NewRig("ss")
		rp := NewRawPeer(r)
		if err := rp.Handshake(); err != nil {
			viol = append(viol, V("setup-handshake-fails", "setting the scenario up with well-behaved peers fails: %v", err))
			return
		}
		if err := rp.OpenStream(); err != nil {
			viol = append(viol, V("harness", "GET: %v", err))
			return
		}
		vsched.Quiesce()
		vsched.SetBranching(true)
		sid := rp.SID
		var e1, e2, e3 error
		vsched.Go("notify1", func() {
			e1 = r.Server.SendNotification(sid, "notifications/message", map[string]interface{}{"n": 1, "data": payload})
		})
		vsched.Go("notify2", func() {
			e2 = r.Server.SendNotification(sid, "notifications/message", map[string]interface{}{"n": 2, "data": payload})
		})
		vsched.Go("roots", func() { _, e3 = r.Server.ListRoots(hx.SessionCtx(r.Server, sid)) })
		vsched.Go("answerer", func() {
			id := hx.AwaitRequestID(rp.Stream, "roots/list")
			if id != "" {
				rp.P.Post(sid, fmt.Sprintf(`{"jsonrpc":"2.0","id":%s,"result":{"roots":[]}}`, id))
			}
		})
		vsched.Quiesce()
		if e1 != nil || e2 != nil || e3 != nil {
			viol = append(viol, V("send-fails:get-stream", "sends failed: %v %v %v", e1, e2, e3))
		}
		got, v := c09SSE(rp.Stream.Delivered(), "get-stream")
		viol = append(viol, v...)
		note := func(n float64) func(map[string]interface{}) bool {
			return func(m map[string]interface{}) bool {
				p, _ := m["params"].(map[string]interface{})
				return m["method"] == "notifications/message" && p["n"] == n && p["data"] == payload
			}
		}
		viol = append(viol, c09Expect(got, "get-stream", map[string]func(map[string]interface{}) bool{
			"notification 1": note(1), "notification 2": note(2), "roots/list request": isMethod("roots/list"),
		})...)
		obs.Add("%d events", len(got))
	})
	return finishOutcome(res, obs, viol, true)
}

// c09GetResume: the GET stream is opened with Last-Event-ID while senders wait for nothing but its
// response headers: the server's own first event on the resumed stream shares it with them.
func c09GetResume(prefix []int, pl string) explore.Outcome {
	defer nonAtomicWriters()()
	var viol []explore.Violation
	obs := &hx.Log{}
	payload := c09Payloads[pl]
	res := vsched.Run(cfgFor(prefix), func() {
		vsched.SetBranching(false)
		r := NewRig("ss")
		rp := NewRawPeer(r)
		if err := rp.Handshake(); err != nil {
			viol = append(viol, V("setup-handshake-fails", "setting the scenario up with well-behaved peers fails: %v", err))
			return
		}
		vsched.Quiesce()
		vsched.SetBranching(true)
		sid := rp.SID
		up := &hx.Flag{}
		var e1, e3 error
		vsched.Go("opener", func() {
			_, x, err := rp.P.Open(context.Background(), http.MethodGet, r.URL, sid, nil, map[string]string{"Last-Event-ID": "evt-1-1"})
			if err == nil && x.Status == 200 {
				rp.Stream = x
			}
			up.Set()
		})
		vsched.Go("notify1", func() {
			up.Wait("await the stream's headers")
			e1 = r.Server.SendNotification(sid, "notifications/message", map[string]interface{}{"n": 1, "data": payload})
		})
		vsched.Go("roots", func() {
			up.Wait("await the stream's headers")
			_, e3 = r.Server.ListRoots(hx.SessionCtx(r.Server, sid))
		})
		vsched.Go("answerer", func() {
			up.Wait("await the stream's headers")
			if rp.Stream == nil {
				return
			}
			id := hx.AwaitRequestID(rp.Stream, "roots/list")
			if id != "" {
				rp.P.Post(sid, fmt.Sprintf(`{"jsonrpc":"2.0","id":%s,"result":{"roots":[]}}`, id))
			}
		})
		vsched.Quiesce()
		if rp.Stream == nil {
			viol = append(viol, V("harness", "GET with Last-Event-ID was refused"))
			return
		}
		if e1 != nil || e3 != nil {
			viol = append(viol, V("send-fails:get-resume", "sends issued after the stream's headers were received failed: %v %v", e1, e3))
		}
		got, v := c09SSE(rp.Stream.Delivered(), "get-resume")
		viol = append(viol, v...)
		viol = append(viol, c09Expect(got, "get-resume", map[string]func(map[string]interface{}) bool{
			"notification 1": func(m map[string]interface{}) bool {
				p, _ := m["params"].(map[string]interface{})
				return m["method"] == "notifications/message" && p["n"] == float64(1) && p["data"] == payload
			},
			"roots/list request": isMethod("roots/list"),
			"stream/resumed":     isMethod("stream/resumed"),
		})...)
		var order []string
		for _, g := range got {
			var m map[string]interface{}
			json.Unmarshal([]byte(g), &m)
			order = append(order, fmt.Sprint(m["method"]))
		}
		obs.Add("%d events %v", len(got), order)
	})
	return finishOutcome(res, obs, viol, true)
}

// c09LSPush: the legacy SSE stream with two writers only, one response (event queue) and one pushed
// notification (notification pump).
func c09LSPush(prefix []int, pl string) explore.Outcome {
	c09Push = true
	defer func() { c09Push = false }()
	return c09LSStream(prefix, pl, false)
}

var c09Push bool

func c09LSStream(prefix []int, pl string, tick bool) explore.Outcome {
	defer nonAtomicWriters()() // Write/Flush on a ResponseWriter take time: concurrent use is reported
	var viol []explore.Violation
	obs := &hx.Log{}
	payload := c09Payloads[pl]
	res := vsched.Run(cfgFor(prefix), func() {
		vsched.SetBranching(false)
		r := NewRig("ls")
		r.RegisterTool(mcp.NewTool("echo"), func(ctx context.Context, req *mcp.CallToolRequest) (*mcp.CallToolResult, error) {
			return mcp.NewTextResult("echo:" + payload), nil
		})
		r.RegisterTool(mcp.NewTool("roots"), func(ctx context.Context, req *mcp.CallToolRequest) (*mcp.CallToolResult, error) {
			srv, _ := mcp.GetServerFromContext(ctx).(*mcp.SSEServer)
			if srv == nil {
				return mcp.NewTextResult("no-server"), nil
			}
			rr, err := srv.ListRoots(ctx)
			if err != nil {
				return mcp.NewTextResult("roots-error:" + err.Error()), nil
			}
			return mcp.NewTextResult(fmt.Sprintf("roots:%d", len(rr.Roots))), nil
		})
		rp := NewRawPeer(r)
		if err := rp.Handshake(); err != nil {
			viol = append(viol, V("setup-handshake-fails", "setting the scenario up with well-behaved peers fails: %v", err))
			return
		}
		vsched.Quiesce()
		vsched.SetBranching(true)
		if tick {
			vsched.Go("clock", func() { vsched.FireEarliestTimer() }) // 30 s pass at an arbitrary moment: keep-alive tick
		}
		if !tick {
			vsched.Go("req1", func() {
				rp.P.Do(http.MethodPost, rp.Endpoint, "", []byte(`{"jsonrpc":"2.0","id":11,"method":"tools/call","params":{"name":"echo"}}`), nil)
			})
		}
		if !c09Push {
			vsched.Go("req2", func() {
				rp.P.Do(http.MethodPost, rp.Endpoint, "", []byte(`{"jsonrpc":"2.0","id":12,"method":"tools/call","params":{"name":"roots"}}`), nil)
			})
			vsched.Go("answerer", func() {
				id := hx.AwaitRequestID(rp.Stream, "roots/list")
				if id != "" {
					rp.P.Do(http.MethodPost, rp.Endpoint, "", []byte(fmt.Sprintf(`{"jsonrpc":"2.0","id":%s,"result":{"roots":[{"uri":"file:///a"}]}}`, id)), nil)
				}
			})
		}
		var pushErr error
		if c09Push {
			// the notification pump is the third writer of the stream (after the event queue and the keep-alive)
			vsched.Go("push", func() {
				pushErr = r.SSE.SendNotification("sse-0001", "notifications/message", map[string]interface{}{"n": 1, "data": payload})
			})
		}
		vsched.Quiesce()
		if pushErr != nil {
			viol = append(viol, V("send-fails:ls-stream", "SendNotification failed: %v", pushErr))
		}
		got, v := c09SSE(rp.Stream.Delivered(), "ls-stream")
		viol = append(viol, v...)
		want := map[string]func(map[string]interface{}) bool{
			"init response": func(m map[string]interface{}) bool { return m["id"] == "init-0" },
		}
		if !c09Push {
			want["roots response"] = func(m map[string]interface{}) bool { return hasID(12)(m) && resultText(m) == "roots:1" }
			want["roots/list request"] = isMethod("roots/list")
		}
		if !tick {
			want["echo response"] = func(m map[string]interface{}) bool { return hasID(11)(m) && resultText(m) == "echo:"+payload }
		}
		if c09Push {
			want["pushed notification"] = func(m map[string]interface{}) bool {
				p, _ := m["params"].(map[string]interface{})
				return m["method"] == "notifications/message" && p["n"] == float64(1) && p["data"] == payload
			}
		}
		viol = append(viol, c09Expect(got, "ls-stream", want)...)
		obs.Add("%d events", len(got))
	})
	return finishOutcome(res, obs, viol, true)
}

func c09PostSSE(prefix []int, pl string) explore.Outcome {
	defer nonAtomicWriters()() // Write/Flush on a ResponseWriter take time: concurrent use is reported
	var viol []explore.Violation
	obs := &hx.Log{}
	payload := c09Payloads[pl]
	res := vsched.Run(cfgFor(prefix), func() {
		vsched.SetBranching(false)
		r := NewRig("ss")
		r.RegisterTool(mcp.NewTool("n3"), func(ctx context.Context, req *mcp.CallToolRequest) (*mcp.CallToolResult, error) {
			if ns, ok := mcp.GetNotificationSender(ctx); ok {
				for i := 1; i <= 3; i++ {
					ns.SendCustomNotification("notifications/custom", map[string]interface{}{"n": i, "data": payload})
				}
			}
			return mcp.NewTextResult("echo:" + payload), nil
		})
		rp := NewRawPeer(r)
		if err := rp.Handshake(); err != nil {
			viol = append(viol, V("setup-handshake-fails", "setting the scenario up with well-behaved peers fails: %v", err))
			return
		}
		vsched.SetBranching(true)
		rep := rp.PostOnly(`{"jsonrpc":"2.0","id":11,"method":"tools/call","params":{"name":"n3"}}`)
		got, v := c09SSE(rep.Body, "post-sse")
		viol = append(viol, v...)
		note := func(n float64) func(map[string]interface{}) bool {
			return func(m map[string]interface{}) bool {
				p, _ := m["params"].(map[string]interface{})
				return m["method"] == "notifications/custom" && p["n"] == n && p["data"] == payload
			}
		}
		viol = append(viol, c09Expect(got, "post-sse", map[string]func(map[string]interface{}) bool{
			"n1": note(1), "n2": note(2), "n3": note(3),
			"response": func(m map[string]interface{}) bool { return hasID(11)(m) && resultText(m) == "echo:"+payload },
		})...)
		// order: notifications before the result
		if len(got) == 4 && !strings.Contains(got[3], `"result"`) {
			viol = append(viol, V("order:post-sse", "the result is not the last event of the POST stream"))
		}
		obs.Add("%d events", len(got))
	})
	return finishOutcome(res, obs, viol, true)
}
