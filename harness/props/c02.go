package props

import (
	"context"
	"encoding/json"
	"errors"
	"fmt"
	"sort"
	"strings"
	"sync"

	mcp "trpc.group/trpc-go/trpc-mcp-go"
	"verif.local/engine/explore"
	"verif.local/engine/vsched"
	"verif.local/harness/hx"
)

// C02 — what a handler returns is what the caller receives (wire fidelity).

type c02Case struct {
	Kind         string // tool | prompt | resource | toolerr | prompterr | reserr | tooldesc | promptdesc | resdesc
	Label        string
	Key          string // stable sub-key for known-finding matching (value class, not the mode)
	Tool         func() *mcp.CallToolResult
	Pr           func() *mcp.GetPromptResult
	Res          func() []mcp.ResourceContents
	Err          string
	TDesc        func() *mcp.Tool
	PDesc        func() *mcp.Prompt
	RDesc        func() *mcp.Resource
	NoWireSchema bool // the handler's value is outside the MCP schema by the handler's own choice: only fidelity is judged
}

type strClass struct{ name, val string }

func c02Strings(tier string) []strClass {
	rep := func(n int) string { return strings.Repeat("x", n) }
	s := []strClass{
		{"empty", ""}, {"a", "a"}, {"lf", "\n"}, {"crlf", "\r\n"}, {"cr", "a\rb"}, {"a-lf-b", "a\nb"}, {"lf-lf", "a\n\nb"}, {"trailing-lf", "ab\n"}, {"leading-space", "  a  "},
		{"u2028", "a b"}, {"u2029", "a b"}, {"nul", "a\x00b"}, {"ufffd", "a�b"}, {"nonbmp", "a😀b"}, {"quote-bslash", `"\`},
		{"html", "<a&b>"}, {"data-prefix", "data: x\nid: 7"}, {"invalid-utf8", "a\xffb"},
		// values that coincide with words of the protocol's own envelope (a decoder that looks for them as substrings goes wrong)
		{"percent", "100% %d %s %v %!(x) %%"}, // a frame passed to a printf-style writer as the format
		{"1MiB+1", rep(1<<20 + 1)},            // beyond any 1 MiB line/token limit
		{"kw-error", "error"}, {"kw-result", "result"}, {"kw-jsonrpc", "jsonrpc"}, {"kw-method", "method"}, {"kw-id", "id"}, {"kw-null", "null"},
		{"json-error-object", `{"jsonrpc":"2.0","id":1,"error":{"code":-32603,"message":"x"}}`}, {"json-result-object", `{"jsonrpc":"2.0","id":1,"result":{}}`},
		{"4095", rep(4095)}, {"4096", rep(4096)}, {"4097", rep(4097)}, {"65535", rep(65535)}, {"65536", rep(65536)}, {"65537", rep(65537)},
	}
	if tier == "thorough" {
		s = append(s, strClass{"1MiB", rep(1 << 20)}, strClass{"4MiB", rep(4 << 20)}, strClass{"1MiB-lines", strings.Repeat("line\n", 1<<18)})
	}
	return s
}

var c02Kinds = []string{"text", "image", "audio", "embtext", "embblob"}

func c02Item(kind string, s string, field int) mcp.Content {
	pick := func(i int, def string) string {
		if i == field {
			return s
		}
		return def
	}
	switch kind {
	case "text":
		return mcp.NewTextContent(pick(0, "hello"))
	case "image":
		return mcp.NewImageContent(pick(0, "aGVsbG8="), pick(1, "image/png"))
	case "audio":
		return mcp.NewAudioContent(pick(0, "aGVsbG8="), pick(1, "audio/wav"))
	case "embtext":
		return mcp.NewEmbeddedResource(mcp.TextResourceContents{URI: pick(0, "res://e"), MIMEType: pick(1, "text/plain"), Text: pick(2, "embedded")})
	case "embblob":
		return mcp.NewEmbeddedResource(mcp.BlobResourceContents{URI: pick(0, "res://b"), MIMEType: pick(1, "application/octet-stream"), Blob: pick(2, "AAEC")})
	}
	panic(kind)
}

func c02Fields(kind string) []string {
	switch kind {
	case "text":
		return []string{"text"}
	case "image", "audio":
		return []string{"data", "mimeType"}
	default:
		return []string{"uri", "mimeType", "payload"}
	}
}

var (
	c02Once  sync.Once
	c02Cache map[string][]c02Case
)

func c02Cases(tier string) []c02Case {
	c02Once.Do(func() { c02Cache = map[string][]c02Case{} })
	if cs, ok := c02Cache[tier]; ok {
		return cs
	}
	var out []c02Case
	maxLen := 2
	if tier == "thorough" {
		maxLen = 3
	}
	// sequences of content kinds
	var seqs [][]string
	var gen func(cur []string)
	gen = func(cur []string) {
		seqs = append(seqs, append([]string(nil), cur...))
		if len(cur) == maxLen {
			return
		}
		for _, k := range c02Kinds {
			gen(append(cur, k))
		}
	}
	gen(nil)
	for _, sq := range seqs {
		sq := sq
		out = append(out, c02Case{Kind: "tool", Label: "content=[" + strings.Join(sq, ",") + "]", Key: "seq:" + strings.Join(uniq(sq), "+"), Tool: func() *mcp.CallToolResult {
			r := &mcp.CallToolResult{Content: []mcp.Content{}}
			for _, k := range sq {
				r.Content = append(r.Content, c02Item(k, "", -1))
			}
			return r
		}})
	}
	// every string class in every string field of every kind
	for _, k := range c02Kinds {
		for fi, f := range c02Fields(k) {
			for _, sc := range c02Strings(tier) {
				k, fi, sc := k, fi, sc
				out = append(out, c02Case{Kind: "tool", Label: fmt.Sprintf("%s.%s=<%s>", k, f, sc.name), Key: fmt.Sprintf("str:%s.%s:%s", k, f, sc.name), Tool: func() *mcp.CallToolResult {
					return &mcp.CallToolResult{Content: []mcp.Content{c02Item(k, sc.val, fi)}}
				}})
			}
		}
	}
	// flags, structured content, meta, annotations
	type variant struct {
		name string
		mk   func() *mcp.CallToolResult
	}
	base := func() *mcp.CallToolResult {
		return &mcp.CallToolResult{Content: []mcp.Content{mcp.NewTextContent("t")}}
	}
	type typed struct {
		A int64             `json:"a"`
		B []string          `json:"b"`
		C map[string]string `json:"c,omitempty"`
	}
	prio := func(c mcp.Content) mcp.Content {
		tc := c.(mcp.TextContent)
		tc.Annotations = &struct {
			Audience []mcp.Role `json:"audience,omitempty"`
			Priority float64    `json:"priority,omitempty"`
		}{Audience: []mcp.Role{mcp.RoleUser}, Priority: 0.5}
		return tc
	}
	for _, v := range []variant{
		{"isError", func() *mcp.CallToolResult { r := base(); r.IsError = true; return r }},
		{"isError+empty-content", func() *mcp.CallToolResult { return &mcp.CallToolResult{Content: []mcp.Content{}, IsError: true} }},
		{"NewErrorResult", func() *mcp.CallToolResult { return mcp.NewErrorResult("tool failed\nline2") }},
		{"structured={}", func() *mcp.CallToolResult { r := base(); r.StructuredContent = map[string]interface{}{}; return r }},
		{"structured=nested", func() *mcp.CallToolResult {
			r := base()
			r.StructuredContent = map[string]interface{}{"a": []interface{}{1, "x", map[string]interface{}{"b": nil}}, "c": true}
			return r
		}},
		{"structured=2^53", func() *mcp.CallToolResult {
			r := base()
			r.StructuredContent = map[string]interface{}{"n": int64(9007199254740992), "m": int64(-9007199254740992)}
			return r
		}},
		{"structured=1.5", func() *mcp.CallToolResult {
			r := base()
			r.StructuredContent = map[string]interface{}{"f": 1.5, "e": 1e21, "z": -0.0}
			return r
		}},
		{"structured=u2028", func() *mcp.CallToolResult {
			r := base()
			r.StructuredContent = map[string]interface{}{"s": "a b\n"}
			return r
		}},
		{"structured=typed-struct", func() *mcp.CallToolResult { r := base(); r.StructuredContent = typed{A: 7, B: []string{"x"}}; return r }},
		{"structured=!array", func() *mcp.CallToolResult {
			r := base()
			r.StructuredContent = []interface{}{1, "x", map[string]interface{}{"k": true}}
			return r
		}},
		{"structured=!typed-slice", func() *mcp.CallToolResult {
			r := base()
			r.StructuredContent = []typed{{A: 1}, {A: 2, B: []string{"y"}}}
			return r
		}},
		{"structured=!string", func() *mcp.CallToolResult { r := base(); r.StructuredContent = "just a string"; return r }},
		{"structured=!number", func() *mcp.CallToolResult { r := base(); r.StructuredContent = 3.5; return r }},
		{"structured=!bool", func() *mcp.CallToolResult { r := base(); r.StructuredContent = true; return r }},
		{"structured=protocol-keys", func() *mcp.CallToolResult {
			r := base()
			r.StructuredContent = map[string]interface{}{"error": map[string]interface{}{"code": 1, "message": "m"}, "result": "r", "id": 99, "jsonrpc": "1.0", "method": "m", "params": []interface{}{}, "content": "c", "isError": true}
			return r
		}},
		{"structured=error-key-only", func() *mcp.CallToolResult {
			r := base()
			r.StructuredContent = map[string]interface{}{"error": nil}
			return r
		}},
		{"meta-protocol-keys", func() *mcp.CallToolResult {
			r := base()
			r.Meta = map[string]interface{}{"error": "e", "result": 1, "id": "x"}
			return r
		}},
		{"meta", func() *mcp.CallToolResult { r := base(); r.Meta = map[string]interface{}{"k": "v", "n": 1}; return r }},
		{"annotations", func() *mcp.CallToolResult { r := base(); r.Content[0] = prio(r.Content[0]); return r }},
		{"nil-content-slice", func() *mcp.CallToolResult { return &mcp.CallToolResult{} }},
	} {
		v := v
		out = append(out, c02Case{Kind: "tool", Label: v.name, Key: "variant:" + v.name, Tool: v.mk, NoWireSchema: strings.Contains(v.name, "=!")})
	}
	// prompts
	for n := 0; n <= 2; n++ {
		for _, role := range []mcp.Role{mcp.RoleUser, mcp.RoleAssistant} {
			for _, k := range c02Kinds {
				n, role, k := n, role, k
				out = append(out, c02Case{Kind: "prompt", Label: fmt.Sprintf("messages=%d role=%s content=%s", n, role, k), Key: "prompt:" + k, Pr: func() *mcp.GetPromptResult {
					r := &mcp.GetPromptResult{Description: "d", Messages: []mcp.PromptMessage{}}
					for i := 0; i < n; i++ {
						r.Messages = append(r.Messages, mcp.PromptMessage{Role: role, Content: c02Item(k, "", -1)})
					}
					return r
				}})
				if n == 0 {
					break
				}
			}
		}
	}
	for _, sc := range c02Strings(tier) {
		sc := sc
		out = append(out, c02Case{Kind: "prompt", Label: "message.text=<" + sc.name + ">", Key: "prompt-str:text:" + sc.name, Pr: func() *mcp.GetPromptResult {
			return &mcp.GetPromptResult{Messages: []mcp.PromptMessage{{Role: mcp.RoleUser, Content: mcp.NewTextContent(sc.val)}}}
		}})
		out = append(out, c02Case{Kind: "prompt", Label: "description=<" + sc.name + ">", Key: "prompt-str:description:" + sc.name, Pr: func() *mcp.GetPromptResult {
			return &mcp.GetPromptResult{Description: sc.val, Messages: []mcp.PromptMessage{{Role: mcp.RoleAssistant, Content: mcp.NewTextContent("x")}}}
		}})
	}
	// resources
	for _, shape := range []string{"text", "blob", "text+blob", "none"} {
		shape := shape
		out = append(out, c02Case{Kind: "resource", Label: "contents=" + shape, Key: "res:" + shape, Res: func() []mcp.ResourceContents {
			switch shape {
			case "text":
				return []mcp.ResourceContents{mcp.TextResourceContents{URI: "res://r", MIMEType: "text/plain", Text: "hello"}}
			case "blob":
				return []mcp.ResourceContents{mcp.BlobResourceContents{URI: "res://r", MIMEType: "x/y", Blob: "AAEC"}}
			case "text+blob":
				return []mcp.ResourceContents{mcp.TextResourceContents{URI: "res://r", Text: "hello"}, mcp.BlobResourceContents{URI: "res://r#2", Blob: "AAEC"}}
			}
			return []mcp.ResourceContents{}
		}})
	}
	for _, sc := range c02Strings(tier) {
		sc := sc
		for _, f := range []string{"text", "blob", "mimeType", "uri"} {
			f := f
			out = append(out, c02Case{Kind: "resource", Label: "contents." + f + "=<" + sc.name + ">", Key: "res-str:" + f + ":" + sc.name, Res: func() []mcp.ResourceContents {
				switch f {
				case "text":
					return []mcp.ResourceContents{mcp.TextResourceContents{URI: "res://r", MIMEType: "text/plain", Text: sc.val}}
				case "blob":
					return []mcp.ResourceContents{mcp.BlobResourceContents{URI: "res://r", MIMEType: "x/y", Blob: sc.val}}
				case "mimeType":
					return []mcp.ResourceContents{mcp.TextResourceContents{URI: "res://r", MIMEType: sc.val, Text: "t"}}
				}
				return []mcp.ResourceContents{mcp.TextResourceContents{URI: sc.val, Text: "t"}}
			}})
		}
	}
	// handler errors
	for _, sc := range c02Strings(tier) {
		if sc.name == "empty" || len(sc.val) > 70000 {
			continue
		}
		for _, k := range []string{"toolerr", "prompterr", "reserr"} {
			out = append(out, c02Case{Kind: k, Label: k + " message=<" + sc.name + ">", Key: k + ":" + sc.name, Err: "E!" + sc.val + "!E"})
		}
	}
	// descriptors
	yes, no := true, false
	for _, sc := range c02Strings(tier) {
		sc := sc
		if len(sc.val) > 70000 {
			continue
		}
		out = append(out, c02Case{Kind: "tooldesc", Label: "tool.description=<" + sc.name + ">", Key: "tooldesc:description:" + sc.name, TDesc: func() *mcp.Tool { return mcp.NewTool("d1", mcp.WithDescription(sc.val)) }})
		out = append(out, c02Case{Kind: "promptdesc", Label: "prompt.description=<" + sc.name + ">", Key: "promptdesc:description:" + sc.name, PDesc: func() *mcp.Prompt {
			return &mcp.Prompt{Name: "d1", Description: sc.val, Arguments: []mcp.PromptArgument{{Name: "a", Description: sc.val, Required: true}, {Name: "b"}}}
		}})
		out = append(out, c02Case{Kind: "resdesc", Label: "resource.description=<" + sc.name + ">", Key: "resdesc:description:" + sc.name, RDesc: func() *mcp.Resource {
			return &mcp.Resource{Name: "n", URI: "res://d1", Description: sc.val, MimeType: "text/plain", Size: 12345}
		}})
	}
	for _, td := range []struct {
		name string
		mk   func() *mcp.Tool
	}{
		{"builders", func() *mcp.Tool {
			return mcp.NewTool("d1", mcp.WithDescription("d"), mcp.WithString("s", mcp.Description("sd"), mcp.Required()), mcp.WithNumber("n"), mcp.WithInteger("i"), mcp.WithBoolean("b"), mcp.WithObject("o"), mcp.WithArray("a"))
		}},
		{"annotations-all", func() *mcp.Tool {
			return mcp.NewTool("d1", mcp.WithToolAnnotations(&mcp.ToolAnnotations{Title: "T", ReadOnlyHint: &yes, DestructiveHint: &no, IdempotentHint: &yes, OpenWorldHint: &no}))
		}},
		{"annotations-false", func() *mcp.Tool {
			return mcp.NewTool("d1", mcp.WithToolAnnotations(&mcp.ToolAnnotations{ReadOnlyHint: &no, DestructiveHint: &no, IdempotentHint: &no, OpenWorldHint: &no}))
		}},
		{"annotations-empty", func() *mcp.Tool { return mcp.NewTool("d1", mcp.WithToolAnnotations(&mcp.ToolAnnotations{})) }},
		{"input-struct", func() *mcp.Tool { return mcp.NewTool("d1", mcp.WithInputStruct[c02In]()) }},
		{"input-struct-refs", func() *mcp.Tool { return mcp.NewTool("d1", mcp.WithInputStruct[c02In](mcp.WithRefStyle())) }},
		{"output-struct", func() *mcp.Tool {
			return mcp.NewTool("d1", mcp.WithInputStruct[c02In](), mcp.WithOutputStruct[c02Out]())
		}},
		{"output-struct-inline", func() *mcp.Tool {
			return mcp.NewTool("d1", mcp.WithOutputStruct[c02Out](mcp.WithInlineStyle()))
		}},
	} {
		td := td
		out = append(out, c02Case{Kind: "tooldesc", Label: "tool " + td.name, Key: "tooldesc:" + td.name, TDesc: td.mk})
	}
	out = append(out, c02Case{Kind: "resdesc", Label: "resource annotations", Key: "resdesc:annotations", RDesc: func() *mcp.Resource {
		r := &mcp.Resource{Name: "n", URI: "res://d1"}
		r.Annotations = &struct {
			Audience []mcp.Role `json:"audience,omitempty"`
			Priority float64    `json:"priority,omitempty"`
		}{Audience: []mcp.Role{mcp.RoleAssistant}, Priority: 1}
		return r
	}})
	c02Cache[tier] = out
	return out
}

type c02In struct {
	Name  string   `json:"name" jsonschema:"required,description=the name"`
	Count int      `json:"count,omitempty"`
	Tags  []string `json:"tags,omitempty"`
	Inner struct {
		X float64 `json:"x"`
	} `json:"inner"`
}

type c02Out struct {
	OK   bool              `json:"ok"`
	Data map[string]string `json:"data,omitempty"`
	Next *c02Out           `json:"next,omitempty"`
}

func uniq(xs []string) []string {
	seen := map[string]bool{}
	var out []string
	for _, x := range xs {
		if !seen[x] {
			seen[x] = true
			out = append(out, x)
		}
	}
	if len(out) == 0 {
		return []string{"none"}
	}
	return out
}

var c02Modes = []string{"sj", "ss", "sl", "sd", "ls", "io"}

func init() {
	RegisterEnum(&Enum{Name: "c02/fidelity", Doc: "handler return values (content kinds x string classes x sizes, flags, structured content, prompts, resources, handler errors, descriptors) through the library client of every transport; JSON-normal-form equality",
		Count: func(tier string) int { return len(c02Cases(tier)) * len(c02Modes) },
		Eval: func(tier string, i int) CaseResult {
			cs := c02Cases(tier)
			return c02Eval(c02Modes[i%len(c02Modes)], cs[i/len(c02Modes)])
		}})
	RegisterCheck("C02", func(c *Ctx) {
		c.Level = "exploration"
		c.Rule = "complete enumeration of (mode) x (content-kind sequences up to length 2 [3 thorough]; every string class in every string field of every kind; result flags / structured content / _meta / annotations; prompt messages; resource contents; handler error texts; descriptors); distinct by (mode, case); every case is non-trivial (a full client/server round trip on real code); plus a preemption-bounded DFS of three calls in flight on one client (long text, short text, resource), each caller obtaining its own value"
		c.Assume = append(c.Assume, "equality is judged on the JSON normal form (sorted keys, numbers as JSON numbers) of the server-side value and of the value the client API returns", "invalid UTF-8 is compared after encoding/json's documented replacement by U+FFFD", "memnet replaces net/http and pipes; deterministic default schedule")
		c.Enumerate("c02/fidelity")
		c.Enumerate("c02/reregistered")
		for _, mode := range AllModes {
			c.DFS("c02/concurrent/"+mode, explore.Bounds{Preempt: c.Pick(1, 2), Dev: 0, POR: true, MaxExec: c.Pick(1500, 60000)})
		}
	})
}

func c02Eval(mode string, cs c02Case) CaseResult {
	cr := CaseResult{Desc: fmt.Sprintf("mode=%s %s %s", mode, cs.Kind, cs.Label), Nontrivial: true}
	var viol []explore.Violation
	obs := &hx.Log{}
	key := func(k string) string { return fmt.Sprintf("%s:%s:%s", k, cs.Key, mode) }
	res := vsched.Run(vsched.Config{}, func() {
		r := NewRig(mode)
		var want string
		switch cs.Kind {
		case "tool", "toolerr":
			r.RegisterTool(mcp.NewTool("t"), func(ctx context.Context, req *mcp.CallToolRequest) (*mcp.CallToolResult, error) {
				if cs.Kind == "toolerr" {
					return nil, errors.New(cs.Err)
				}
				v := cs.Tool()
				want = hx.CanonOf(v)
				return v, nil
			})
		case "prompt", "prompterr":
			r.RegisterPrompt(&mcp.Prompt{Name: "p"}, func(ctx context.Context, req *mcp.GetPromptRequest) (*mcp.GetPromptResult, error) {
				if cs.Kind == "prompterr" {
					return nil, errors.New(cs.Err)
				}
				v := cs.Pr()
				want = hx.CanonOf(v)
				return v, nil
			})
		case "resource", "reserr":
			r.RegisterResources(&mcp.Resource{Name: "r", URI: "res://r"}, func(ctx context.Context, req *mcp.ReadResourceRequest) ([]mcp.ResourceContents, error) {
				if cs.Kind == "reserr" {
					return nil, errors.New(cs.Err)
				}
				v := cs.Res()
				want = hx.CanonOf(mcp.ReadResourceResult{Contents: v})
				return v, nil
			})
		case "tooldesc":
			t := cs.TDesc()
			want = hx.CanonOf(t)
			r.RegisterTool(t, func(ctx context.Context, req *mcp.CallToolRequest) (*mcp.CallToolResult, error) {
				return mcp.NewTextResult("x"), nil
			})
		case "promptdesc":
			p := cs.PDesc()
			want = hx.CanonOf(p)
			r.RegisterPrompt(p, func(ctx context.Context, req *mcp.GetPromptRequest) (*mcp.GetPromptResult, error) {
				return &mcp.GetPromptResult{}, nil
			})
		case "resdesc":
			p := cs.RDesc()
			want = hx.CanonOf(p)
			r.RegisterResource(p, func(ctx context.Context, req *mcp.ReadResourceRequest) (mcp.ResourceContents, error) {
				return mcp.TextResourceContents{URI: p.URI, Text: "x"}, nil
			})
		}
		r.Start()
		cl, err := r.Connect()
		if err != nil {
			viol = append(viol, V("harness", "connect: %v", err))
			return
		}
		ctx := context.Background()
		var got string
		var callErr error
		done := &hx.Flag{}
		vsched.Go("caller", func() {
			defer done.Set()
			switch cs.Kind {
			case "tool", "toolerr":
				rq := &mcp.CallToolRequest{}
				rq.Params.Name = "t"
				out, err := cl.CallTool(ctx, rq)
				callErr = err
				if err == nil {
					got = hx.CanonOf(out)
				}
			case "prompt", "prompterr":
				rq := &mcp.GetPromptRequest{}
				rq.Params.Name = "p"
				out, err := cl.GetPrompt(ctx, rq)
				callErr = err
				if err == nil {
					got = hx.CanonOf(out)
				}
			case "resource", "reserr":
				rq := &mcp.ReadResourceRequest{}
				rq.Params.URI = "res://r"
				out, err := cl.ReadResource(ctx, rq)
				callErr = err
				if err == nil {
					got = hx.CanonOf(out)
				}
			case "tooldesc":
				out, err := cl.ListTools(ctx, &mcp.ListToolsRequest{})
				callErr = err
				if err == nil {
					if len(out.Tools) != 1 {
						got = fmt.Sprintf("!%d tools listed", len(out.Tools))
					} else {
						got = c02ToolCanon(out.Tools[0])
						// the decoded (typed) schemas describe the same members as the raw ones they were decoded from
						for _, side := range []struct {
							name  string
							raw   json.RawMessage
							typed interface{}
						}{{"inputSchema", out.Tools[0].RawInputSchema, out.Tools[0].InputSchema}, {"outputSchema", out.Tools[0].RawOutputSchema, out.Tools[0].OutputSchema}} {
							if len(side.raw) == 0 || side.typed == nil || hx.CanonOf(side.typed) == "null" {
								continue
							}
							if a, b := c02PropNames(side.raw), c02PropNames([]byte(hx.CanonOf(side.typed))); a != b {
								viol = append(viol, V(key("typed-schema-differs:"+side.name), "ListTools: the decoded %s of the listed tool has the members [%s], the schema it was decoded from has [%s]", side.name, b, a))
							}
						}
					}
				}
			case "promptdesc":
				out, err := cl.ListPrompts(ctx, &mcp.ListPromptsRequest{})
				callErr = err
				if err == nil {
					if len(out.Prompts) != 1 {
						got = fmt.Sprintf("!%d prompts listed", len(out.Prompts))
					} else {
						got = hx.CanonOf(out.Prompts[0])
					}
				}
			case "resdesc":
				out, err := cl.ListResources(ctx, &mcp.ListResourcesRequest{})
				callErr = err
				if err == nil {
					if len(out.Resources) != 1 {
						got = fmt.Sprintf("!%d resources listed", len(out.Resources))
					} else {
						got = hx.CanonOf(out.Resources[0])
					}
				}
			}
		})
		vsched.Quiesce()
		switch {
		case !done.Get():
			viol = append(viol, V(key("hang"), "the call never returned; blocked: %v", vsched.LiveThreads()))
			obs.Add("hang")
		case strings.HasSuffix(cs.Kind, "err"):
			if callErr == nil {
				viol = append(viol, V(key("error-lost"), "handler returned an error but the client call succeeded with %s", truncate(got, 120)))
			} else {
				wantMsg := strings.ToValidUTF8(cs.Err, "�")
				if !strings.Contains(callErr.Error(), wantMsg) {
					viol = append(viol, V(key("error-message"), "client error %q does not carry the handler's message %q", truncate(callErr.Error(), 160), truncate(wantMsg, 80)))
				}
			}
			obs.Add("err")
		case callErr != nil:
			viol = append(viol, V(key("call-fails"), "client call failed: %s (handler returned %s)", truncate(callErr.Error(), 200), truncate(want, 160)))
			obs.Add("fail")
		case c02Norm(got) != c02Norm(want):
			viol = append(viol, V(key("differs"), "client received %s but the handler returned %s", truncate(firstDiff(got, want), 200), truncate(firstDiff(want, got), 200)))
			obs.Add("differs")
		default:
			obs.Add("equal")
		}
		// raw wire: every frame the server wrote validates against the schema oracle
		_, resps, bad := wireTraffic(r)
		for _, b := range bad {
			viol = append(viol, V(key("wire-garbage"), "%s", b))
		}
		method := map[string]string{"tool": "tools/call", "prompt": "prompts/get", "resource": "resources/read", "tooldesc": "tools/list", "promptdesc": "prompts/list", "resdesc": "resources/list"}[cs.Kind]
		if method != "" && len(resps) > 0 && !cs.NoWireSchema {
			last := resps[len(resps)-1]
			raw, _ := json.Marshal(map[string]json.RawMessage{"jsonrpc": json.RawMessage(`"2.0"`), "id": last.ID, "result": last.Result})
			if len(last.Result) > 0 && len(raw) < 200000 {
				verd, err := hx.ValidateFrames([]hx.Frame{{Raw: string(raw), Kind: "response", Method: method}})
				if err != nil {
					cr.Broken = err.Error()
				} else if !verd[0].OK {
					viol = append(viol, V(key("wire-schema"), "the response on the wire violates the MCP schema: %s", strings.Join(verd[0].Errors, "; ")))
				}
			}
		}
	})
	o := finishOutcome(res, obs, viol, true)
	cr.ObsKey = mode + "|" + cs.Kind + "|" + cs.Label + "|" + o.ObsKey
	cr.Violations = o.Violations
	if cr.Broken == "" {
		cr.Broken = o.Broken
	}
	return cr
}

// c02PropNames returns the sorted names of the top-level "properties" of a JSON schema.
func c02PropNames(schema []byte) string {
	var m struct {
		Properties map[string]json.RawMessage `json:"properties"`
	}
	json.Unmarshal(schema, &m)
	var ks []string
	for k := range m.Properties {
		ks = append(ks, k)
	}
	sort.Strings(ks)
	return strings.Join(ks, ",")
}

// c02ToolCanon renders a listed tool for comparison with the registered one: the client keeps
// the schemas as raw JSON (RawInputSchema / RawOutputSchema), which is what must equal the
// registered schema as JSON.
func c02ToolCanon(t mcp.Tool) string {
	m := map[string]interface{}{"name": t.Name}
	if t.Description != "" {
		m["description"] = t.Description
	}
	if len(t.RawInputSchema) > 0 {
		m["inputSchema"] = json.RawMessage(t.RawInputSchema)
	} else if t.InputSchema != nil {
		m["inputSchema"] = t.InputSchema
	}
	if len(t.RawOutputSchema) > 0 {
		m["outputSchema"] = json.RawMessage(t.RawOutputSchema)
	} else if t.OutputSchema != nil {
		m["outputSchema"] = t.OutputSchema
	}
	if t.Annotations != nil {
		m["annotations"] = t.Annotations
	}
	return hx.CanonOf(m)
}

// firstDiff returns a window of a around the first position where a and b differ.
func firstDiff(a, b string) string {
	i := 0
	for i < len(a) && i < len(b) && a[i] == b[i] {
		i++
	}
	lo := i - 40
	if lo < 0 {
		lo = 0
	}
	hi := i + 80
	if hi > len(a) {
		hi = len(a)
	}
	return fmt.Sprintf("…%s… (at byte %d of %d)", a[lo:hi], i, len(a))
}

// c02Norm identifies a nil list with an empty list (the same sequence of items in Go).
func c02Norm(s string) string {
	for _, k := range []string{"content", "contents", "messages"} {
		s = strings.ReplaceAll(s, `"`+k+`":null`, `"`+k+`":[]`)
	}
	return s
}

// ---- two calls in flight ------------------------------------------------------------------------
//
// "What a handler returns is what the calling client obtains" also while another call of the same
// client is being answered: three callers on one client, each asking for a different value (a long
// text, a short text, a resource with a long text); whatever the order in which the answers are
// produced, read and decoded, each caller obtains its own value code point for code point.

func c02Concurrent(prefix []int, mode string) explore.Outcome {
	var viol []explore.Violation
	obs := &hx.Log{}
	res := vsched.Run(cfgFor(prefix), func() {
		vsched.SetBranching(false)
		r := NewRig(mode)
		val := func(tag string, n int) string { return "<" + tag + ">" + strings.Repeat(tag, n) + "</" + tag + ">" }
		r.RegisterTool(mcp.NewTool("v", mcp.WithString("tag"), mcp.WithNumber("n")), func(ctx context.Context, req *mcp.CallToolRequest) (*mcp.CallToolResult, error) {
			tag, _ := req.Params.Arguments["tag"].(string)
			n, _ := req.Params.Arguments["n"].(float64)
			return mcp.NewTextResult(val(tag, int(n))), nil
		})
		r.RegisterResource(&mcp.Resource{Name: "r", URI: "res://r"}, func(ctx context.Context, req *mcp.ReadResourceRequest) (mcp.ResourceContents, error) {
			return mcp.TextResourceContents{URI: "res://r", Text: val("R", 700)}, nil
		})
		r.Start()
		cl, err := r.Connect()
		if err != nil {
			viol = append(viol, V("setup-handshake-fails", "setting the scenario up with well-behaved peers fails: %v", err))
			return
		}
		vsched.Quiesce()
		vsched.SetBranching(true)
		type outc struct {
			got string
			err error
			ok  bool
		}
		outs := make([]outc, 3)
		tool := func(i int, tag string, n int) {
			vsched.Go("caller-"+tag, func() {
				rq := &mcp.CallToolRequest{}
				rq.Params.Name = "v"
				rq.Params.Arguments = map[string]interface{}{"tag": tag, "n": n}
				o, e := cl.CallTool(context.Background(), rq)
				outs[i] = outc{TextOf(o), e, true}
			})
		}
		tool(0, "A", 900)
		tool(1, "b", 3)
		vsched.Go("caller-R", func() {
			rq := &mcp.ReadResourceRequest{}
			rq.Params.URI = "res://r"
			o, e := cl.ReadResource(context.Background(), rq)
			got := ""
			if o != nil && len(o.Contents) == 1 {
				if t, ok := o.Contents[0].(mcp.TextResourceContents); ok {
					got = t.Text
				}
			}
			outs[2] = outc{got, e, true}
		})
		vsched.Quiesce()
		want := []string{val("A", 900), val("b", 3), val("R", 700)}
		for i, o := range outs {
			switch {
			case !o.ok:
				viol = append(viol, V("concurrent-call-hangs:"+mode, "caller %d did not return; blocked: %v", i, vsched.LiveThreads()))
			case o.err != nil:
				viol = append(viol, V("concurrent-call-fails:"+mode, "caller %d, with two other calls in flight on the same client: %v", i, o.err))
			case o.got != want[i]:
				viol = append(viol, V("concurrent-value-differs:"+mode, "caller %d obtained %d bytes %q, its handler returned %d bytes %q", i, len(o.got), truncate(o.got, 50), len(want[i]), truncate(want[i], 50)))
			}
		}
		obs.Add("ok")
	})
	return finishOutcome(res, obs, viol, true)
}

func init() {
	for _, mode := range AllModes {
		mode := mode
		RegisterScenario(&Scenario{Name: "c02/concurrent/" + mode, Doc: "three callers on one client ask for a long text, a short text and a resource at the same time; each obtains the value its own handler returned",
			Run: func(p []int, m []vsched.ChoicePoint) explore.Outcome { return c02Concurrent(p, mode) }})
	}
}

// ---- an entry registered twice ---------------------------------------------------------------------
//
// "descriptors listed by the client equal the ones registered", "whatever a registered handler
// returns is what the caller obtains": when the application registers a name again (a new version
// of a tool, a prompt whose wording changed), the registration in force is the later one - its
// descriptor is listed, once, and its handler answers.
func c02Reregistered(tier string, i int) CaseResult {
	mode := AllModes[i%len(AllModes)]
	kind := []string{"tool", "prompt", "resource"}[i/len(AllModes)]
	cr := CaseResult{Desc: fmt.Sprintf("mode=%s a %s registered twice under one name", mode, kind), Nontrivial: true}
	var viol []explore.Violation
	obs := &hx.Log{}
	key := func(k string) string { return fmt.Sprintf("%s:reregistered-%s:%s", k, kind, mode) }
	res := vsched.Run(vsched.Config{}, func() {
		r := NewRig(mode)
		for _, v := range []string{"first", "second"} {
			v := v
			switch kind {
			case "tool":
				r.RegisterTool(mcp.NewTool("x", mcp.WithDescription(v+" version"), mcp.WithString(v+"-param")), func(ctx context.Context, req *mcp.CallToolRequest) (*mcp.CallToolResult, error) {
					return mcp.NewTextResult("from the " + v + " handler"), nil
				})
			case "prompt":
				r.RegisterPrompt(&mcp.Prompt{Name: "x", Description: v + " version", Arguments: []mcp.PromptArgument{{Name: v + "-arg"}}}, func(ctx context.Context, req *mcp.GetPromptRequest) (*mcp.GetPromptResult, error) {
					return &mcp.GetPromptResult{Description: "from the " + v + " handler", Messages: []mcp.PromptMessage{}}, nil
				})
			case "resource":
				r.RegisterResource(&mcp.Resource{Name: "x", URI: "res://x", Description: v + " version"}, func(ctx context.Context, req *mcp.ReadResourceRequest) (mcp.ResourceContents, error) {
					return mcp.TextResourceContents{URI: "res://x", Text: "from the " + v + " handler"}, nil
				})
			}
		}
		r.Start()
		cl, err := r.Connect()
		if err != nil {
			viol = append(viol, V("setup-handshake-fails", "setting the scenario up with well-behaved peers fails: %v", err))
			return
		}
		ctx := context.Background()
		var listed []string
		var answer string
		var e1, e2 error
		switch kind {
		case "tool":
			var o *mcp.ListToolsResult
			o, e1 = cl.ListTools(ctx, &mcp.ListToolsRequest{})
			if o != nil {
				for _, t := range o.Tools {
					listed = append(listed, t.Name+":"+t.Description+":"+c02PropNames(t.RawInputSchema))
				}
			}
			rq := &mcp.CallToolRequest{}
			rq.Params.Name = "x"
			var out *mcp.CallToolResult
			out, e2 = cl.CallTool(ctx, rq)
			answer = TextOf(out)
		case "prompt":
			var o *mcp.ListPromptsResult
			o, e1 = cl.ListPrompts(ctx, &mcp.ListPromptsRequest{})
			if o != nil {
				for _, p := range o.Prompts {
					a := ""
					if len(p.Arguments) == 1 {
						a = p.Arguments[0].Name
					}
					listed = append(listed, p.Name+":"+p.Description+":"+a)
				}
			}
			rq := &mcp.GetPromptRequest{}
			rq.Params.Name = "x"
			var out *mcp.GetPromptResult
			out, e2 = cl.GetPrompt(ctx, rq)
			if out != nil {
				answer = out.Description
			}
		case "resource":
			var o *mcp.ListResourcesResult
			o, e1 = cl.ListResources(ctx, &mcp.ListResourcesRequest{})
			if o != nil {
				for _, p := range o.Resources {
					listed = append(listed, p.Name+":"+p.Description+":")
				}
			}
			rq := &mcp.ReadResourceRequest{}
			rq.Params.URI = "res://x"
			var out *mcp.ReadResourceResult
			out, e2 = cl.ReadResource(ctx, rq)
			if out != nil && len(out.Contents) == 1 {
				if t, ok := out.Contents[0].(mcp.TextResourceContents); ok {
					answer = t.Text
				}
			}
		}
		want := map[string]string{"tool": "x:second version:second-param", "prompt": "x:second version:second-arg", "resource": "x:second version:"}[kind]
		if e1 != nil || len(listed) != 1 || listed[0] != want {
			viol = append(viol, V(key("descriptor"), "the %s was registered twice under the name x (first version, then second version); the client lists %v (%v), want exactly [%s]", kind, listed, e1, want))
		}
		if e2 != nil || answer != "from the second handler" {
			viol = append(viol, V(key("handler"), "the %s was registered twice under the name x; the caller obtains %q (%v), the handler in force returns: from the second handler", kind, answer, e2))
		}
		obs.Add("listed=%v answer=%s", listed, answer)
		cl.Close()
	})
	o := finishOutcome(res, obs, viol, true)
	cr.ObsKey = cr.Desc + "|" + o.ObsKey
	cr.Violations = o.Violations
	cr.Broken = o.Broken
	return cr
}

func init() {
	RegisterEnum(&Enum{Name: "c02/reregistered", Doc: "a tool, a prompt, a resource registered twice under one name (different description, parameters and handler) on every transport: the later descriptor is listed, once, and the later handler answers",
		Count: func(string) int { return 3 * len(AllModes) }, Eval: c02Reregistered})
}
