package props

import (
	"context"
	"encoding/json"
	"fmt"
	"io"
	"net/http"
	"strings"
	"time"

	mcp "trpc.group/trpc-go/trpc-mcp-go"
	"verif.local/engine/memnet"
	"verif.local/engine/vsched"
	"verif.local/harness/hx"
)

// scriptedServer is an adversarial/recording MCP peer for the library clients. It answers the
// handshake correctly and hands every other request to onCall; it never uses library types.
type scriptedServer struct {
	mode         string // sj | ss | ls | io
	fab          *memnet.Fabric
	c2s, s2c     *memnet.Pipe
	onCall       func(w scriptWriter)
	onRequest    func(msg map[string]interface{}, raw string, w scriptWriter) bool // return true when answered
	initReply    func(id string) string                                            // custom initialize result (raw JSON of the whole response)
	initHook     func(w scriptWriter, id string) bool                              // custom handling of initialize
	noInitted    bool                                                              // refuse notifications/initialized
	received     []string                                                          // every JSON-RPC message received
	httpLog      []string
	stream       *memnet.ResponseWriter // legacy SSE / GET stream
	streamUp     hx.Flag
	stopped      hx.Flag
	sid          string
	getStatus    int                  // status for GET on Streamable (0 = serve a stream)
	deleteStatus int                  // status for DELETE on Streamable (0 = 200)
	onStream     func(w scriptWriter) // called once the background stream is open
	childExit    func()               // stdio: effect of the child process exiting
	urlSuffix    string               // appended to the URL given to the client constructors (e.g. "?api_key=k")
	gateConnect  *hx.Flag             // legacy SSE: the server stalls before the headers of the connect GET until set
	gateInit     *hx.Flag             // the server withholds its answer to initialize until set
}

// scriptWriter writes on the channel on which the answer to the current request is expected.
type scriptWriter interface {
	Frame(jsonText string)                   // one well-formed frame of this transport
	Raw(bytes string)                        // raw bytes (flushed)
	WritePartial(raw string, end error)      // raw bytes, then the connection ends with end
	HTTP(status int, ct string, body string) // HTTP-level answer (HTTP transports only; no-op otherwise)
	End()                                    // orderly end of the answer channel
}

func newScriptedServer(mode string) *scriptedServer {
	s := &scriptedServer{mode: mode, sid: "scripted-session-1"}
	switch mode {
	case "io":
		s.c2s, s.s2c = memnet.NewPipe(1<<30), memnet.NewPipe(1<<30)
		vsched.Go("scripted-stdio", s.runStdio)
	default:
		s.fab = memnet.NewFabric("srv", http.HandlerFunc(s.serveHTTP))
		hx.InstallFabric(s.fab)
	}
	return s
}

func (s *scriptedServer) stop() {
	s.stopped.Set()
	if s.s2c != nil {
		s.s2c.CloseWrite()
	}
}

const scriptInitResult = `{"protocolVersion":"2025-03-26","capabilities":{"tools":{"listChanged":true}},"serverInfo":{"name":"scripted","version":"0"}}`

// client builds (without initialising) the library client matching the mode.
func (s *scriptedServer) client(opts ...mcp.ClientOption) (Client, error) {
	info := mcp.Implementation{Name: "c", Version: "1"}
	o := append([]mcp.ClientOption{mcp.WithClientLogger(hx.Nop{})}, opts...)
	switch s.mode {
	case "io":
		c, exited, err := mcp.VerifNewStdioClientOverPipes(memnet.WEnd{P: s.c2s}, memnet.REnd{P: s.s2c}, nil, 30*time.Second, info, mcp.WithStdioLogger(hx.Nop{}))
		s.childExit = exited
		return c, err
	case "ls":
		return mcp.NewSSEClient("http://srv/sse"+s.urlSuffix, info, o...)
	default:
		return mcp.NewClient("http://srv/mcp"+s.urlSuffix, info, o...)
	}
}

func (s *scriptedServer) connect(opts ...mcp.ClientOption) (Client, error) {
	c, err := s.client(opts...)
	if err != nil {
		return nil, err
	}
	_, err = c.Initialize(context.Background(), &mcp.InitializeRequest{})
	return c, err
}

// ---- HTTP side ----

type httpAnswer struct {
	s       *scriptedServer
	w       *memnet.ResponseWriter
	started bool
	sse     bool
}

func (a *httpAnswer) begin() {
	if a.started {
		return
	}
	a.started = true
	if a.s.mode != "ls" {
		a.w.Header().Set("Mcp-Session-Id", a.s.sid)
	}
	if a.sse {
		a.w.Header().Set("Content-Type", "text/event-stream")
	} else {
		a.w.Header().Set("Content-Type", "application/json")
	}
	a.w.WriteHeader(200)
}

func (a *httpAnswer) Frame(j string) {
	a.begin()
	if a.sse {
		if a.s.mode == "ls" {
			fmt.Fprintf(a.w, "event: message\ndata: %s\n\n", j)
		} else {
			fmt.Fprintf(a.w, "id: evt-%d\ndata: %s\n\n", len(a.s.httpLog), j)
		}
	} else {
		io.WriteString(a.w, j+"\n")
	}
	a.w.Flush()
}

func (a *httpAnswer) Raw(b string) {
	a.begin()
	io.WriteString(a.w, b)
	a.w.Flush()
}

func (a *httpAnswer) WritePartial(raw string, end error) {
	a.begin()
	if raw != "" {
		io.WriteString(a.w, raw)
	}
	a.w.Abort(end)
}

func (a *httpAnswer) HTTP(status int, ct, body string) {
	if a.started {
		return
	}
	a.started = true
	if ct != "" {
		a.w.Header().Set("Content-Type", ct)
	}
	a.w.WriteHeader(status)
	io.WriteString(a.w, body)
}

func (a *httpAnswer) End() { a.begin(); a.w.Abort(io.EOF) }

func (s *scriptedServer) serveHTTP(w0 http.ResponseWriter, r *http.Request) {
	w := w0.(*memnet.ResponseWriter)
	body, _ := io.ReadAll(r.Body)
	s.httpLog = append(s.httpLog, fmt.Sprintf("%s %s", r.Method, r.URL.RequestURI()))
	if s.mode == "ls" {
		s.serveLegacy(w, r, body)
		return
	}
	switch r.Method {
	case http.MethodGet:
		if s.getStatus != 0 {
			w.Header().Set("Content-Type", "text/plain")
			w.WriteHeader(s.getStatus)
			io.WriteString(w, "the listening stream is refused\n")
			return
		}
		w.Header().Set("Content-Type", "text/event-stream")
		w.Header().Set("Mcp-Session-Id", s.sid)
		w.WriteHeader(200)
		w.Flush()
		s.stream = w
		s.streamUp.Set()
		if s.onStream != nil {
			s.onStream(&httpAnswer{s: s, w: w, started: true, sse: true})
		}
		s.waitClosed(r)
		return
	case http.MethodDelete:
		if s.deleteStatus != 0 {
			w.WriteHeader(s.deleteStatus)
			return
		}
		w.WriteHeader(200)
		return
	}
	s.received = append(s.received, string(body))
	var msg map[string]interface{}
	json.Unmarshal(body, &msg)
	method, _ := msg["method"].(string)
	idRaw := rawID(body)
	a := &httpAnswer{s: s, w: w, sse: s.mode == "ss"}
	if s.onRequest != nil && s.onRequest(msg, string(body), a) {
		return
	}
	switch {
	case method == "initialize":
		if s.initHook != nil && s.initHook(a, idRaw) {
			return
		}
		if s.gateInit != nil {
			s.gateInit.Wait("scripted server withholds the answer to initialize")
		}
		a.Frame(s.initAnswer(idRaw))
	case method != "" && idRaw == "": // notification
		if method == "notifications/initialized" && s.noInitted {
			w.WriteHeader(500)
			return
		}
		w.Header().Set("Mcp-Session-Id", s.sid)
		w.WriteHeader(202)
	case method == "": // a response posted by the client
		w.WriteHeader(202)
	default:
		if s.onCall != nil {
			s.onCall(a)
		} else {
			a.Frame(fmt.Sprintf(`{"jsonrpc":"2.0","id":%s,"result":{"content":[{"type":"text","text":"scripted"}]}}`, idRaw))
		}
	}
}

func (s *scriptedServer) initAnswer(idRaw string) string {
	if s.initReply != nil {
		return s.initReply(idRaw)
	}
	return fmt.Sprintf(`{"jsonrpc":"2.0","id":%s,"result":%s}`, idRaw, scriptInitResult)
}

type ctxProbe struct {
	ctx  context.Context
	stop *hx.Flag
}

//go:norace
func (p ctxProbe) Ready() bool {
	select {
	case <-p.ctx.Done():
		return true
	default:
		return p.stop.Get()
	}
}

func (s *scriptedServer) waitClosed(r *http.Request) {
	vsched.BlockObjs("scripted stream held open", ctxProbe{r.Context(), &s.stopped}, []uintptr{vsched.CtxID(r.Context())}, true)
}

func (s *scriptedServer) serveLegacy(w *memnet.ResponseWriter, r *http.Request, body []byte) {
	if r.Method == http.MethodGet {
		if s.gateConnect != nil {
			s.gateConnect.Wait("scripted server stalls before the headers of the SSE stream")
		}
		w.Header().Set("Content-Type", "text/event-stream")
		w.WriteHeader(200)
		w.Flush()
		s.stream = w
		a := &httpAnswer{s: s, w: w, started: true, sse: true}
		if s.onStream != nil {
			s.onStream(a)
		} else {
			a.Raw("event: endpoint\ndata: /message?sessionId=s1\n\n")
		}
		s.streamUp.Set()
		s.waitClosed(r)
		return
	}
	s.received = append(s.received, string(body))
	var msg map[string]interface{}
	json.Unmarshal(body, &msg)
	method, _ := msg["method"].(string)
	idRaw := rawID(body)
	a := &httpAnswer{s: s, w: s.stream, started: true, sse: true}
	post := &httpAnswer{s: s, w: w}
	if s.onRequest != nil && s.onRequest(msg, string(body), post) {
		return
	}
	if method == "notifications/initialized" && s.noInitted {
		w.WriteHeader(500)
		return
	}
	w.WriteHeader(202)
	w.Flush() // the POST is acknowledged at once; the answer travels on the stream
	switch {
	case method == "initialize":
		if s.initHook != nil && s.initHook(a, idRaw) {
			return
		}
		if s.gateInit != nil {
			s.gateInit.Wait("scripted server withholds the answer to initialize")
		}
		a.Frame(s.initAnswer(idRaw))
	case method != "" && idRaw != "":
		if s.onCall != nil {
			s.onCall(a)
		} else {
			a.Frame(fmt.Sprintf(`{"jsonrpc":"2.0","id":%s,"result":{"content":[{"type":"text","text":"scripted"}]}}`, idRaw))
		}
	}
}

// ---- stdio side ----

type pipeAnswer struct{ s *scriptedServer }

func (a pipeAnswer) Frame(j string)           { a.s.s2c.Write([]byte(j + "\n")) }
func (a pipeAnswer) Raw(b string)             { a.s.s2c.Write([]byte(b)) }
func (a pipeAnswer) HTTP(int, string, string) {}
func (a pipeAnswer) End()                     { a.s.s2c.CloseWrite() }
func (a pipeAnswer) WritePartial(raw string, end error) {
	if raw != "" {
		a.s.s2c.Write([]byte(raw))
	}
	a.s.s2c.Break(end)
	if a.s.childExit != nil {
		a.s.childExit() // stdout of a child ends because the child died: the process watcher notices
	}
}

func (s *scriptedServer) runStdio() {
	var buf []byte
	b := make([]byte, 1<<16)
	a := pipeAnswer{s}
	if s.onStream != nil {
		s.onStream(a)
	}
	for {
		n, err := s.c2s.Read(b)
		buf = append(buf, b[:n]...)
		for {
			k := strings.IndexByte(string(buf), '\n')
			if k < 0 {
				break
			}
			line := string(buf[:k])
			buf = buf[k+1:]
			if strings.TrimSpace(line) == "" {
				continue
			}
			s.received = append(s.received, line)
			var msg map[string]interface{}
			json.Unmarshal([]byte(line), &msg)
			method, _ := msg["method"].(string)
			idRaw := rawID([]byte(line))
			if s.onRequest != nil && s.onRequest(msg, line, a) {
				continue
			}
			switch {
			case method == "initialize":
				if s.initHook != nil && s.initHook(a, idRaw) {
					continue
				}
				if s.gateInit != nil {
					s.gateInit.Wait("scripted server withholds the answer to initialize")
				}
				a.Frame(s.initAnswer(idRaw))
			case method != "" && idRaw != "":
				if s.onCall != nil {
					s.onCall(a)
				} else {
					a.Frame(fmt.Sprintf(`{"jsonrpc":"2.0","id":%s,"result":{"content":[{"type":"text","text":"scripted"}]}}`, idRaw))
				}
			}
		}
		if err != nil {
			return
		}
	}
}

func rawID(b []byte) string {
	var m struct {
		ID json.RawMessage `json:"id"`
	}
	json.Unmarshal(b, &m)
	if string(m.ID) == "null" {
		return ""
	}
	return string(m.ID)
}
