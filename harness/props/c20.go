package props

import (
	"context"
	"fmt"
	"strings"

	mcp "trpc.group/trpc-go/trpc-mcp-go"
	"verif.local/engine/explore"
	"verif.local/engine/vsched"
	"verif.local/harness/hx"
)

// C20 — safe for concurrent use: no data races in servers or clients.
//
// The binary is built with -race. Scheduler hand-offs use raw futexes from //go:norace code, so
// ThreadSanitizer judges each explored execution by exactly the happens-before edges the program
// itself creates. The concurrent scenarios of C01, C04, C05, C09, C11, C12 and C13 are re-explored
// under it, plus the client-side and session-object scenarios below.

type staticRoots struct{ r []mcp.Root }

func (s staticRoots) GetRoots() []mcp.Root { return s.r }

func c20Client(prefix []int, mode string, variant string) explore.Outcome {
	var viol []explore.Violation
	obs := &hx.Log{}
	res := vsched.Run(cfgFor(prefix), func() {
		vsched.SetBranching(false)
		r := NewRig(mode)
		calls := &hx.Log{}
		r.EchoTool(calls)
		r.Start()
		cl, err := r.Connect()
		if err != nil {
			viol = append(viol, V("setup-handshake-fails", "setting the scenario up with well-behaved peers fails: %v", err))
			return
		}
		vsched.Quiesce()
		vsched.SetBranching(true)
		call := func(n string) func() {
			return func() {
				rq := &mcp.CallToolRequest{}
				rq.Params.Name = "echo"
				rq.Params.Arguments = map[string]interface{}{"nonce": n}
				cl.CallTool(context.Background(), rq)
			}
		}
		vsched.Go("call1", call("1"))
		switch variant {
		case "calls":
			vsched.Go("call2", call("2"))
			vsched.Go("list", func() { cl.ListTools(context.Background(), &mcp.ListToolsRequest{}) })
		case "config":
			vsched.Go("reg-handler", func() {
				cl.RegisterNotificationHandler("notifications/message", func(n *mcp.JSONRPCNotification) error { return nil })
				cl.UnregisterNotificationHandler("notifications/message")
			})
			vsched.Go("roots", func() { cl.SetRootsProvider(staticRoots{[]mcp.Root{{URI: "file:///x"}}}) })
			vsched.Go("state", func() {
				_ = cl.GetState()
				if sc, ok := cl.(mcp.SessionClient); ok {
					_ = sc.GetSessionID()
				}
			})
		case "terminate":
			vsched.Go("terminate", func() {
				if sc, ok := cl.(mcp.SessionClient); ok {
					sc.TerminateSession(context.Background())
				}
			})
		case "close":
			vsched.Go("close", func() { cl.Close() })
		case "roots-changed":
			vsched.Go("roots-changed", func() { cl.SendRootsListChangedNotification(context.Background()) })
			vsched.Go("state", func() { _ = cl.GetState() })
		}
		vsched.Quiesce()
		obs.Add("%s/%s", mode, variant)
	})
	// only races and crashes are judged here (functional outcomes belong to C01/C08)
	o := finishOutcome(res, obs, nil, true)
	var keep []explore.Violation
	for _, v := range o.Violations {
		if len(v.Key) > 5 && (v.Key[:5] == "race:" || v.Key[:6] == "panic:") {
			keep = append(keep, v)
		}
	}
	o.Violations = keep
	return o
}

func c20Server(prefix []int, variant string) explore.Outcome {
	if variant == "notify-vs-streams" || variant == "open-vs-send" {
		// an http.ResponseWriter used by two goroutines at once is a data race inside net/http: reported
		// through the non-atomic writer model (there is no net/http for ThreadSanitizer to look into here)
		defer nonAtomicWriters()()
	}
	var viol []explore.Violation
	obs := &hx.Log{}
	res := vsched.Run(cfgFor(prefix), func() {
		vsched.SetBranching(false)
		r := NewRig("ss")
		r.RegisterTool(mcp.NewTool("sess"), func(ctx context.Context, req *mcp.CallToolRequest) (*mcp.CallToolResult, error) {
			if s, ok := mcp.GetSessionFromContext(ctx); ok {
				s.SetData("k", req.Params.Arguments["v"])
				s.GetData("k")
				_ = s.GetLastActivity()
				s.UpdateActivity()
				_ = s.GetCreatedAt()
				_ = s.GetID()
			}
			return mcp.NewTextResult("ok"), nil
		})
		rp := NewRawPeer(r)
		switch variant {
		case "session-object":
			if err := rp.Handshake(); err != nil {
				viol = append(viol, V("setup-handshake-fails", "setting the scenario up with well-behaved peers fails: %v", err))
				return
			}
			vsched.Quiesce()
			vsched.SetBranching(true)
			for i := 0; i < 2; i++ {
				i := i
				vsched.Go("req", func() {
					rp.P.Post(rp.SID, fmt.Sprintf(`{"jsonrpc":"2.0","id":%d,"method":"tools/call","params":{"name":"sess","arguments":{"v":%d}}}`, 20+i, i))
				})
			}
			vsched.Go("sweeper-clock", func() { vsched.FireEarliestTimer() }) // the one-minute expiry sweep runs now
			vsched.Go("active", func() { r.Server.GetActiveSessions() })
		case "init-vs-register":
			vsched.SetBranching(true)
			for i := 0; i < 2; i++ {
				i := i
				vsched.Go("init", func() { rp.P.Post("", hx.InitBody(i+1, "2025-03-26")) })
			}
			vsched.Go("register-prompt", func() {
				r.Server.RegisterPrompt(&mcp.Prompt{Name: "p"}, func(ctx context.Context, req *mcp.GetPromptRequest) (*mcp.GetPromptResult, error) {
					return &mcp.GetPromptResult{}, nil
				})
			})
			vsched.Go("register-resource", func() {
				r.Server.RegisterResource(&mcp.Resource{Name: "r", URI: "res://r"}, func(ctx context.Context, req *mcp.ReadResourceRequest) (mcp.ResourceContents, error) {
					return mcp.TextResourceContents{URI: "res://r", Text: "x"}, nil
				})
			})
		case "shared-params":
			// the application prepares one parameter map and hands it to several sends at once (it only reads it)
			if err := rp.Handshake(); err != nil {
				viol = append(viol, V("setup-handshake-fails", "setting the scenario up with well-behaved peers fails: %v", err))
				return
			}
			rp.OpenStream()
			vsched.Quiesce()
			vsched.SetBranching(true)
			sid := rp.SID
			shared := map[string]interface{}{"n": 1, "text": "prepared once", "nested": map[string]interface{}{"k": "v"}}
			vsched.Go("send", func() { r.Server.SendNotification(sid, "notifications/message", shared) })
			vsched.Go("broadcast", func() { r.Server.BroadcastNotification("notifications/message", shared) })
			vsched.Go("filtered", func() {
				r.Server.SendFilteredNotification("notifications/message", shared, func(string) bool { return true })
			})
		case "open-vs-send":
			// the session's first listening stream is being opened while the server already sends to the session
			if err := rp.Handshake(); err != nil {
				viol = append(viol, V("setup-handshake-fails", "setting the scenario up with well-behaved peers fails: %v", err))
				return
			}
			vsched.Quiesce()
			vsched.SetBranching(true)
			sid := rp.SID
			vsched.Go("open", func() { rp.OpenStream() })
			vsched.Go("send", func() {
				r.Server.SendNotification(sid, "notifications/message", map[string]interface{}{"n": 1})
				r.Server.SendNotification(sid, "notifications/message", map[string]interface{}{"n": 2})
			})
		case "notify-vs-streams":
			if err := rp.Handshake(); err != nil {
				viol = append(viol, V("setup-handshake-fails", "setting the scenario up with well-behaved peers fails: %v", err))
				return
			}
			rp.OpenStream()
			vsched.Quiesce()
			vsched.SetBranching(true)
			sid := rp.SID
			vsched.Go("send", func() { r.Server.SendNotification(sid, "notifications/message", map[string]interface{}{"n": 1}) })
			vsched.Go("broadcast", func() { r.Server.BroadcastNotification("notifications/message", map[string]interface{}{"n": 2}) })
			vsched.Go("reopen", func() { rp.OpenStream() })
			vsched.Go("delete", func() { rp.P.Do("DELETE", rp.R.URL, sid, nil, nil) })
		}
		vsched.Quiesce()
		obs.Add("server/%s", variant)
	})
	o := finishOutcome(res, obs, viol, true)
	var keep []explore.Violation
	for _, v := range o.Violations {
		if len(v.Key) > 5 && (v.Key[:5] == "race:" || v.Key[:6] == "panic:" || v.Key == "harness" || strings.HasPrefix(v.Key, "responsewriter-concurrent-use")) {
			keep = append(keep, v)
		}
	}
	o.Violations = keep
	return o
}

var c20ClientVariants = []string{"calls", "config", "terminate", "close", "roots-changed"}
var c20ServerVariants = []string{"session-object", "init-vs-register", "notify-vs-streams", "shared-params", "open-vs-send"}

func init() {
	for _, mode := range []string{"ss", "sj", "ls", "io"} {
		for _, v := range c20ClientVariants {
			mode, v := mode, v
			RegisterScenario(&Scenario{Name: "c20/client/" + mode + "/" + v, Run: func(p []int, m []vsched.ChoicePoint) explore.Outcome { return c20Client(p, mode, v) },
				Doc: "one " + mode + " client used from several goroutines: a pending CallTool || " + v})
		}
	}
	for _, v := range c20ServerVariants {
		v := v
		RegisterScenario(&Scenario{Name: "c20/server/" + v, Run: func(p []int, m []vsched.ChoicePoint) explore.Outcome { return c20Server(p, v) },
			Doc: "Streamable server: " + v})
	}
	RegisterCheck("C20", func(c *Ctx) {
		c.Level = "exploration"
		c.Rule = "every scenario is explored by DFS (sleep-set reduced) within the preemption bound in a binary built with -race; a violation is a ThreadSanitizer report whose two accesses are both in library code, deduplicated by the pair of accessing functions and attributed to the schedule that exhibited it; distinct = distinct scenario outcomes"
		c.Assume = append(c.Assume, "a dynamic happens-before judgement on enumerated executions: accesses no explored execution performs are not judged", "scheduler hand-offs (raw futex, //go:norace) and probe evaluation (runtime.RaceDisable) are invisible to the race runtime", "sleep-set reduction assumes data-race freedom only for pruning; every executed interleaving is still judged")
		b := explore.Bounds{Preempt: c.Pick(1, 2), Dev: 1, POR: true, MaxExec: c.Pick(1500, 40000)}
		for _, mode := range []string{"ss", "sj", "ls", "io"} {
			for _, v := range c20ClientVariants {
				c.DFS("c20/client/"+mode+"/"+v, b)
			}
		}
		for _, v := range c20ServerVariants {
			if v == "open-vs-send" {
				// two threads only: affordable one preemption deeper
				c.DFS("c20/server/"+v, explore.Bounds{Preempt: c.Pick(2, 3), Dev: 1, POR: true, MaxExec: c.Pick(3000, 40000)})
				continue
			}
			c.DFS("c20/server/"+v, b)
		}
		// workloads of the other properties, re-judged under the race monitor
		for _, name := range []string{"c01/ss/1c-2x1", "c01/sj/mixed", "c01/ls/1c-2x1", "c01/io/1c-2x1", "c01/ss/2c-1x1", "c04/delete-race",
			"c11/reopen-send", "c11/reopen-roots", "c11/triple", "c09/get-stream/small", "c09/io-server/small", "c09/ls-stream/small",
			"c12/tools/sl/regA2+list", "c12/prompts/sl/regA2+callA", "c12/resources/sl/regA2+regB+list", "c12/nhandlers/sl/unregA+callA"} {
			if scenarios[name] != nil {
				c.DFS(name, b)
			}
		}
		// every writer x reader pair of every registry (the pairs C12 judges for linearizability)
		for _, reg := range c12Registries {
			ws, rs := c12Ops(reg)
			for _, w := range ws {
				for _, r := range rs {
					name := fmt.Sprintf("c12/%s/sl/%s+%s", reg, w, r)
					if scenarios[name] != nil && name != "c12/tools/sl/regA2+list" && name != "c12/prompts/sl/regA2+callA" && name != "c12/nhandlers/sl/unregA+callA" {
						c.DFS(name, explore.Bounds{Preempt: c.Pick(1, 2), Dev: 1, POR: true, MaxExec: c.Pick(600, 20000)})
					}
				}
			}
		}
		for _, name := range c20Extra {
			if scenarios[name] != nil {
				c.DFS(name, b)
			}
		}
	})
}

// c20Extra lists scenarios of properties implemented later (C05, C13) to be re-judged under -race.
var c20Extra []string
