package props

import (
	"context"
	"encoding/json"
	"errors"
	"fmt"
	"math"
	"net/http"
	"sort"
	"strings"
	"sync"

	mcp "trpc.group/trpc-go/trpc-mcp-go"
	"verif.local/engine/explore"
	"verif.local/engine/vsched"
	"verif.local/harness/hx"
)

// C03 — every emitted message is a well-formed JSON-RPC 2.0 / MCP message with the right error class.

type c03Case struct {
	Mode      string
	Label     string
	Kind      string // rpc | http
	Msg       string // raw body / line
	Method    string // method of the request (for the result schema); "" = none
	ReqID     string // raw JSON id ("" = the input has no determinable id)
	Codes     []int  // acceptable JSON-RPC error codes; nil = not judged
	Success   bool   // a success result is acceptable
	MustError bool   // a success result is NOT acceptable and an error/HTTP refusal is required
	MsgPart   string // the error message must contain this text
	HTTPVerb  string
	Path      string
	Hdr       map[string]string
	Refuse4xx bool   // an HTTP 4xx/5xx answer is acceptable instead of a JSON-RPC error
	IDOpt     bool   // the envelope is invalid: an error reply may omit the id (it could not be determined)
	Registry  string // "" = the fixed registrations; "empty" = nothing registered; "hidden" = everything registered but hidden by list filters
}

var c03Values = []string{`null`, `true`, `0`, `-1`, `1.5`, `9007199254740992`, `""`, `"s"`, `[]`, `[1]`, `{}`, `{"k":1}`}

type c03Method struct {
	name     string
	params   map[string]interface{} // nil = none
	required []string               // keys whose absence / non-string type must give -32602
	needsPar bool
	ioServes bool
}

func c03Methods() []c03Method {
	return []c03Method{
		{"initialize", map[string]interface{}{"protocolVersion": "2025-03-26", "capabilities": map[string]interface{}{}, "clientInfo": map[string]interface{}{"name": "p", "version": "0"}}, []string{"protocolVersion"}, true, true},
		{"ping", nil, nil, false, true},
		{"tools/list", nil, nil, false, true},
		{"tools/call", map[string]interface{}{"name": "t", "arguments": map[string]interface{}{"mode": "ok"}}, []string{"name"}, true, true},
		{"prompts/list", nil, nil, false, true},
		{"prompts/get", map[string]interface{}{"name": "p", "arguments": map[string]interface{}{"x": "1"}}, []string{"name"}, true, true},
		{"resources/list", nil, nil, false, true},
		{"resources/read", map[string]interface{}{"uri": "res://r"}, []string{"uri"}, true, true},
		{"resources/templates/list", nil, nil, false, false},
		{"resources/subscribe", map[string]interface{}{"uri": "res://r"}, []string{"uri"}, true, false},
		{"resources/unsubscribe", map[string]interface{}{"uri": "res://r"}, []string{"uri"}, true, false},
		{"completion/complete", map[string]interface{}{"ref": map[string]interface{}{"type": "ref/prompt", "name": "p"}, "argument": map[string]interface{}{"name": "x", "value": "a"}}, nil, true, false},
	}
}

func mkMsg(id interface{}, method string, params interface{}, extra map[string]interface{}) string {
	m := map[string]interface{}{"jsonrpc": "2.0"}
	if id != nil {
		m["id"] = id
	}
	if method != "\x00none" {
		m["method"] = method
	}
	if params != nil {
		m["params"] = params
	}
	for k, v := range extra {
		if v == nil {
			delete(m, k)
		} else {
			m[k] = v
		}
	}
	b, _ := json.Marshal(m)
	return string(b)
}

func rawVal(s string) interface{} { return json.RawMessage(s) }

func cloneMap(m map[string]interface{}) map[string]interface{} {
	b, _ := json.Marshal(m)
	var out map[string]interface{}
	json.Unmarshal(b, &out)
	return out
}

var (
	c03Once  sync.Once
	c03Cache map[string][]c03Case
)

func c03Cases(tier string) []c03Case {
	c03Once.Do(func() { c03Cache = map[string][]c03Case{} })
	if cs, ok := c03Cache[tier]; ok {
		return cs
	}
	var out []c03Case
	for _, mode := range AllModes {
		add := func(c c03Case) {
			c.Mode = mode
			if c.Kind == "" {
				c.Kind = "rpc"
			}
			out = append(out, c)
		}
		// list methods on a server that has nothing to list (nothing registered / everything hidden by filters)
		for _, reg := range []string{"empty", "hidden"} {
			if reg == "hidden" && mode == "io" {
				continue
			}
			for _, lm := range []string{"tools/list", "prompts/list", "resources/list", "resources/templates/list"} {
				c := c03Case{Label: "valid " + lm + " registry=" + reg, Msg: mkMsg(7, lm, nil, nil), Method: lm, ReqID: "7", Success: true, Registry: reg}
				if reg == "empty" && lm != "tools/list" {
					c.Codes = []int{-32601} // prompts / resources are not advertised (and may be refused) while none is registered
				}
				if lm == "resources/templates/list" {
					c.Codes = []int{-32601}
				}
				add(c)
			}
		}
		for _, m := range c03Methods() {
			served := mode != "io" || m.ioServes
			var par interface{}
			if m.params != nil {
				par = m.params
			}
			// valid request with an integer and a string id
			for _, id := range []interface{}{7, "req-7"} {
				idb, _ := json.Marshal(id)
				c := c03Case{Label: "valid " + m.name, Msg: mkMsg(id, m.name, par, nil), Method: m.name, ReqID: string(idb), Success: true}
				if !served {
					c.Codes = []int{-32601}
				}
				if m.name == "completion/complete" {
					c.Codes = []int{-32601} // documented as not implemented
				}
				add(c)
			}
			if !served {
				continue
			}
			// params removed / replaced by every JSON value
			if m.needsPar {
				codes := []int{-32602}
				if m.name == "completion/complete" {
					codes = []int{-32601, -32602}
				}
				add(c03Case{Label: m.name + " params removed", Msg: mkMsg(7, m.name, nil, nil), Method: m.name, ReqID: "7", Codes: codes, MustError: true})
			}
			for _, v := range c03Values {
				c := c03Case{Label: m.name + " params=" + v, Msg: mkMsg(7, m.name, rawVal(v), nil), Method: m.name, ReqID: "7"}
				if m.name == "completion/complete" {
					c.Codes, c.MustError, c.Refuse4xx = []int{-32601, -32602}, true, true
				} else if m.needsPar {
					c.Codes = []int{-32602}
					c.MustError = true
					c.Refuse4xx = true // a body whose params is not an object may also be refused as unparsable
				} else {
					c.Success = true
					c.Codes = []int{-32602}
					c.Refuse4xx = true
				}
				add(c)
			}
			// every key of params removed / retyped
			keys := make([]string, 0, len(m.params))
			for k := range m.params {
				keys = append(keys, k)
			}
			sort.Strings(keys)
			for _, k := range keys {
				isReq := false
				for _, r := range m.required {
					if r == k {
						isReq = true
					}
				}
				p := cloneMap(m.params)
				delete(p, k)
				c := c03Case{Label: fmt.Sprintf("%s params.%s removed", m.name, k), Msg: mkMsg(7, m.name, p, nil), Method: m.name, ReqID: "7"}
				if m.name == "completion/complete" {
					c.Codes, c.MustError = []int{-32601, -32602}, true
				} else if isReq {
					c.Codes = []int{-32602}
					c.MustError = true
				} else {
					c.Success = true
					c.Codes = []int{-32602}
				}
				add(c)
				for _, v := range c03Values {
					p := cloneMap(m.params)
					p[k] = rawVal(v)
					c := c03Case{Label: fmt.Sprintf("%s params.%s=%s", m.name, k, v), Msg: mkMsg(7, m.name, p, nil), Method: m.name, ReqID: "7"}
					isStr := strings.HasPrefix(v, `"`)
					switch {
					case m.name == "completion/complete":
						c.Codes, c.MustError = []int{-32601, -32602}, true
					case isReq && !isStr:
						c.Codes = []int{-32602}
						c.MustError = true
					case isReq && isStr:
						c.Codes = nil // an unknown/empty name: some error, class not prescribed here
						c.Success = v == `"s"` && false
					case k == "arguments" && m.name == "tools/call" && v != "null" && !strings.HasPrefix(v, "{"):
						c.Codes = []int{-32602}
						c.MustError = true
					default:
						c.Success = true
						c.Codes = []int{-32602}
					}
					add(c)
				}
			}
		}
		// unknown methods
		for _, meth := range []string{"foo/bar", "tools/unknown", "Initialize", "rpc.discover"} {
			add(c03Case{Label: "unknown method " + meth, Msg: mkMsg(7, meth, nil, nil), ReqID: "7", Codes: []int{-32601}, MustError: true})
			add(c03Case{Label: "unknown method " + meth + " string id", Msg: mkMsg("x", meth, map[string]interface{}{}, nil), ReqID: `"x"`, Codes: []int{-32601}, MustError: true})
		}
		// ids
		for _, id := range []string{`0`, `-1`, `9007199254740991`, `""`, `"a b"`, `"1"`} {
			add(c03Case{Label: "ping id=" + id, Msg: mkMsg(rawVal(id), "ping", nil, nil), Method: "ping", ReqID: id, Success: true})
		}
		// jsonrpc member variants (not judged beyond well-formedness of what is emitted)
		for _, v := range []string{`"1.0"`, `2`, `null`} {
			add(c03Case{Label: "ping jsonrpc=" + v, Msg: mkMsg(7, "ping", nil, map[string]interface{}{"jsonrpc": rawVal(v)}), Method: "ping", ReqID: "7", Success: true, Codes: []int{-32600, -32700}, Refuse4xx: true, IDOpt: true})
		}
		add(c03Case{Label: "ping jsonrpc removed", Msg: `{"id":7,"method":"ping"}`, Method: "ping", ReqID: "7", Success: true, Codes: []int{-32600, -32700}, Refuse4xx: true, IDOpt: true})
		add(c03Case{Label: "duplicate method member", Msg: `{"jsonrpc":"2.0","id":7,"method":"foo/bar","method":"ping"}`, ReqID: "7", Success: true, Codes: []int{-32600, -32601, -32700}, Refuse4xx: true})
		add(c03Case{Label: "duplicate id member", Msg: `{"jsonrpc":"2.0","id":7,"id":8,"method":"ping"}`, Success: true, Codes: []int{-32600, -32700}, Refuse4xx: true})
		// handler outcomes
		for _, hm := range []string{"err", "err+result", "iserror", "nan", "chan", "nil", "errmulti"} {
			c := c03Case{Label: "tools/call handler=" + hm, Msg: mkMsg(7, "tools/call", map[string]interface{}{"name": "t", "arguments": map[string]interface{}{"mode": hm}}, nil), Method: "tools/call", ReqID: "7"}
			switch hm {
			case "err", "err+result": // a handler error is an error, whatever else the handler returned
				c.Codes, c.MustError, c.MsgPart = []int{-32603}, true, "boom-7f3a"
			case "errmulti":
				c.Codes, c.MustError, c.MsgPart = []int{-32603}, true, "line1\nline2   end"
			case "nan", "chan":
				c.Codes, c.MustError = []int{-32603}, true
			case "iserror":
				c.Success = true
			case "nil":
				c.Success = true
				c.Codes = []int{-32603}
			}
			add(c)
		}
		add(c03Case{Label: "resources/read empty text", Msg: mkMsg(7, "resources/read", map[string]interface{}{"uri": "res://empty"}, nil), Method: "resources/read", ReqID: "7", Success: true})
		add(c03Case{Label: "resources/read empty blob", Msg: mkMsg(7, "resources/read", map[string]interface{}{"uri": "res://emptyblob"}, nil), Method: "resources/read", ReqID: "7", Success: true})
		add(c03Case{Label: "tools/call empty text and embedded empty resource", Msg: mkMsg(7, "tools/call", map[string]interface{}{"name": "t", "arguments": map[string]interface{}{"mode": "empty-embedded"}}, nil), Method: "tools/call", ReqID: "7", Success: true})
		add(c03Case{Label: "prompts/get handler=err", Msg: mkMsg(7, "prompts/get", map[string]interface{}{"name": "perr"}, nil), Method: "prompts/get", ReqID: "7", Codes: []int{-32603}, MustError: true, MsgPart: "boom-7f3a"})
		add(c03Case{Label: "resources/read handler=err", Msg: mkMsg(7, "resources/read", map[string]interface{}{"uri": "res://err"}, nil), Method: "resources/read", ReqID: "7", Codes: []int{-32603}, MustError: true, MsgPart: "boom-7f3a"})
		if mode != "ls" && mode != "io" { // SSEServer/StdioServer.RegisterPrompt refuse a nil handler
			add(c03Case{Label: "prompts/get default rendering", Msg: mkMsg(7, "prompts/get", map[string]interface{}{"name": "pdefault", "arguments": map[string]interface{}{"x": "v"}}, nil), Method: "prompts/get", ReqID: "7", Success: true})
		}
		// unparsable input
		for _, body := range []string{``, `{`, `nul`, `[]`, `1`, `"s"`, `{"jsonrpc":"2.0","id":7,"method":"ping"} x`, `{"jsonrpc":"2.0","id":7,"method":"ping"}{"jsonrpc":"2.0","id":8,"method":"ping"}`, `{"jsonrpc":"2.0","id":7,"method":"ping"`, "\xff\xfe"} {
			if mode == "io" && body == "" {
				continue // an empty line is not an input on stdio
			}
			c := c03Case{Label: fmt.Sprintf("unparsable %q", body), Msg: body, Codes: []int{-32700, -32600}, MustError: true, Refuse4xx: true}
			if !json.Valid([]byte(body)) {
				// not JSON at all: the class of the fault is "unparsable input" (-32700, or an HTTP 4xx); valid
				// JSON of the wrong type ([] 1 "s") may also be called an invalid request
				c.Codes = []int{-32700}
			}
			if strings.HasPrefix(body, `{"jsonrpc":"2.0","id":7,"method":"ping"}`) {
				// a complete request followed by garbage: answering the request is acceptable too
				c.Success, c.MustError, c.Method, c.ReqID, c.IDOpt = true, false, "ping", "7", true
			}
			add(c)
		}
		// valid JSON objects that are no JSON-RPC message at all (neither a method nor a usable id): not served, never a 2xx/silence
		for _, body := range []string{`{"jsonrpc":"2.0"}`, `{}`, `{"jsonrpc":"2.0","params":{"a":1}}`, `{"jsonrpc":"2.0","id":null}`} {
			add(c03Case{Label: "not a message " + body, Msg: body, Codes: []int{-32600, -32700, -32601}, MustError: true, Refuse4xx: true, IDOpt: true})
		}
		// HTTP-level inputs the server does not serve
		if mode != "io" {
			ping := mkMsg(7, "ping", nil, nil)
			for _, p := range []string{"/", "/mcpx", "/mcp/", "//mcp", "/other/mcp", "/message/x", "/ssex"} {
				add(c03Case{Kind: "http", Label: "POST wrong path " + p, HTTPVerb: http.MethodPost, Path: p, Msg: ping, MustError: true, Refuse4xx: true})
			}
			for _, v := range []string{http.MethodPut, http.MethodPatch, http.MethodHead, http.MethodOptions, "BREW"} {
				add(c03Case{Kind: "http", Label: "verb " + v, HTTPVerb: v, Msg: ping, MustError: true, Refuse4xx: true})
			}
			for _, ct := range []string{"\x00unset", "text/plain", "application/xml", "application/json; charset=utf-16"} {
				add(c03Case{Kind: "http", Label: "content-type " + ct, HTTPVerb: http.MethodPost, Msg: ping, Method: "ping", ReqID: "7", Hdr: map[string]string{"Content-Type": ct}, Success: true, Refuse4xx: true})
			}
		}
	}
	c03Cache[tier] = out
	return out
}

var c03NoDefaultPrompt bool

// c03Register sets up the fixed registrations used by C03/C06/C14.
func c03Register(r *Rig) {
	r.RegisterTool(mcp.NewTool("t", mcp.WithDescription("test tool"), mcp.WithString("mode")), func(ctx context.Context, req *mcp.CallToolRequest) (*mcp.CallToolResult, error) {
		mode, _ := req.Params.Arguments["mode"].(string)
		switch mode {
		case "err":
			return nil, errors.New("boom-7f3a")
		case "errmulti":
			return nil, errors.New("line1\nline2   end")
		case "iserror":
			return mcp.NewErrorResult("tool-level failure"), nil
		case "err+result":
			return mcp.NewTextResult("partial"), errors.New("boom-7f3a")
		case "nil":
			return nil, nil
		case "empty-embedded":
			return &mcp.CallToolResult{Content: []mcp.Content{mcp.NewTextContent(""), mcp.EmbeddedResource{Type: "resource", Resource: mcp.TextResourceContents{URI: "res://empty", Text: ""}}}}, nil
		case "nan":
			return &mcp.CallToolResult{Content: []mcp.Content{mcp.NewTextContent("x")}, StructuredContent: map[string]interface{}{"v": math.NaN()}}, nil
		case "chan":
			return &mcp.CallToolResult{Content: []mcp.Content{mcp.NewTextContent("x")}, StructuredContent: map[string]interface{}{"v": make(chan int)}}, nil
		}
		return mcp.NewTextResult("ok:" + mode), nil
	})
	r.RegisterPrompt(&mcp.Prompt{Name: "p", Description: "prompt", Arguments: []mcp.PromptArgument{{Name: "x", Required: true}}}, func(ctx context.Context, req *mcp.GetPromptRequest) (*mcp.GetPromptResult, error) {
		return &mcp.GetPromptResult{Description: "d", Messages: []mcp.PromptMessage{{Role: mcp.RoleUser, Content: mcp.NewTextContent("x=" + req.Params.Arguments["x"])}}}, nil
	})
	r.RegisterPrompt(&mcp.Prompt{Name: "perr"}, func(ctx context.Context, req *mcp.GetPromptRequest) (*mcp.GetPromptResult, error) {
		return nil, errors.New("boom-7f3a")
	})
	if !c03NoDefaultPrompt {
		// (SSEServer / StdioServer refuse a nil handler: the differential check C14 leaves this one out)
		r.RegisterPrompt(&mcp.Prompt{Name: "pdefault", Description: "default rendering", Arguments: []mcp.PromptArgument{{Name: "x", Required: true}}}, nil)
	}
	r.RegisterResource(&mcp.Resource{Name: "r", URI: "res://r", MimeType: "text/plain"}, func(ctx context.Context, req *mcp.ReadResourceRequest) (mcp.ResourceContents, error) {
		return mcp.TextResourceContents{URI: "res://r", MIMEType: "text/plain", Text: "content"}, nil
	})
	r.RegisterResource(&mcp.Resource{Name: "empty", URI: "res://empty", MimeType: "text/plain"}, func(ctx context.Context, req *mcp.ReadResourceRequest) (mcp.ResourceContents, error) {
		return mcp.TextResourceContents{URI: "res://empty", MIMEType: "text/plain", Text: ""}, nil // an empty text file
	})
	r.RegisterResource(&mcp.Resource{Name: "emptyblob", URI: "res://emptyblob"}, func(ctx context.Context, req *mcp.ReadResourceRequest) (mcp.ResourceContents, error) {
		return mcp.BlobResourceContents{URI: "res://emptyblob", Blob: ""}, nil
	})
	r.RegisterResource(&mcp.Resource{Name: "e", URI: "res://err"}, func(ctx context.Context, req *mcp.ReadResourceRequest) (mcp.ResourceContents, error) {
		return nil, errors.New("boom-7f3a")
	})
}

func init() {
	RegisterEnum(&Enum{Name: "c03/conformance", Doc: "reference peer -> every server kind/mode: valid requests, every structural mutation of envelope and params, handler outcomes, unparsable bodies, HTTP-level refusals; every emitted frame judged by the python jsonschema oracle",
		Count: func(tier string) int { return len(c03Cases(tier)) },
		Eval:  func(tier string, i int) CaseResult { return c03Eval(c03Cases(tier)[i]) }})
	RegisterCheck("C03", func(c *Ctx) {
		c.Level = "exploration"
		c.Rule = "complete enumeration of (server mode) x (method x {valid, params removed, params := each JSON type, each params key removed / := each JSON type} + unknown methods + id forms + handler outcomes + unparsable bodies + wrong path/verb/content-type); a case is distinct by (mode, label); non-trivial = the server emitted at least one frame or an HTTP refusal that the oracle judged"
		c.Assume = append(c.Assume, "MCP schema hand-written from the 2025-03-26 specification text (/verif/spec), validated with python jsonschema Draft 2020-12", "memnet replaces net/http", "one request per fresh, initialised server (sequences are covered by C06/C14)")
		c.Enumerate("c03/conformance")
		c.Enumerate("c03/notifications")
	})
}

func c03Eval(cs c03Case) CaseResult {
	cr := CaseResult{Desc: fmt.Sprintf("mode=%s %s :: %s", cs.Mode, cs.Label, truncate(cs.Msg, 120))}
	var viol []explore.Violation
	obs := &hx.Log{}
	var re *Reaction
	res := vsched.Run(vsched.Config{}, func() {
		var r *Rig
		switch cs.Registry {
		case "empty":
			r = NewRig(cs.Mode)
		case "hidden":
			hideT := func(ctx context.Context, in []*mcp.Tool) []*mcp.Tool { return nil }
			hideP := func(ctx context.Context, in []*mcp.Prompt) []*mcp.Prompt { return nil }
			hideR := func(ctx context.Context, in []*mcp.Resource) []*mcp.Resource { return nil }
			switch cs.Mode {
			case "ls":
				r = NewRig(cs.Mode, mcp.WithSSEToolListFilter(hideT), mcp.WithSSEPromptListFilter(hideP), mcp.WithSSEResourceListFilter(hideR))
			case "io":
				r = NewRig(cs.Mode)
			default:
				r = NewRig(cs.Mode, mcp.WithToolListFilter(hideT), mcp.WithPromptListFilter(hideP), mcp.WithResourceListFilter(hideR))
			}
			c03Register(r)
		default:
			r = NewRig(cs.Mode)
			c03Register(r)
		}
		r.Start()
		rp := NewRawPeer(r)
		if err := rp.Handshake(); err != nil {
			viol = append(viol, V("harness", "handshake: %v", err))
			return
		}
		vsched.Quiesce()
		if cs.Kind == "http" {
			u := ""
			if cs.Path != "" {
				u = "http://srv" + cs.Path
				if cs.Mode == "ls" {
					u += "?sessionId=sse-0001"
				}
			}
			re = rp.React(cs.HTTPVerb, u, []byte(cs.Msg), cs.Hdr)
		} else {
			re = rp.Send(cs.Msg)
		}
	})
	key := func(k string) string { return fmt.Sprintf("%s:%s:%s", k, cs.Mode, cs.Label) }
	if re != nil && len(viol) == 0 {
		cr.Nontrivial = len(re.Frames) > 0 || re.Status >= 400
		// 1. every emitted frame is judged by the oracle
		var frames []hx.Frame
		for _, f := range re.Frames {
			fr := hx.Frame{Raw: f, Kind: "any"}
			if cs.ReqID != "" && !(cs.IDOpt && errorWithoutID(f)) {
				// frames answering our request: those that are responses
				fr.Method = cs.Method
				fr.ReqID = json.RawMessage(cs.ReqID)
			}
			frames = append(frames, fr)
		}
		verd, err := hx.ValidateFrames(frames)
		if err != nil {
			cr.Broken = err.Error()
			return cr
		}
		nresp := 0
		var got *hx.Verdict
		for i := range verd {
			v := &verd[i]
			if !v.OK {
				viol = append(viol, V(key("malformed"), "server emitted an ill-formed message: %s :: %s", strings.Join(v.Errors, "; "), truncate(re.Frames[i], 200)))
			}
			if v.Class == "success" || v.Class == "error" {
				nresp++
				got = v
			}
		}
		refused := re.Status >= 400 || re.Err != nil
		obs.Add("status=%d frames=%d", re.Status, len(re.Frames))
		switch {
		case refused:
			obs.Add("refused")
			if !cs.Refuse4xx && cs.Kind == "rpc" && cs.ReqID != "" {
				viol = append(viol, V(key("http-refusal"), "a JSON-RPC request was answered with HTTP %d %q instead of a JSON-RPC message", re.Status, truncate(string(re.Body), 80)))
			}
		case nresp == 0:
			// nothing that answers the input
			needs := cs.ReqID != "" || cs.MustError
			if needs {
				viol = append(viol, V(key("no-answer"), "input was answered with status %d and no JSON-RPC response (body %q): an unserved input must get a non-2xx status or a JSON-RPC error, a request must get its response", re.Status, truncate(string(re.Body), 60)))
			}
		case nresp > 1:
			viol = append(viol, V(key("multiple-responses"), "%d response frames for one input", nresp))
		default:
			if got.Class == "success" {
				obs.Add("success")
				if cs.MustError || (!cs.Success && cs.Codes != nil) {
					viol = append(viol, V(key("wrong-class"), "expected an error %v but the server answered with a success result: %s", cs.Codes, truncate(re.Frames[len(re.Frames)-1], 160)))
				}
			} else {
				code := 0
				if got.Code != nil {
					code = *got.Code
				}
				obs.Add("error %d", code)
				if cs.Codes != nil {
					ok := false
					for _, c := range cs.Codes {
						if c == code {
							ok = true
						}
					}
					if !ok {
						viol = append(viol, V(key("wrong-code"), "error code %d, expected one of %v (message %q)", code, cs.Codes, truncate(got.Message, 100)))
					}
				} else if cs.Success && !cs.MustError && cs.Codes == nil {
					viol = append(viol, V(key("unexpected-error"), "a valid request was answered with error %d %q", code, truncate(got.Message, 100)))
				}
				if cs.MsgPart != "" && !strings.Contains(got.Message, cs.MsgPart) {
					viol = append(viol, V(key("message-lost"), "error message %q does not carry the handler's message %q", truncate(got.Message, 120), cs.MsgPart))
				}
			}
		}
		// content type of 2xx bodies
		// (only where the body is not itself a JSON-RPC message: the property speaks about the messages, not about media types)
		if re.Status >= 200 && re.Status < 300 && len(re.Body) > 0 && len(re.Frames) == 0 && !strings.Contains(re.ContentType, "application/json") && !strings.Contains(re.ContentType, "text/event-stream") {
			viol = append(viol, V(key("content-type"), "2xx answer with body but Content-Type %q", re.ContentType))
		}
	}
	o := finishOutcome(res, obs, viol, true)
	cr.ObsKey = cs.Mode + "|" + cs.Label + "|" + o.ObsKey
	cr.Violations = o.Violations
	if cr.Broken == "" {
		cr.Broken = o.Broken
	}
	return cr
}

// errorWithoutID reports whether f is an error reply that carries no id (or null): allowed when
// the request's id could not be determined.
func errorWithoutID(f string) bool {
	var m map[string]json.RawMessage
	if json.Unmarshal([]byte(f), &m) != nil {
		return false
	}
	_, isErr := m["error"]
	id, has := m["id"]
	return isErr && (!has || string(id) == "null")
}

// ---- notifications the server writes ------------------------------------------------------------
//
// "Every message a server writes ... a notification has a method and no id": notifications pushed
// to a session (Streamable GET stream, legacy SSE stream) and notifications a tool handler emits
// while it runs (POST-SSE answer stream), with parameter strings that are hostile to naive
// frame writers. Each frame is judged by the schema oracle and its parameters must be JSON-equal to
// what was handed to the library.

var c03NoteStrings = []struct{ Name, S string }{
	{"plain", "backup finished"},
	{"percent-end", "disk usage at 93%"},
	{"percent-verb", "50% done, %d files, %s left, %v"},
	{"percent-pad", "%!d(MISSING) %% %5.2f %[1]q %*d"},
	{"quotes", `say "hi" \ and \\ and \"`},
	{"newlines", "line1\nline2\r\nline3\rend"},
	{"separators", "a b c\u0085d"},
	{"html", "<script>&amp;</script>"},
	{"nul-ctl", "a\x00b\x01c\x1fd\x7f"},
	{"sse-words", "data: x\nevent: message\nid: 7\n\n"},
}

type c03NoteCase struct {
	Mode string // ss-push ls-push ss-call sl-call
	Kind string // custom | log | progress
	Str  int
}

func c03NoteCases() []c03NoteCase {
	var out []c03NoteCase
	for _, m := range []string{"ss-push", "ls-push", "ss-call", "sl-call"} { // (stdio and legacy SSE handlers have no notification sender)
		for _, k := range []string{"custom", "log", "progress"} {
			if strings.HasSuffix(m, "-push") && k != "custom" {
				continue
			}
			for i := range c03NoteStrings {
				out = append(out, c03NoteCase{m, k, i})
			}
		}
		// notifications without parameters: a nil map, an empty map, a ready-made notification with no params at all
		for _, k := range []string{"nil-params", "empty-params", "generic-no-params"} {
			out = append(out, c03NoteCase{m, k, 0})
		}
	}
	return out
}

func c03NoteEval(cs c03NoteCase) CaseResult {
	str := c03NoteStrings[cs.Str]
	cr := CaseResult{Desc: fmt.Sprintf("mode=%s notification=%s string=%s", cs.Mode, cs.Kind, str.Name), Nontrivial: true}
	var viol []explore.Violation
	obs := &hx.Log{}
	key := func(k string) string { return fmt.Sprintf("%s:%s:%s:%s", k, cs.Mode, cs.Kind, str.Name) }
	var frames []string
	var want string
	res := vsched.Run(vsched.Config{}, func() {
		mode := strings.SplitN(cs.Mode, "-", 2)[0]
		r := NewRig(mode)
		var emitErr error
		r.RegisterTool(mcp.NewTool("emit"), func(ctx context.Context, req *mcp.CallToolRequest) (*mcp.CallToolResult, error) {
			ns, ok := mcp.GetNotificationSender(ctx)
			if !ok {
				emitErr = errors.New("no notification sender in the handler's context")
				return mcp.NewTextResult("done"), nil
			}
			switch cs.Kind {
			case "custom":
				emitErr = ns.SendCustomNotification("notifications/custom", map[string]interface{}{"s": str.S, "n": 1})
			case "log":
				emitErr = ns.SendLogMessage("info", str.S)
			case "progress":
				emitErr = ns.SendProgress(0.5, str.S)
			case "nil-params":
				emitErr = ns.SendCustomNotification("notifications/custom", nil)
			case "empty-params":
				emitErr = ns.SendCustomNotification("notifications/custom", map[string]interface{}{})
			case "generic-no-params":
				emitErr = ns.SendNotification(&mcp.Notification{Method: "notifications/custom"})
			}
			return mcp.NewTextResult("done"), nil
		})
		r.Start()
		rp := NewRawPeer(r)
		if err := rp.Handshake(); err != nil {
			viol = append(viol, V("setup-handshake-fails", "setting the scenario up with well-behaved peers fails: %v", err))
			return
		}
		vsched.Quiesce()
		if strings.HasSuffix(cs.Mode, "-push") {
			params := map[string]interface{}{"s": str.S, "n": 1}
			switch cs.Kind {
			case "nil-params", "generic-no-params":
				params = nil
			case "empty-params":
				params = map[string]interface{}{}
			}
			want = hx.CanonOf(map[string]interface{}{"s": str.S, "n": 1})
			var err error
			if mode == "ls" {
				err = r.SSE.SendNotification("sse-0001", "notifications/custom", params)
			} else {
				if e := rp.OpenStream(); e != nil {
					viol = append(viol, V("harness", "GET: %v", e))
					return
				}
				err = r.Server.SendNotification(rp.SID, "notifications/custom", params)
			}
			vsched.Quiesce()
			if err != nil {
				viol = append(viol, V(key("push-fails"), "SendNotification failed: %v", err))
			}
			frames = rp.StreamFrames()
			return
		}
		re := rp.Send(`{"jsonrpc":"2.0","id":7,"method":"tools/call","params":{"name":"emit","_meta":{"progressToken":"tok"}}}`)
		vsched.Quiesce()
		if emitErr != nil {
			viol = append(viol, V(key("emit-fails"), "sending the notification from the handler failed: %v", emitErr))
		}
		frames = re.Frames
		if mode == "io" {
			frames = rp.StreamFrames()
		}
	})
	if len(viol) == 0 {
		// the frames that are not the handshake's or the call's answer
		var notes []string
		var hf []hx.Frame
		for _, f := range frames {
			var m map[string]json.RawMessage
			if json.Unmarshal([]byte(f), &m) == nil {
				if _, isResp := m["result"]; isResp {
					continue
				}
				if _, isErr := m["error"]; isErr {
					continue
				}
			}
			notes = append(notes, f)
			hf = append(hf, hx.Frame{Raw: f, Kind: "notification"})
		}
		if len(notes) != 1 {
			viol = append(viol, V(key("notification-count"), "%d notification frames were written, want 1: %s", len(notes), truncate(strings.Join(frames, " | "), 300)))
		}
		verd, err := hx.ValidateFrames(hf)
		if err != nil {
			cr.Broken = err.Error()
			return cr
		}
		for i, v := range verd {
			if !v.OK {
				viol = append(viol, V(key("malformed-notification"), "the server wrote an ill-formed notification: %s :: %s", strings.Join(v.Errors, "; "), truncate(notes[i], 200)))
				continue
			}
			var m struct {
				Method string                 `json:"method"`
				Params map[string]interface{} `json:"params"`
			}
			json.Unmarshal([]byte(notes[i]), &m)
			switch cs.Kind {
			case "nil-params", "empty-params", "generic-no-params":
				// the schema oracle has judged the frame (params, when present, is an object); nothing was handed over
				if len(m.Params) != 0 {
					viol = append(viol, V(key("notification-params"), "no parameters were handed to the library, the notification written carries %s", truncate(hx.CanonOf(m.Params), 120)))
				}
			case "custom":
				if got := hx.CanonOf(m.Params); want != "" && got != want {
					viol = append(viol, V(key("notification-params"), "parameters written %s, handed to the library %s", truncate(got, 200), truncate(want, 200)))
				} else if want == "" && (m.Params["s"] != str.S) {
					viol = append(viol, V(key("notification-params"), "parameter s written as %q, handed to the library as %q", m.Params["s"], str.S))
				}
			default:
				if !strings.Contains(hx.CanonOf(m.Params), hx.CanonOf(str.S)) {
					viol = append(viol, V(key("notification-params"), "the message %q handed to the library does not appear in the notification written: %s", str.S, truncate(notes[i], 240)))
				}
			}
		}
		obs.Add("%d notes", len(notes))
	}
	o := finishOutcome(res, obs, viol, true)
	cr.ObsKey = cr.Desc + "|" + o.ObsKey
	cr.Violations = o.Violations
	if cr.Broken == "" {
		cr.Broken = o.Broken
	}
	return cr
}

func init() {
	RegisterEnum(&Enum{Name: "c03/notifications", Doc: "notifications the server writes: pushed to a session (Streamable GET stream, legacy SSE stream) and emitted by a running tool handler (POST-SSE stream, stateful and stateless; custom / log / progress) x 10 parameter strings hostile to frame writers (%, quotes, line breaks, U+2028, control bytes, SSE field names); schema oracle + JSON equality of the parameters",
		Count: func(string) int { return len(c03NoteCases()) },
		Eval:  func(tier string, i int) CaseResult { return c03NoteEval(c03NoteCases()[i]) }})
}
