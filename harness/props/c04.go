package props

import (
	"context"
	"fmt"
	"net/http"
	"sort"
	"strings"

	mcp "trpc.group/trpc-go/trpc-mcp-go"
	"verif.local/engine/explore"
	"verif.local/engine/memnet"
	"verif.local/engine/vrand"
	"verif.local/engine/vsched"
	"verif.local/harness/hx"
)

// C04 — Streamable-HTTP session life-cycle follows the protocol state machine.
//
// Explicit-state breadth-first search. A state is a reference-model state (sessions created so
// far, which are live, which own an open stream); the transition function is the real
// Server.Handler(): the successor of (history, event) is computed by replaying history+event on
// a fresh server. Every transition is checked against the model's prediction.

type c04Cfg struct {
	Mode    string // stateful | stateless | disabled
	GetSSE  bool
	PostSSE bool
	MW      bool // two pass-through middlewares are configured (the state machine is the same)
}

func (c c04Cfg) String() string {
	if c.MW {
		return fmt.Sprintf("%s/get=%v/postsse=%v/middleware", c.Mode, c.GetSSE, c.PostSSE)
	}
	return fmt.Sprintf("%s/get=%v/postsse=%v", c.Mode, c.GetSSE, c.PostSSE)
}

func c04Configs(tier string) []c04Cfg {
	var out []c04Cfg
	for _, m := range []string{"stateful", "stateless", "disabled"} {
		for _, g := range []bool{true, false} {
			for _, p := range []bool{true, false} {
				if tier != "thorough" && m != "stateful" && !(g && p) && !(!g && !p) {
					continue
				}
				out = append(out, c04Cfg{m, g, p, false})
			}
		}
		out = append(out, c04Cfg{m, true, true, true})
	}
	return out
}

// idref: how an event names a session.
//
//	-1 none, 0..n-1 session index (live or deleted), 100 never issued (well-formed), 101.. foreign shapes
type c04Event struct {
	Op  string // init request notify respond get close delete
	Ref int
}

func (e c04Event) String() string {
	r := fmt.Sprint("s", e.Ref)
	switch {
	case e.Ref == -1:
		r = "none"
	case e.Ref == 100:
		r = "never"
	case e.Ref == 150:
		r = "other-server's"
	case e.Ref > 100:
		r = fmt.Sprint("foreign", e.Ref-100)
	}
	return e.Op + "(" + r + ")"
}

var c04Foreign = []string{"0123456789abcdef0123456789abcde", "0123456789ABCDEF0123456789ABCDEF", "../../etc/passwd", " "}

type c04Sess struct {
	Live   bool
	Stream bool
}

type c04Model struct {
	Sess []c04Sess
}

func (m c04Model) key() string {
	var sb strings.Builder
	for _, s := range m.Sess {
		switch {
		case s.Live && s.Stream:
			sb.WriteByte('S')
		case s.Live:
			sb.WriteByte('L')
		default:
			sb.WriteByte('D')
		}
	}
	return sb.String()
}

func (m c04Model) clone() c04Model { return c04Model{Sess: append([]c04Sess(nil), m.Sess...)} }

func c04Events(cfg c04Cfg, m c04Model, maxSess int) []c04Event {
	var refs []int
	refs = append(refs, -1)
	for i := range m.Sess {
		refs = append(refs, i)
	}
	refs = append(refs, 100, 101, 102)
	if cfg.Mode == "stateful" {
		refs = append(refs, 150) // a live id issued by another server of the same process
	}
	var evs []c04Event
	for _, op := range []string{"init", "request", "notify", "respond", "get", "delete"} {
		for _, r := range refs {
			if op == "init" && r == -1 && len(m.Sess) >= maxSess {
				continue
			}
			evs = append(evs, c04Event{op, r})
		}
	}
	for i, s := range m.Sess {
		if s.Stream {
			evs = append(evs, c04Event{"close", i})
		}
	}
	if cfg.Mode == "stateful" {
		evs = append(evs, c04Event{"tick", -1}) // a minute passes: the expiry sweep runs; nobody has been idle for an hour
	}
	return evs
}

type c04Expect struct {
	Status    []int  // acceptable statuses
	Header    string // "new" | "same" | "none" | "any"
	StreamEnd []int  // sessions whose stream must have ended
}

// c04Step applies ev to the model and returns what the implementation must answer.
func c04Step(cfg c04Cfg, m *c04Model, ev c04Event) c04Expect {
	known := ev.Ref >= 0 && ev.Ref < len(m.Sess)
	live := known && m.Sess[ev.Ref].Live
	switch cfg.Mode {
	case "stateless", "disabled":
		// no session is ever issued or required; GET is refused.
		switch ev.Op {
		case "init", "request":
			return c04Expect{Status: []int{200}, Header: "none"}
		case "notify", "respond":
			if cfg.Mode == "disabled" && ev.Op == "respond" {
				return c04Expect{Status: []int{202, 404, 400}, Header: "none"} // there is no session a response could belong to
			}
			return c04Expect{Status: []int{202}, Header: "none"}
		case "get":
			if cfg.Mode == "disabled" {
				return c04Expect{Status: []int{405, 400, 404, 501}, Header: "none"}
			}
			return c04Expect{Status: []int{405}, Header: "none"}
		case "delete":
			return c04Expect{Status: []int{400, 404, 405, 501}, Header: "none"}
		}
	}
	// stateful
	unknown := ev.Ref >= 0 && !live // deleted, never, foreign
	switch ev.Op {
	case "init":
		switch {
		case ev.Ref == -1:
			m.Sess = append(m.Sess, c04Sess{Live: true})
			return c04Expect{Status: []int{200}, Header: "new"}
		case live:
			return c04Expect{Status: []int{200}, Header: "same"}
		default:
			return c04Expect{Status: []int{404}, Header: "none"}
		}
	case "request":
		switch {
		case ev.Ref == -1:
			return c04Expect{Status: []int{400}, Header: "none"}
		case live:
			return c04Expect{Status: []int{200}, Header: "same"}
		}
		return c04Expect{Status: []int{404}, Header: "none"}
	case "notify", "respond":
		switch {
		case ev.Ref == -1:
			return c04Expect{Status: []int{400}, Header: "none"}
		case live:
			return c04Expect{Status: []int{202}, Header: "same"}
		}
		return c04Expect{Status: []int{404}, Header: "none"}
	case "get":
		if !cfg.GetSSE {
			return c04Expect{Status: []int{405}, Header: "none"}
		}
		switch {
		case ev.Ref == -1:
			return c04Expect{Status: []int{400}, Header: "none"}
		case live:
			m.Sess[ev.Ref].Stream = true
			return c04Expect{Status: []int{200}, Header: "same"}
		}
		return c04Expect{Status: []int{404}, Header: "none"}
	case "close":
		m.Sess[ev.Ref].Stream = false
		return c04Expect{}
	case "tick":
		return c04Expect{}
	case "delete":
		switch {
		case ev.Ref == -1:
			return c04Expect{Status: []int{400}, Header: "none"}
		case live:
			e := c04Expect{Status: []int{200, 204}, Header: "any"}
			if m.Sess[ev.Ref].Stream {
				e.StreamEnd = []int{ev.Ref}
			}
			m.Sess[ev.Ref].Live = false
			m.Sess[ev.Ref].Stream = false
			return e
		}
		_ = unknown
		return c04Expect{Status: []int{404}, Header: "none"}
	}
	return c04Expect{}
}

// c04World is the implementation side of one replay.
type c04World struct {
	cfg     c04Cfg
	srv     *mcp.Server
	peer    *hx.Peer
	ids     []string
	streams []*memnet.Exchange // current stream per session index
	allGets map[int][]*memnet.Exchange
	nreq    int
	// a second, independent stateful server in the same process with one live session of its own:
	// its id is "foreign-made" for the server under test (ref 150), and nothing done to the server
	// under test may touch it
	other     *mcp.Server
	otherPeer *hx.Peer
	otherID   string
}

func c04New(cfg c04Cfg) *c04World { return c04NewWorld(cfg, true) }

func c04NewWorld(cfg c04Cfg, neighbour bool) *c04World {
	opts := []mcp.ServerOption{mcp.WithServerLogger(hx.Nop{}), mcp.WithGetSSEEnabled(cfg.GetSSE), mcp.WithPostSSEEnabled(cfg.PostSSE)}
	switch cfg.Mode {
	case "stateless":
		opts = append(opts, mcp.WithStatelessMode(true))
	case "disabled":
		opts = append(opts, mcp.WithoutSession())
	}
	if cfg.MW {
		pass := func(next mcp.HandlerFunc) mcp.HandlerFunc {
			return func(ctx context.Context, req *mcp.JSONRPCRequest) (mcp.JSONRPCMessage, error) { return next(ctx, req) }
		}
		opts = append(opts, mcp.WithMiddleware(pass, pass))
	}
	srv := mcp.NewServer("s", "1", opts...)
	srv.RegisterTool(mcp.NewTool("t"), func(ctx context.Context, req *mcp.CallToolRequest) (*mcp.CallToolResult, error) {
		return mcp.NewTextResult("ok"), nil
	})
	fab := memnet.NewFabric("srv", srv.Handler())
	w := &c04World{cfg: cfg, srv: srv, peer: hx.NewPeer(fab, "http://srv/mcp"), allGets: map[int][]*memnet.Exchange{}}
	if cfg.Mode == "stateful" && neighbour {
		w.other = mcp.NewServer("other", "1", mcp.WithServerLogger(hx.Nop{}))
		w.other.RegisterTool(mcp.NewTool("t"), func(ctx context.Context, req *mcp.CallToolRequest) (*mcp.CallToolResult, error) {
			return mcp.NewTextResult("other"), nil
		})
		w.otherPeer = hx.NewPeer(memnet.NewFabric("other", w.other.Handler()), "http://other/mcp")
		if r := w.otherPeer.Post("", hx.InitBody(1, "2025-03-26")); r.Err == nil && r.Status == 200 {
			w.otherID = r.SessionID()
		}
		vsched.Quiesce()
	}
	return w
}

func (w *c04World) idOf(ref int) string {
	switch {
	case ref == -1:
		return ""
	case ref >= 0 && ref < len(w.ids):
		return w.ids[ref]
	case ref == 100:
		return "00112233445566778899aabbccddeeff"
	case ref == 150:
		return w.otherID
	default:
		return c04Foreign[(ref-101)%len(c04Foreign)]
	}
}

type c04Obs struct {
	Status int
	Hdr    string
	Body   string
	Err    error
}

func (w *c04World) do(ev c04Event) c04Obs {
	sid := w.idOf(ev.Ref)
	w.nreq++
	if w.cfg.Mode != "stateful" {
		w.nreq = 1 // identical requests, so that answers can be compared across histories
	}
	var r *hx.Reply
	switch ev.Op {
	case "init":
		r = w.peer.Post(sid, hx.InitBody(w.nreq, "2025-03-26"))
		if r.Err == nil && r.Status == 200 && ev.Ref == -1 {
			w.ids = append(w.ids, r.SessionID())
			w.streams = append(w.streams, nil)
		}
	case "request":
		r = w.peer.Post(sid, fmt.Sprintf(`{"jsonrpc":"2.0","id":%d,"method":"tools/call","params":{"name":"t"}}`, w.nreq))
	case "notify":
		r = w.peer.Post(sid, `{"jsonrpc":"2.0","method":"notifications/initialized"}`)
	case "respond":
		r = w.peer.Post(sid, `{"jsonrpc":"2.0","id":424242,"result":{"roots":[]}}`)
	case "delete":
		r = w.peer.Do(http.MethodDelete, w.peer.URL, sid, nil, nil)
	case "get":
		resp, x, err := w.peer.Open(context.Background(), http.MethodGet, w.peer.URL, sid, nil, nil)
		if err != nil {
			return c04Obs{Err: err}
		}
		o := c04Obs{Status: resp.StatusCode, Hdr: resp.Header.Get("Mcp-Session-Id")}
		if resp.StatusCode == 200 && strings.Contains(resp.Header.Get("Content-Type"), "event-stream") {
			if ev.Ref >= 0 && ev.Ref < len(w.streams) {
				w.streams[ev.Ref] = x
				w.allGets[ev.Ref] = append(w.allGets[ev.Ref], x)
			}
		} else {
			resp.Body.Close()
		}
		vsched.Quiesce()
		return o
	case "tick":
		vsched.Sleep(61e9) // virtual time: the sweeper's one-minute ticker fires
		vsched.Quiesce()
		return c04Obs{}
	case "close":
		if x := w.streams[ev.Ref]; x != nil {
			x.CloseFromClient()
			w.streams[ev.Ref] = nil
		}
		vsched.Quiesce()
		return c04Obs{}
	}
	vsched.Quiesce()
	if r.Err != nil {
		return c04Obs{Err: r.Err}
	}
	return c04Obs{Status: r.Status, Hdr: r.SessionID(), Body: string(r.Body)}
}

// c04Check compares one observed transition with the model's prediction.
func c04Check(cfg c04Cfg, w *c04World, m c04Model, ev c04Event, exp c04Expect, o c04Obs, hist string) []explore.Violation {
	var viol []explore.Violation
	where := fmt.Sprintf("[%s] after %s: %s", cfg, hist, ev)
	k := func(kind string) string {
		ref := "live"
		switch {
		case ev.Ref == -1:
			ref = "none"
		case ev.Ref == 100:
			ref = "never"
		case ev.Ref > 100:
			ref = "foreign"
		case ev.Ref >= len(m.Sess) || !m.Sess[ev.Ref].Live:
			if ev.Op != "delete" || o.Status != 200 {
				ref = "deleted"
			}
		}
		return fmt.Sprintf("%s:%s:%s(%s)", kind, cfg.Mode, ev.Op, ref)
	}
	if o.Err != nil {
		return append(viol, V(k("transport-error"), "%s -> transport error %v", where, o.Err))
	}
	if len(exp.Status) > 0 {
		ok := false
		for _, s := range exp.Status {
			if s == o.Status {
				ok = true
			}
		}
		if !ok {
			viol = append(viol, V(k("status"), "%s -> HTTP %d, the state machine prescribes %v (body %q)", where, o.Status, exp.Status, truncate(o.Body, 80)))
		}
	}
	switch exp.Header {
	case "none":
		if o.Hdr != "" {
			viol = append(viol, V(k("header"), "%s -> answered with session id %q, none expected", where, o.Hdr))
		}
	case "same":
		if o.Hdr != w.idOf(ev.Ref) {
			viol = append(viol, V(k("header"), "%s -> answered with session id %q, expected the request's own %q", where, o.Hdr, w.idOf(ev.Ref)))
		}
	case "new":
		id := o.Hdr
		if len(id) < 32 {
			viol = append(viol, V(k("id-short"), "%s -> issued id %q shorter than 128 bits of hex", where, id))
		}
		for _, c := range id {
			if c < 0x21 || c > 0x7e {
				viol = append(viol, V(k("id-ascii"), "%s -> issued id %q is not visible ASCII", where, id))
				break
			}
		}
		for i, old := range w.ids {
			if i < len(w.ids)-1 && old == id {
				viol = append(viol, V(k("id-dup"), "%s -> issued id %q twice", where, id))
			}
		}
	}
	for _, si := range exp.StreamEnd {
		gets := w.allGets[si]
		if len(gets) > 0 && !gets[len(gets)-1].HandlerDone {
			viol = append(viol, V(k("stream-survives-delete"), "%s -> the session's listening stream is still open after DELETE", where))
		}
	}
	// server state == model state
	if cfg.Mode == "stateful" {
		act, err := w.srv.GetActiveSessions()
		var want []string
		for i, s := range m.Sess {
			if s.Live && i < len(w.ids) {
				want = append(want, w.ids[i])
			}
		}
		sort.Strings(act)
		sort.Strings(want)
		if err != nil || strings.Join(act, ",") != strings.Join(want, ",") {
			viol = append(viol, V(k("live-set"), "%s -> GetActiveSessions()=%v (err %v) but the history leaves %v alive", where, act, err, want))
		}
		// the neighbour server is untouched by anything addressed to the server under test
		if w.other != nil {
			if w.otherID == "" {
				viol = append(viol, V("setup-handshake-fails", "the second server did not issue a session id"))
			} else {
				oa, oerr := w.other.GetActiveSessions()
				if oerr != nil || len(oa) != 1 || oa[0] != w.otherID {
					viol = append(viol, V(k("neighbour-live-set"), "%s -> a second server of the same process, on which exactly session %s was initialized, reports GetActiveSessions()=%v (err %v)", where, w.otherID, oa, oerr))
				}
				r := w.otherPeer.Post(w.otherID, `{"jsonrpc":"2.0","id":7,"method":"ping"}`)
				vsched.Quiesce()
				if r.Err != nil || r.Status != 200 {
					viol = append(viol, V(k("neighbour-session-lost"), "%s -> the session of a second server of the same process no longer answers on its own server: HTTP %d %v", where, r.Status, r.Err))
				}
			}
		}
		streams := mcp.VerifGetStreamSessions(w.srv)
		var wantS []string
		for i, s := range m.Sess {
			if s.Stream && i < len(w.ids) {
				wantS = append(wantS, w.ids[i])
			}
		}
		sort.Strings(streams)
		sort.Strings(wantS)
		if strings.Join(streams, ",") != strings.Join(wantS, ",") {
			viol = append(viol, V(k("stream-set"), "%s -> listening-stream table %v, model %v", where, streams, wantS))
		}
		// a stream of the model must really be open, others closed
		for i, s := range m.Sess {
			gets := w.allGets[i]
			for gi, g := range gets {
				last := gi == len(gets)-1
				if g.HandlerDone == (s.Stream && last) {
					viol = append(viol, V(k("stream-state"), "%s -> stream #%d of session %d: ended=%v, model says open=%v", where, gi, i, g.HandlerDone, s.Stream && last))
				}
			}
		}
	} else {
		if cfg.Mode == "stateless" {
			if _, err := w.srv.GetActiveSessions(); err == nil {
				viol = append(viol, V(k("stateless-sessions"), "%s -> GetActiveSessions succeeds in stateless mode", where))
			}
		}
	}
	return viol
}

func histString(h []c04Event) string {
	if len(h) == 0 {
		return "<start>"
	}
	var parts []string
	for _, e := range h {
		parts = append(parts, e.String())
	}
	return strings.Join(parts, " ")
}

// c04Replay runs history h on a fresh server and returns the violations of its LAST transition
// plus the model state reached (earlier transitions were checked when they were the last one).
func c04Replay(cfg c04Cfg, h []c04Event) (viol []explore.Violation, m c04Model, lastObs c04Obs, broken string) {
	res := vsched.Run(vsched.Config{}, func() {
		w := c04New(cfg)
		for i, ev := range h {
			before := m.clone()
			exp := c04Step(cfg, &m, ev)
			o := w.do(ev)
			if i == len(h)-1 {
				lastObs = o
				viol = append(viol, c04Check(cfg, w, m, ev, exp, o, histString(h[:i]))...)
			}
			_ = before
		}
	})
	o := finishOutcome(res, &hx.Log{}, viol, true)
	return o.Violations, m, lastObs, o.Broken
}

func c04BFS(tier string, cfg c04Cfg) CaseResult {
	depth, maxSess := 4, 2
	if tier == "thorough" {
		depth, maxSess = 6, 3
		if cfg.Mode != "stateful" {
			depth = 4
		}
	} else if cfg.Mode != "stateful" {
		depth = 3
	}
	cr := CaseResult{Desc: fmt.Sprintf("BFS %s depth<=%d sessions<=%d", cfg, depth, maxSess), Nontrivial: true}
	type node struct {
		hist []c04Event
		m    c04Model
	}
	seen := map[string]bool{"": true}
	frontier := []node{{nil, c04Model{}}}
	states, trans := 1, 0
	var emptyAnswers = map[string]string{} // stateless differential: event -> answer after the empty history
	violSeen := map[string]bool{}
	for d := 0; d < depth; d++ {
		var next []node
		for _, n := range frontier {
			for _, ev := range c04Events(cfg, n.m, maxSess) {
				h := append(append([]c04Event(nil), n.hist...), ev)
				viol, m2, obs, broken := c04Replay(cfg, h)
				trans++
				if broken != "" {
					cr.Broken = broken
				}
				for _, v := range viol {
					if !violSeen[v.Key] {
						violSeen[v.Key] = true
						cr.Violations = append(cr.Violations, v)
					}
				}
				if cfg.Mode != "stateful" {
					// the answer must not depend on the history
					sig := fmt.Sprintf("%d|%s", obs.Status, stripEventIDs(obs.Body))
					if d == 0 {
						emptyAnswers[ev.String()] = sig
					} else if base, ok := emptyAnswers[ev.String()]; ok && base != sig {
						key := fmt.Sprintf("history-dependence:%s:%s", cfg.Mode, ev.Op)
						if !violSeen[key] {
							violSeen[key] = true
							cr.Violations = append(cr.Violations, V(key, "[%s] %s is answered %q after %s but %q on a fresh server", cfg, ev, truncate(sig, 100), histString(n.hist), truncate(base, 100)))
						}
					}
				}
				k := m2.key()
				if cfg.Mode != "stateful" {
					k = fmt.Sprint(len(h)) // no model state: explore by depth only along one representative
				}
				if !seen[k] {
					seen[k] = true
					states++
					next = append(next, node{h, m2})
				}
			}
		}
		frontier = next
	}
	cr.States, cr.Trans = states, trans
	cr.ObsKey = fmt.Sprintf("%s states=%d trans=%d viol=%d", cfg, states, trans, len(cr.Violations))
	return cr
}

func stripEventIDs(s string) string {
	var out []string
	for _, ln := range strings.Split(s, "\n") {
		if strings.HasPrefix(ln, "id:") {
			continue
		}
		out = append(out, ln)
	}
	return strings.Join(out, "\n")
}

// c04IDQuality checks the session id generator through the crypto/rand seam.
func c04IDQuality(tier string, i int) CaseResult {
	cr := CaseResult{Desc: "session id derived from >=16 bytes of the crypto/rand seam, injective in each byte", Nontrivial: true}
	var viol []explore.Violation
	idFor := func(src func(call int, b []byte)) (string, []int) {
		var id string
		var reqs []int
		vsched.Run(vsched.Config{}, func() {
			vrand.SetSource(src)
			w := c04NewWorld(c04Cfg{"stateful", true, true, false}, false)
			r := w.peer.Post("", hx.InitBody(1, "2025-03-26"))
			id = r.SessionID()
			reqs = vrand.Requests()
		})
		return id, reqs
	}
	base, reqs := idFor(func(call int, b []byte) {
		for k := range b {
			b[k] = byte(0x10 + k)
		}
	})
	total := 0
	for _, n := range reqs {
		total += n
	}
	if total < 16 {
		viol = append(viol, V("id-entropy", "creating a session requested %v bytes from crypto/rand (total %d), fewer than 16", reqs, total))
	}
	for pos := 0; pos < 16; pos++ {
		for _, delta := range []byte{1, 0x80} {
			pos, delta := pos, delta
			id, _ := idFor(func(call int, b []byte) {
				for k := range b {
					b[k] = byte(0x10 + k)
				}
				if call == 0 && pos < len(b) {
					b[pos] ^= delta
				}
			})
			if id == base {
				viol = append(viol, V("id-entropy", "flipping byte %d of the random input does not change the session id %q", pos, id))
			}
		}
	}
	id2, _ := idFor(func(call int, b []byte) {
		for k := range b {
			b[k] = 0xff
		}
	})
	for _, c := range base + id2 {
		if c < 0x21 || c > 0x7e {
			viol = append(viol, V("id-ascii", "session id %q contains a byte outside visible ASCII", base))
			break
		}
	}
	cr.Violations = viol
	cr.States, cr.Trans = 1, 34
	cr.ObsKey = fmt.Sprintf("idquality reqs=%v", reqs)
	return cr
}

func init() {
	RegisterEnum(&Enum{Name: "c04/bfs", Doc: "explicit-state BFS over {init,request,notify,respond,GET,close,DELETE} x {no id, live, deleted, never-issued, foreign} with a reference session-table model; one case per server configuration",
		Count: func(tier string) int { return len(c04Configs(tier)) },
		Eval:  func(tier string, i int) CaseResult { return c04BFS(tier, c04Configs(tier)[i]) }})
	RegisterEnum(&Enum{Name: "c04/idquality", Doc: "session id generator through the crypto/rand seam", Count: func(string) int { return 1 }, Eval: c04IDQuality})
	RegisterCheck("C04", func(c *Ctx) {
		c.Level = "model_checking"
		c.Rule = "explicit-state BFS; state = reference model (per created session: live/deleted, stream open); successor = replay of history+event on a fresh real server; every transition compared with the model (status, Mcp-Session-Id header, GetActiveSessions, listening-stream table, stream EOF); states deduplicated by the model key"
		c.Assume = append(c.Assume, "the model is the oracle and is compared with the implementation on every transition, so traces_validated_against_impl equals transitions", "memnet replaces net/http", "the OS CSPRNG behind crypto/rand is assumed sound; the check is that the id is an injective function of >=16 bytes obtained from it", "quick: depth<=4, <=2 sessions; thorough: depth<=6, <=3 sessions; plus a preemption-bounded DFS of DELETE || request || GET on one session")
		c.Enumerate("c04/bfs")
		c.Enumerate("c04/idquality")
		c.DFSBoth("c04/delete-race", explore.Bounds{Preempt: c.Pick(3, 5), Dev: c.Pick(1, 2)}, 1)
		c.DFSBoth("c04/double-delete/2", explore.Bounds{Preempt: c.Pick(3, 5), Dev: 0}, 1)
		if !c.Quick() {
			c.DFS("c04/double-delete/3", explore.Bounds{Preempt: 3, Dev: 0, POR: true})
		}
	})
}

func init() {
	RegisterScenario(&Scenario{Name: "c04/delete-race", Run: c04DeleteRace,
		Doc: "one live session: DELETE || tools/call || GET issued concurrently (the session and stream tables are shared mutable state)"})
}

// c04DoubleDelete: two (thorough: three) DELETEs bearing the same live id are issued concurrently.
// Exactly one ends the session (200); the others bear an already deleted id (404).
func c04DoubleDelete(prefix []int, n int) explore.Outcome {
	var viol []explore.Violation
	obs := &hx.Log{}
	res := vsched.Run(cfgFor(prefix), func() {
		vsched.SetBranching(false)
		w := c04New(c04Cfg{"stateful", true, true, false})
		o := w.do(c04Event{"init", -1})
		o2 := w.do(c04Event{"init", -1})
		if o.Status != 200 || o2.Status != 200 || len(w.ids) != 2 {
			viol = append(viol, V("harness", "init failed: %+v %+v", o, o2))
			return
		}
		sid := w.ids[0]
		vsched.SetBranching(true)
		replies := make([]*hx.Reply, n)
		for i := 0; i < n; i++ {
			i := i
			vsched.Go("delete", func() { replies[i] = w.peer.Do(http.MethodDelete, w.peer.URL, sid, nil, nil) })
		}
		vsched.Quiesce()
		ok, gone := 0, 0
		var st []int
		for _, r := range replies {
			if r == nil {
				viol = append(viol, V("double-delete:hang", "a DELETE did not complete; blocked %v", vsched.LiveThreads()))
				return
			}
			st = append(st, r.Status)
			switch r.Status {
			case 200:
				ok++
			case 404:
				gone++
			}
		}
		obs.Add("%v", st)
		if ok != 1 || gone != n-1 {
			viol = append(viol, V("double-delete:statuses", "%d concurrent DELETEs of one live session answered %v; exactly one ends the session (200), the others bear a deleted id (404)", n, st))
		}
		act, _ := w.srv.GetActiveSessions()
		if len(act) != 1 || act[0] != w.ids[1] {
			viol = append(viol, V("double-delete:live-set", "live sessions after the DELETEs: %v, expected only %s", act, w.ids[1]))
		}
	})
	return finishOutcome(res, obs, viol, true)
}

func init() {
	for _, n := range []int{2, 3} {
		n := n
		RegisterScenario(&Scenario{Name: fmt.Sprintf("c04/double-delete/%d", n), Run: func(p []int, m []vsched.ChoicePoint) explore.Outcome { return c04DoubleDelete(p, n) },
			Doc: fmt.Sprintf("%d concurrent DELETEs bearing the same live session id, a second session stays", n)})
	}
}

func c04DeleteRace(prefix []int, meta []vsched.ChoicePoint) explore.Outcome {
	var viol []explore.Violation
	obs := &hx.Log{}
	res := vsched.Run(cfgFor(prefix), func() {
		vsched.SetBranching(false)
		w := c04New(c04Cfg{"stateful", true, true, false})
		o := w.do(c04Event{"init", -1})
		if o.Status != 200 || len(w.ids) != 1 {
			viol = append(viol, V("harness", "init failed: %+v", o))
			return
		}
		sid := w.ids[0]
		vsched.SetBranching(true)
		var del, req *hx.Reply
		var gx *memnet.Exchange
		var gstatus int
		vsched.Go("delete", func() { del = w.peer.Do(http.MethodDelete, w.peer.URL, sid, nil, nil) })
		vsched.Go("request", func() { req = w.peer.Post(sid, `{"jsonrpc":"2.0","id":5,"method":"tools/call","params":{"name":"t"}}`) })
		vsched.Go("get", func() {
			resp, x, err := w.peer.Open(context.Background(), http.MethodGet, w.peer.URL, sid, nil, nil)
			if err == nil {
				gstatus = resp.StatusCode
				gx = x
			}
		})
		vsched.Quiesce()
		if del == nil || req == nil || gstatus == 0 {
			viol = append(viol, V("delete-race:hang", "a request did not complete: delete=%v request=%v get=%d; blocked %v", del != nil, req != nil, gstatus, vsched.LiveThreads()))
			return
		}
		obs.Add("del=%d req=%d get=%d", del.Status, req.Status, gstatus)
		if del.Status != 200 {
			viol = append(viol, V("delete-race:delete-status", "DELETE of a live session answered %d", del.Status))
		}
		if req.Status != 200 && req.Status != 404 {
			viol = append(viol, V("delete-race:request-status", "request racing with DELETE answered %d", req.Status))
		}
		if gstatus != 200 && gstatus != 404 {
			viol = append(viol, V("delete-race:get-status", "GET racing with DELETE answered %d", gstatus))
		}
		act, _ := w.srv.GetActiveSessions()
		if len(act) != 0 {
			viol = append(viol, V("delete-race:live-set", "session still reported live after DELETE returned 200: %v", act))
		}
		if gstatus == 200 && gx != nil && !gx.HandlerDone {
			viol = append(viol, V("delete-race:stream-survives", "the listening stream opened concurrently with DELETE is still open although the session is deleted (table: %v)", mcp.VerifGetStreamSessions(w.srv)))
		}
		if n := len(mcp.VerifGetStreamSessions(w.srv)); n != 0 && (gx == nil || gx.HandlerDone) {
			viol = append(viol, V("delete-race:table", "listening-stream table still has %d entries", n))
		}
	})
	return finishOutcome(res, obs, viol, true)
}
