package props

import (
	"context"
	"errors"
	"fmt"
	"io"
	"math"
	"net/http"
	"strings"
	"time"

	mcp "trpc.group/trpc-go/trpc-mcp-go"
	"verif.local/engine/explore"
	"verif.local/engine/memnet"
	"verif.local/engine/vcontext"
	"verif.local/engine/vsched"
	"verif.local/harness/hx"
)

// C17 — retry: bounded attempts, only transient failures, capped backoff, prompt cancel.

// ---- Validate ---------------------------------------------------------------------------

func c17Grid(tier string) (rs []int, ib []time.Duration, fs []float64, mb []time.Duration) {
	rs = []int{math.MinInt32, -1, 0, 1, 5, 10, 11, math.MaxInt32}
	ib = []time.Duration{math.MinInt64, -time.Millisecond, 0, 999 * time.Microsecond, time.Millisecond, time.Millisecond + 1, 500 * time.Millisecond, 30*time.Second - 1, 30 * time.Second, 30*time.Second + 1, math.MaxInt64}
	fs = []float64{math.NaN(), math.Inf(1), math.Inf(-1), -1, 0, 0.999, 1, 1.0000001, 2, 9.99, 10, 10.01, 1e308}
	mb = []time.Duration{math.MinInt64, 0, time.Millisecond, 499 * time.Millisecond, 500 * time.Millisecond, 31 * time.Second, 5*time.Minute - 1, 5 * time.Minute, 5*time.Minute + 1, math.MaxInt64}
	if tier != "thorough" {
		rs = []int{-1, 0, 5, 10, 11}
	}
	return
}

func c17ValidateEval(tier string, _ int) CaseResult {
	cr := CaseResult{Desc: "Config.Validate on the boundary-value grid (all 4-tuples)", Nontrivial: true}
	rs, ib, fs, mb := c17Grid(tier)
	seen := map[string]bool{}
	n := 0
	for _, r := range rs {
		for _, i := range ib {
			for _, f := range fs {
				for _, m := range mb {
					n++
					in := mcp.VerifRetryConfig{MaxRetries: r, InitialBackoff: i, BackoffFactor: f, MaxBackoff: m}
					out := mcp.VerifRetryValidate(in)
					bad := ""
					switch {
					case out.MaxRetries < 0 || out.MaxRetries > 10:
						bad = "max-retries"
					case out.InitialBackoff < time.Millisecond || out.InitialBackoff > 30*time.Second:
						bad = "initial-backoff"
					case !(out.BackoffFactor >= 1 && out.BackoffFactor <= 10):
						bad = "factor"
					case out.MaxBackoff < out.InitialBackoff || out.MaxBackoff > 5*time.Minute:
						bad = "max-backoff"
					}
					if bad == "" {
						again := mcp.VerifRetryValidate(out)
						if again != out && !(math.IsNaN(again.BackoffFactor) && math.IsNaN(out.BackoffFactor)) {
							bad = "not-idempotent"
						}
					}
					if bad != "" {
						key := "validate:" + bad
						if bad == "factor" && math.IsNaN(f) {
							key = "validate:factor-nan"
						}
						if !seen[key] {
							seen[key] = true
							cr.Violations = append(cr.Violations, V(key, "Validate(%+v) = %+v leaves %s outside its documented range", in, out, bad))
						}
					}
				}
			}
		}
	}
	cr.Trans = n
	cr.ObsKey = fmt.Sprintf("validate grid %d", n)
	return cr
}

// c17OptionsEval: the public options. What a client built with WithRetry(cfg) ends up with is the
// clamped cfg (nothing else: a zero is clamped like any other value), WithSimpleRetry(n) is the
// defaults with n clamped, and without an option there is no retry configuration.
func c17OptionsEval(tier string, _ int) CaseResult {
	cr := CaseResult{Desc: "WithRetry / WithSimpleRetry / no option on the boundary-value grid, for the Streamable and the legacy SSE client constructors", Nontrivial: true}
	rs, ib, fs, mb := c17Grid(tier)
	seen := map[string]bool{}
	n := 0
	info := mcp.Implementation{Name: "c", Version: "1"}
	mk := func(kind string, opts ...mcp.ClientOption) *mcp.Client {
		var c *mcp.Client
		var err error
		if kind == "ls" {
			c, err = mcp.NewSSEClient("http://srv/sse", info, append([]mcp.ClientOption{mcp.WithClientLogger(hx.Nop{})}, opts...)...)
		} else {
			c, err = mcp.NewClient("http://srv/mcp", info, append([]mcp.ClientOption{mcp.WithClientLogger(hx.Nop{})}, opts...)...)
		}
		if err != nil {
			cr.Broken = err.Error()
		}
		return c
	}
	same := func(a, b mcp.VerifRetryConfig) bool {
		return a == b || (math.IsNaN(a.BackoffFactor) && math.IsNaN(b.BackoffFactor) && a.MaxRetries == b.MaxRetries && a.InitialBackoff == b.InitialBackoff && a.MaxBackoff == b.MaxBackoff)
	}
	for _, kind := range []string{"sj", "ls"} {
		if c := mk(kind); c != nil && mcp.VerifClientRetryConfig(c) != nil {
			cr.Violations = append(cr.Violations, V("options:retry-without-option:"+kind, "a client built without a retry option has the retry configuration %+v", *mcp.VerifClientRetryConfig(c)))
		}
		// options are values: creating other options between the creation and the use of one must not change it
		var table []mcp.ClientOption
		for _, r := range rs {
			table = append(table, mcp.WithSimpleRetry(r))
		}
		for ti, r := range rs {
			n++
			c := mk(kind, table[ti])
			if c == nil {
				return cr
			}
			want := mcp.VerifRetryValidate(mcp.VerifRetryConfig{MaxRetries: r, InitialBackoff: 500 * time.Millisecond, BackoffFactor: 2, MaxBackoff: 8 * time.Second})
			if got := mcp.VerifClientRetryConfig(c); got == nil || !same(*got, want) {
				if !seen["simple-table:"+kind] {
					seen["simple-table:"+kind] = true
					cr.Violations = append(cr.Violations, V("options:simple-retry-shared-state:"+kind, "WithSimpleRetry(%d), created before %d other retry options and applied afterwards, yields %+v, expected %+v", r, len(rs)-ti-1, got, want))
				}
			}
		}
		for _, r := range rs {
			n++
			c := mk(kind, mcp.WithSimpleRetry(r))
			if c == nil {
				return cr
			}
			want := mcp.VerifRetryValidate(mcp.VerifRetryConfig{MaxRetries: r, InitialBackoff: 500 * time.Millisecond, BackoffFactor: 2, MaxBackoff: 8 * time.Second})
			if got := mcp.VerifClientRetryConfig(c); got == nil || !same(*got, want) {
				if !seen["simple:"+kind] {
					seen["simple:"+kind] = true
					cr.Violations = append(cr.Violations, V("options:simple-retry:"+kind, "WithSimpleRetry(%d) yields %+v, expected the documented defaults with the clamped count: %+v", r, got, want))
				}
			}
			for _, i := range ib {
				for _, f := range fs {
					for _, m := range mb {
						n++
						in := mcp.RetryConfig{MaxRetries: r, InitialBackoff: i, BackoffFactor: f, MaxBackoff: m}
						c := mk(kind, mcp.WithRetry(in))
						if c == nil {
							return cr
						}
						want := mcp.VerifRetryValidate(mcp.VerifRetryConfig{MaxRetries: r, InitialBackoff: i, BackoffFactor: f, MaxBackoff: m})
						got := mcp.VerifClientRetryConfig(c)
						if got == nil || !same(*got, want) {
							field := "other"
							switch {
							case got == nil:
								field = "missing"
							case got.MaxRetries != want.MaxRetries:
								field = "max-retries"
							case got.InitialBackoff != want.InitialBackoff:
								field = "initial-backoff"
							case got.MaxBackoff != want.MaxBackoff:
								field = "max-backoff"
							case got.BackoffFactor != want.BackoffFactor:
								field = "factor"
							}
							key := "options:with-retry:" + field + ":" + kind
							if !seen[key] {
								seen[key] = true
								cr.Violations = append(cr.Violations, V(key, "WithRetry(%+v) yields %+v, the clamping rule gives %+v", in, got, want))
							}
						}
					}
				}
			}
		}
	}
	cr.Trans = n
	cr.ObsKey = fmt.Sprintf("options grid %d", n)
	return cr
}

// ---- classifier -------------------------------------------------------------------------

func c17WantRetryable(status int) bool {
	return status == 408 || status == 409 || status == 429 || (status >= 500 && status <= 599)
}

func c17ClassifyEval(tier string, _ int) CaseResult {
	cr := CaseResult{Desc: "IsRetryableError on the error texts the transports produce x status 100..599 x bodies, and on network error texts", Nontrivial: true}
	seen := map[string]bool{}
	n := 0
	add := func(key, format string, a ...interface{}) {
		if !seen[key] {
			seen[key] = true
			cr.Violations = append(cr.Violations, V(key, format, a...))
		}
	}
	bodies := []string{"", "Session not found or expired", "upstream said 500 Internal Server Error", "retry after 30 seconds", "connection reset by peer", "see port 5001 ", "code 503",
		// a gateway or proxy that relays what its upstream said
		"upstream: HTTP request failed: status code 503", "upstream answered status code 404, body: no such route", "status code 429 then status code 200", "Status Code 500"}
	for status := 100; status <= 599; status++ {
		for _, tmpl := range []string{"streamable", "legacy"} {
			for bi, body := range bodies {
				var err error
				if tmpl == "streamable" {
					if bi > 0 {
						continue
					}
					err = fmt.Errorf("%w: status code %d", mcp.ErrHTTPRequestFailed, status)
				} else {
					err = fmt.Errorf("%w: status code %d, body: %s", mcp.ErrHTTPRequestFailed, status, body)
				}
				n++
				got := mcp.VerifIsRetryable(err)
				want := c17WantRetryable(status)
				if got != want {
					cls := fmt.Sprintf("%dxx", status/100)
					if want {
						add(fmt.Sprintf("classify:%s-not-retried:%s", cls, tmpl), "status %d (%q) is classified non-transient, the property lists 408, 409, 429 and all 5xx as transient", status, err)
					} else if bi > 0 {
						add(fmt.Sprintf("classify:%s-retried-because-of-body", cls), "status %d with body %q is classified transient: %q", status, body, err)
					} else {
						add(fmt.Sprintf("classify:%s-retried:%s", cls, tmpl), "status %d is classified transient: %q", status, err)
					}
				}
			}
		}
	}
	type ne struct {
		text string
		want bool
	}
	for _, e := range []ne{
		{"dial tcp 10.0.0.1:80: connect: connection refused", true}, {"read tcp 1.2.3.4:5->6.7.8.9:80: read: connection reset by peer", true},
		{"dial tcp 10.0.0.1:80: i/o timeout", true}, {"context deadline exceeded", false},
		{"EOF", true}, {`Post "http://srv/mcp": EOF`, true}, {"context canceled", false}, {"x509: certificate signed by unknown authority", false},
		{"tool call error: bad (code: -32602)", false}, {"invalid character 'x' looking for beginning of value", false}, {"no such host", false}, {"response missing result field", false},
	} {
		n++
		if got := mcp.VerifIsRetryable(fmt.Errorf("%w: %v", mcp.ErrHTTPRequestFailed, errors.New(e.text))); got != e.want {
			add("classify:network:"+truncate(e.text, 30), "error %q classified transient=%v, expected %v", e.text, got, e.want)
		}
	}
	cr.Trans = n
	cr.ObsKey = fmt.Sprintf("classified %d", n)
	return cr
}

// ---- Execute ----------------------------------------------------------------------------

var c17Outcomes = []struct {
	name      string
	err       error
	transient bool
}{
	{"success", nil, false},
	{"400", fmt.Errorf("%w: status code 400", mcp.ErrHTTPRequestFailed), false},
	{"404", fmt.Errorf("%w: status code 404", mcp.ErrHTTPRequestFailed), false},
	{"408", fmt.Errorf("%w: status code 408", mcp.ErrHTTPRequestFailed), true},
	{"429", fmt.Errorf("%w: status code 429", mcp.ErrHTTPRequestFailed), true},
	{"503", fmt.Errorf("%w: status code 503", mcp.ErrHTTPRequestFailed), true},
	{"refused", errors.New("dial tcp: connect: connection refused"), true},
	{"eof", fmt.Errorf("%w: %v", mcp.ErrHTTPRequestFailed, io.EOF), true},
	{"other", errors.New("something else"), false},
}

type c17ExecCase struct {
	M      int
	Script []int
	Cfg    int
	Cancel int // -1 none; k>=0: cancel during wait k (0 = before first attempt)
}

var c17Cfgs = []mcp.VerifRetryConfig{
	{InitialBackoff: 100 * time.Millisecond, BackoffFactor: 2, MaxBackoff: 8 * time.Second},
	{InitialBackoff: time.Millisecond, BackoffFactor: 1, MaxBackoff: time.Millisecond},
	{InitialBackoff: 30 * time.Second, BackoffFactor: 10, MaxBackoff: 5 * time.Minute},
	{InitialBackoff: 500 * time.Millisecond, BackoffFactor: 1.5, MaxBackoff: time.Second},
	{InitialBackoff: 40 * time.Millisecond, BackoffFactor: 2.5, MaxBackoff: 5 * time.Minute},
	{InitialBackoff: 7 * time.Millisecond, BackoffFactor: 1.1, MaxBackoff: 9 * time.Millisecond},
}

func c17ExecCases(tier string) []c17ExecCase {
	var out []c17ExecCase
	maxM := 3
	alpha := len(c17Outcomes)
	for m := 0; m <= maxM; m++ {
		n := m + 2
		if tier != "thorough" && n > 4 {
			n = 4
		}
		var gen func(cur []int)
		gen = func(cur []int) {
			if len(cur) == n {
				for c := range c17Cfgs {
					if tier != "thorough" && c > 1 && len(cur) > 3 {
						continue
					}
					out = append(out, c17ExecCase{m, append([]int(nil), cur...), c, -1})
				}
				return
			}
			for o := 0; o < alpha; o++ {
				if tier != "thorough" && len(cur) >= 2 && o != 0 && o != 1 && o != 5 && o != 8 {
					continue
				}
				gen(append(cur, o))
			}
		}
		gen(nil)
	}
	// every configuration through the longest all-transient script (all waits of the sequence), in both tiers
	for m := 1; m <= 10; m++ {
		if tier != "thorough" && m > 4 && m != 10 {
			continue
		}
		for c := range c17Cfgs {
			out = append(out, c17ExecCase{m, []int{5, 6, 3, 4, 7, 5, 6, 3, 4, 7, 5, 5}, c, -1})
		}
	}
	// cancellation at every instant of an all-transient script
	for m := 1; m <= 3; m++ {
		for k := 0; k <= m; k++ {
			for c := range c17Cfgs {
				out = append(out, c17ExecCase{m, []int{5, 5, 5, 5, 5}, c, k})
			}
		}
	}
	return out
}

func c17ExecEval(tier string, i int) CaseResult {
	cs := c17ExecCases(tier)[i]
	cfg := c17Cfgs[cs.Cfg]
	cfg.MaxRetries = cs.M
	var names []string
	for _, o := range cs.Script {
		names = append(names, c17Outcomes[o].name)
	}
	cr := CaseResult{Desc: fmt.Sprintf("Execute maxRetries=%d cfg=%d script=%v cancel=%d", cs.M, cs.Cfg, names, cs.Cancel), Nontrivial: true}
	var viol []explore.Violation
	obs := &hx.Log{}
	res := vsched.Run(vsched.Config{}, func() {
		ctx, cancel := vcontext.WithCancel(context.Background())
		var times []time.Duration
		start := vsched.Now()
		attempt := 0
		op := func() error {
			times = append(times, vsched.Now().Sub(start))
			o := cs.Script[attempt%len(cs.Script)]
			attempt++
			return c17Outcomes[o].err
		}
		var err error
		done := &hx.Flag{}
		vsched.Go("execute", func() { err = mcp.VerifRetryExecute(ctx, op, &cfg, "op"); done.Set() })
		if cs.Cancel >= 0 {
			if cs.Cancel == 0 {
				cancel()
			} else {
				// let attempts up to Cancel run, then cancel while the loop is waiting
				for k := 0; k < cs.Cancel-0; k++ {
					vsched.Quiesce()
					if k < cs.Cancel-1 {
						vsched.FireEarliestTimer()
					}
				}
				cancel()
			}
			// "cancelling the caller's context ends the sequence at once": no timer may be needed for the return
			vsched.Quiesce()
			if !done.Get() {
				viol = append(viol, V("execute:cancel-not-prompt", "the context was cancelled during wait %d but Execute returned only after (virtual) time had passed (maxRetries=%d cfg=%d)", cs.Cancel, cs.M, cs.Cfg))
			}
		}
		vsched.Quiesce()
		for guard := 0; !done.Get() && guard < 50; guard++ {
			vsched.FireEarliestTimer()
			vsched.Quiesce()
		}
		if !done.Get() {
			viol = append(viol, V("execute:hangs", "Execute did not return"))
			return
		}
		// ---- reference loop
		wantAttempts := 0
		var wantWaits []time.Duration
		var wantErr error
		if cs.Cancel == 0 && cs.M > 0 {
			wantErr = context.Canceled
		} else {
			for a := 1; a <= cs.M+1; a++ {
				o := c17Outcomes[cs.Script[(a-1)%len(cs.Script)]]
				wantAttempts = a
				wantErr = o.err
				if o.err == nil || !o.transient || a == cs.M+1 {
					break
				}
				if cs.Cancel >= 1 && a == cs.Cancel {
					wantErr = context.Canceled
					break
				}
				mult := 1.0
				for k := 1; k < a; k++ {
					mult *= cfg.BackoffFactor
				}
				// min(initial*factor^(a-1), max) in real arithmetic (the product may exceed the range of time.Duration)
				w := cfg.MaxBackoff
				if f := float64(cfg.InitialBackoff) * mult; f <= float64(cfg.MaxBackoff) {
					w = time.Duration(f)
				}
				wantWaits = append(wantWaits, w)
			}
			if cs.M == 0 {
				wantAttempts = 1
			}
		}
		if cs.Cancel == 0 && cs.M == 0 {
			wantAttempts, wantErr = 1, c17Outcomes[cs.Script[0]].err
		}
		if attempt != wantAttempts {
			viol = append(viol, V("execute:attempts", "%d attempts, the rule prescribes %d (maxRetries=%d, script %v)", attempt, wantAttempts, cs.M, names))
		}
		if attempt > cs.M+1 {
			viol = append(viol, V("execute:too-many-attempts", "%d attempts with maxRetries=%d", attempt, cs.M))
		}
		if (err == nil) != (wantErr == nil) || (wantErr != nil && err != nil && !errors.Is(err, wantErr) && err.Error() != wantErr.Error()) {
			viol = append(viol, V("execute:result", "Execute returned %v, expected %v", err, wantErr))
		}
		if cs.Cancel < 0 {
			for k := 1; k < len(times) && k-1 < len(wantWaits); k++ {
				if got := times[k] - times[k-1]; got != wantWaits[k-1] {
					viol = append(viol, V("execute:backoff", "wait %d lasted %v, expected min(initial*factor^%d, max) = %v", k, got, k-1, wantWaits[k-1]))
				}
			}
		}
		obs.Add("attempts=%d err=%v", attempt, err != nil)
	})
	o := finishOutcome(res, obs, viol, true)
	cr.ObsKey = cr.Desc + o.ObsKey
	cr.Violations = o.Violations
	cr.Broken = o.Broken
	cr.Trans = len(cs.Script)
	return cr
}

// ---- end to end -------------------------------------------------------------------------

type c17E2ECase struct {
	Mode   string // sj | ls
	Retry  int    // -1 = no retry option
	Script []string
}

// "lost": the server reads and answers the request, but the keep-alive connection dies before the
// first byte of the answer reaches the client (memnet.LoseResponses: net/http itself re-sends a
// request it considers replayable, any other fails with EOF).
var c17Wire = []string{"ok", "rpc-error", "400", "401", "404", "408", "409", "429", "500", "503", "520", "refused", "reset", "eof", "lost"}

func c17E2ECases(tier string) []c17E2ECase {
	var out []c17E2ECase
	// the complete answer event arrives on the SSE stream, then the connection is reset: a success, never
	// re-attempted (a JSON body that ends in a reset is not known to be complete, so that is no case here)
	for _, mode := range []string{"ss"} {
		for _, retry := range []int{-1, 1, 2} {
			out = append(out, c17E2ECase{mode, retry, []string{"ok+reset", "ok"}})
			if retry > 0 {
				out = append(out, c17E2ECase{mode, retry, []string{"503", "ok+reset", "ok"}})
			}
		}
	}
	for _, mode := range []string{"sj", "ls"} {
		for _, a := range c17Wire {
			out = append(out, c17E2ECase{mode, -1, []string{a, "ok"}})
			for _, b := range c17Wire {
				out = append(out, c17E2ECase{mode, 1, []string{a, b, "ok"}})
				if tier == "thorough" || (b == "503" || b == "404") {
					out = append(out, c17E2ECase{mode, 2, []string{a, b, "503", "ok"}})
				}
			}
		}
	}
	return out
}

func c17Transient(o string) bool {
	switch o {
	case "408", "409", "429", "500", "503", "520", "refused", "reset", "eof", "lost":
		return true
	}
	return false
}

func c17E2EEval(tier string, i int) CaseResult {
	cs := c17E2ECases(tier)[i]
	cr := CaseResult{Desc: fmt.Sprintf("client=%s retries=%d server script=%v", cs.Mode, cs.Retry, cs.Script), Nontrivial: true}
	var viol []explore.Violation
	obs := &hx.Log{}
	k := func(s string) string { return fmt.Sprintf("%s:%s", s, cs.Mode) }
	res := vsched.Run(vsched.Config{}, func() {
		ss := newScriptedServer(cs.Mode)
		attempts := 0
		var times []time.Duration
		start := vsched.Now()
		next := func() string {
			o := cs.Script[len(cs.Script)-1]
			if attempts < len(cs.Script) {
				o = cs.Script[attempts]
			}
			attempts++
			times = append(times, vsched.Now().Sub(start))
			return o
		}
		ss.fab.LoseResponses(1000, func(req *http.Request) bool {
			if req.Method != http.MethodPost || req.GetBody == nil {
				return false
			}
			rc, _ := req.GetBody()
			b, _ := io.ReadAll(rc)
			pos := attempts
			if pos >= len(cs.Script) {
				pos = len(cs.Script) - 1
			}
			return strings.Contains(string(b), `"tools/call"`) && cs.Script[pos] == "lost"
		}, io.EOF)
		ss.fab.Intercept = func(req *http.Request, x *memnet.Exchange) (*http.Response, error, bool) {
			if req.Method != http.MethodPost || !strings.Contains(string(x.ReqBody), `"tools/call"`) {
				return nil, nil, false
			}
			switch o := next(); o {
			case "refused":
				return nil, errors.New("dial tcp 10.0.0.2:80: connect: connection refused"), true
			case "reset":
				return nil, errors.New("read tcp 10.0.0.1:5->10.0.0.2:80: read: connection reset by peer"), true
			case "eof":
				return nil, io.EOF, true
			case "ok", "rpc-error", "lost", "ok+reset":
				attempts-- // the handler below consumes this script position
				times = times[:len(times)-1]
				return nil, nil, false
			default:
				var st int
				fmt.Sscanf(o, "%d", &st)
				return memnet.StaticResponse(req, st, http.Header{"Content-Type": []string{"text/plain"}}, []byte("refused by script")), nil, true
			}
		}
		ss.onRequest = func(msg map[string]interface{}, rawMsg string, w scriptWriter) bool {
			method, _ := msg["method"].(string)
			id := rawID([]byte(rawMsg))
			if method != "tools/call" {
				return false
			}
			if cs.Mode == "ls" {
				w.HTTP(202, "", "")
				w = &httpAnswer{s: ss, w: ss.stream, started: true, sse: true}
			}
			switch o := next(); {
			case o == "ok+reset":
				// the complete answer, then the connection is reset instead of ending in an orderly way
				ans := fmt.Sprintf(`{"jsonrpc":"2.0","id":%s,"result":{"content":[{"type":"text","text":"fine"}]}}`, id)
				raw := ans + "\n"
				if cs.Mode == "ss" || cs.Mode == "ls" {
					raw = "id: evt-1\ndata: " + ans + "\n\n"
					if cs.Mode == "ls" {
						raw = "event: message\ndata: " + ans + "\n\n"
					}
				}
				w.WritePartial(raw, errors.New("read tcp 10.0.0.1:5->10.0.0.2:80: read: connection reset by peer"))
				return true
			case o == "rpc-error":
				w.Frame(fmt.Sprintf(`{"jsonrpc":"2.0","id":%s,"error":{"code":-32000,"message":"application error"}}`, id))
				return true
			}
			{
				w.Frame(fmt.Sprintf(`{"jsonrpc":"2.0","id":%s,"result":{"content":[{"type":"text","text":"fine"}]}}`, id))
			}
			return true
		}
		var opts []mcp.ClientOption
		if cs.Retry >= 0 {
			opts = append(opts, mcp.WithRetry(mcp.RetryConfig{MaxRetries: cs.Retry, InitialBackoff: 100 * time.Millisecond, BackoffFactor: 2, MaxBackoff: time.Second}))
		}
		cl, err := ss.connect(opts...)
		if err != nil {
			viol = append(viol, V("harness", "connect: %v", err))
			return
		}
		var out *mcp.CallToolResult
		var cerr error
		done := &hx.Flag{}
		vsched.Go("caller", func() {
			rq := &mcp.CallToolRequest{}
			rq.Params.Name = "t"
			out, cerr = cl.CallTool(context.Background(), rq)
			done.Set()
		})
		vsched.Quiesce()
		for guard := 0; !done.Get() && guard < 20; guard++ {
			vsched.FireEarliestTimer()
			vsched.Quiesce()
		}
		if !done.Get() {
			viol = append(viol, V(k("e2e:hangs"), "CallTool did not return; blocked %v", vsched.LiveThreads()))
			return
		}
		// reference
		max := 1
		if cs.Retry > 0 {
			max = cs.Retry + 1
		}
		want := 0
		final := ""
		for a := 0; a < max; a++ {
			want = a + 1
			final = cs.Script[a]
			if !c17Transient(final) {
				break
			}
		}
		if attempts != want {
			viol = append(viol, V(k(fmt.Sprintf("e2e:attempts:%s", strings.Join(cs.Script[:want], ","))), "the request was sent %d times, the rule prescribes %d (retries=%d, server script %v)", attempts, want, cs.Retry, cs.Script))
		}
		switch final {
		case "ok", "ok+reset":
			if cerr != nil || TextOf(out) != "fine" {
				viol = append(viol, V(k("e2e:result"), "expected the successful answer, got %q %v", TextOf(out), cerr))
			}
		default:
			if cerr == nil {
				viol = append(viol, V(k("e2e:error-lost"), "the last attempt ended with %s but CallTool returned a result %q", final, TextOf(out)))
			}
		}
		for j := 1; j < len(times); j++ {
			w := 100 * time.Millisecond << uint(j-1)
			if w > time.Second {
				w = time.Second
			}
			if got := times[j] - times[j-1]; got != w {
				viol = append(viol, V(k("e2e:backoff"), "wait %d between attempts lasted %v, expected %v", j, got, w))
			}
		}
		obs.Add("attempts=%d final=%s", attempts, final)
		cl.Close()
		ss.stop()
	})
	o := finishOutcome(res, obs, viol, true)
	cr.ObsKey = cr.Desc + o.ObsKey
	cr.Violations = o.Violations
	cr.Broken = o.Broken
	cr.Trans = len(cs.Script)
	return cr
}

func init() {
	RegisterEnum(&Enum{Name: "c17/options", Doc: "WithRetry(cfg) = clamp(cfg), WithSimpleRetry(n) = defaults with clamp(n), no option = no retry, on the boundary-value grid for both HTTP client constructors", Count: func(string) int { return 1 }, Eval: c17OptionsEval})
	RegisterEnum(&Enum{Name: "c17/validate", Doc: "Config.Validate on all 4-tuples of the boundary-value grid: ranges and idempotence", Count: func(string) int { return 1 }, Eval: c17ValidateEval})
	RegisterEnum(&Enum{Name: "c17/classify", Doc: "IsRetryableError on transport error texts x status 100..599 x bodies + network error texts", Count: func(string) int { return 1 }, Eval: c17ClassifyEval})
	RegisterEnum(&Enum{Name: "c17/execute", Doc: "retry.Execute on every outcome script up to length MaxRetries+2, four configurations, every cancellation instant, under a virtual clock; reference retry loop",
		Count: func(tier string) int { return len(c17ExecCases(tier)) }, Eval: c17ExecEval})
	RegisterEnum(&Enum{Name: "c17/e2e", Doc: "server outcome scripts through the Streamable and legacy SSE clients with and without a retry option: attempts counted at a scripted server",
		Count: func(tier string) int { return len(c17E2ECases(tier)) }, Eval: c17E2EEval})
	RegisterCheck("C17", func(c *Ctx) {
		c.Level = "model_checking"
		c.Rule = "exhaustive enumeration of configurations (boundary grid), classifier inputs (every status 100..599 in the error texts the transports really produce) and outcome scripts (length <= MaxRetries+2 over success/each status class/each network error) with every cancellation instant; each script is executed on the real retry loop under a virtual clock and compared step by step with a reference retry loop (attempt count, re-attempt condition, exact waits, result); end to end through the Streamable and legacy SSE clients against a scripted server"
		c.Assume = append(c.Assume, "virtual time: waits are measured exactly on the scheduler's clock", "stdio has no retry option (documented); its 'sent once' is covered by C01's handler-count oracle")
		c.Enumerate("c17/validate")
		c.Enumerate("c17/options")
		c.Enumerate("c17/classify")
		c.Enumerate("c17/execute")
		c.Enumerate("c17/e2e")
	})
	_ = hx.Nop{}
}
