package props

import (
	"fmt"
	"os"
	"regexp"
	"sort"
	"strings"

	"verif.local/engine/explore"
	"verif.local/engine/vsched"
)

// Race monitor: under -race every explored execution is judged by ThreadSanitizer using exactly
// the happens-before edges the program itself creates (scheduler hand-offs are invisible to it).
// Reports are read from the GORACE log after each execution and attributed to its choice list.

var (
	raceLogPath string
	raceOffset  int64
	raceSeen    = map[string]bool{}
	raceSkip    [][2]int64 // byte ranges of the log written while an execution was being torn down
	raceTDStart int64
)

func init() {
	if vsched.RaceEnabled {
		vsched.TeardownHook = func(begin bool) {
			path := raceLogFile()
			if path == "" {
				return
			}
			var size int64
			if st, err := os.Stat(path); err == nil {
				size = st.Size()
			}
			if begin {
				raceTDStart = size
			} else if size > raceTDStart {
				raceSkip = append(raceSkip, [2]int64{raceTDStart, size})
			}
		}
	}
}

// dropTeardown removes from buf (which starts at file offset off) the parts written during tear-down.
func dropTeardown(buf []byte, off int64) []byte {
	var out []byte
	pos := off
	for _, r := range raceSkip {
		if r[1] <= pos || r[0] >= off+int64(len(buf)) {
			continue
		}
		lo, hi := r[0], r[1]
		if lo < pos {
			lo = pos
		}
		if hi > off+int64(len(buf)) {
			hi = off + int64(len(buf))
		}
		out = append(out, buf[pos-off:lo-off]...)
		pos = hi
	}
	out = append(out, buf[pos-off:]...)
	raceSkip = raceSkip[:0]
	return out
}

func raceLogFile() string {
	if raceLogPath != "" {
		return raceLogPath
	}
	for _, f := range strings.Fields(os.Getenv("GORACE")) {
		if strings.HasPrefix(f, "log_path=") {
			raceLogPath = fmt.Sprintf("%s.%d", strings.TrimPrefix(f, "log_path="), os.Getpid())
		}
	}
	return raceLogPath
}

var frameRe = regexp.MustCompile(`^  (\S+)\(\)$`)
var posRe = regexp.MustCompile(`^      (\S+):(\d+) `)

type raceAccess struct {
	kind string
	fn   string
	pos  string
}

// parseRaceReports extracts, per report, the first library frame of each of the two accesses.
func parseRaceReports(text string) [][2]raceAccess {
	var out [][2]raceAccess
	for _, rep := range strings.Split(text, "==================") {
		if !strings.Contains(rep, "WARNING: DATA RACE") {
			continue
		}
		var acc []raceAccess
		lines := strings.Split(rep, "\n")
		for i := 0; i < len(lines); i++ {
			l := lines[i]
			isAcc := (strings.HasPrefix(l, "Read at") || strings.HasPrefix(l, "Write at") || strings.HasPrefix(l, "Previous read at") || strings.HasPrefix(l, "Previous write at") ||
				strings.HasPrefix(l, "Atomic") || strings.HasPrefix(l, "Previous atomic"))
			if !isAcc {
				continue
			}
			a := raceAccess{kind: strings.ToLower(strings.Fields(strings.TrimPrefix(l, "Previous "))[0])}
			for j := i + 1; j < len(lines) && strings.TrimSpace(lines[j]) != ""; j++ {
				m := frameRe.FindStringSubmatch(lines[j])
				if m == nil {
					continue
				}
				if strings.HasPrefix(m[1], "runtime.") || strings.HasPrefix(m[1], "sync/atomic.") {
					continue // map/slice/chan helpers: the accessing code is the caller
				}
				// the first non-runtime frame is the code that performs the access
				if strings.Contains(m[1], "trpc-mcp-go") {
					a.fn = strings.TrimPrefix(m[1], "trpc.group/trpc-go/trpc-mcp-go")
					a.fn = strings.TrimLeft(a.fn, "./")
					if j+1 < len(lines) {
						if pm := posRe.FindStringSubmatch(lines[j+1]); pm != nil {
							p := pm[1]
							if k := strings.LastIndex(p, "/"); k >= 0 {
								p = p[k+1:]
							}
							a.pos = p + ":" + pm[2]
						}
					}
				}
				break
			}
			acc = append(acc, a)
		}
		if len(acc) >= 2 {
			out = append(out, [2]raceAccess{acc[0], acc[1]})
		}
	}
	return out
}

// raceViolations returns the new library-vs-library race reports since the last call.
func raceViolations() []explore.Violation {
	if !vsched.RaceEnabled {
		return nil
	}
	path := raceLogFile()
	if path == "" {
		return nil
	}
	f, err := os.Open(path)
	if err != nil {
		return nil
	}
	defer f.Close()
	st, _ := f.Stat()
	if st.Size() <= raceOffset {
		return nil
	}
	buf := make([]byte, st.Size()-raceOffset)
	f.ReadAt(buf, raceOffset)
	buf = dropTeardown(buf, raceOffset)
	raceOffset = st.Size()
	var out []explore.Violation
	for _, r := range parseRaceReports(string(buf)) {
		if r[0].fn == "" || r[1].fn == "" {
			continue // at least one side is harness/engine code
		}
		fns := []string{r[0].fn, r[1].fn}
		sort.Strings(fns)
		key := "race:" + fns[0] + "|" + fns[1]
		if raceSeen[key] {
			continue
		}
		raceSeen[key] = true
		out = append(out, explore.Violation{Key: key, Msg: fmt.Sprintf("data race: %s in %s (%s) vs %s in %s (%s)", r[0].kind, r[0].fn, r[0].pos, r[1].kind, r[1].fn, r[1].pos)})
	}
	return out
}
