package props

import (
	"context"
	"encoding/json"
	"errors"
	"fmt"
	"io"
	"net/http"
	"strings"

	mcp "trpc.group/trpc-go/trpc-mcp-go"
	"verif.local/engine/explore"
	"verif.local/engine/vsched"
	"verif.local/harness/hx"
)

// C15 — middlewares wrap every request as an onion, each exactly once.

var c15Behaviours = []string{"pass", "modreq", "modres", "short", "fail", "failafter"} // failafter: calls the next stage, then returns its result together with an error
var c15Methods = []string{"tools/call", "tools/list", "prompts/get", "resources/read", "ping", "foo/unknown"}

type c15Mark struct{}

type c15Trace struct {
	byReq map[string][]string
}

func (t *c15Trace) add(id interface{}, s string) {
	k := fmt.Sprint(id)
	t.byReq[k] = append(t.byReq[k], s)
}

func c15MW(i int, beh string, tr *c15Trace, only string) mcp.Middleware {
	return func(next mcp.HandlerFunc) mcp.HandlerFunc {
		return func(ctx context.Context, req *mcp.JSONRPCRequest) (mcp.JSONRPCMessage, error) {
			sid := ""
			if s := mcp.ClientSessionFromContext(ctx); s != nil {
				sid = s.GetID()
			} else if s, ok := mcp.GetSessionFromContext(ctx); ok && s != nil {
				sid = s.GetID()
			}
			tr.add(req.ID, fmt.Sprintf("%d:before:%s", i, sid))
			beh := beh
			if only != "" && req.Method != only {
				beh = "pass"
			}
			if strings.HasPrefix(beh, "fail:") {
				// an error value that wraps one of the sentinels the library's own plumbing looks for
				return nil, fmt.Errorf("mw-fail-%d: %w", i, c15Sentinel(beh))
			}
			switch beh {
			case "short":
				return &mcp.CallToolResult{Content: []mcp.Content{mcp.NewTextContent(fmt.Sprintf("short%d", i))}}, nil
			case "fail":
				return nil, errors.New(fmt.Sprintf("mw-fail-%d", i))
			case "modreq":
				prev, _ := ctx.Value(c15Mark{}).(string)
				ctx = context.WithValue(ctx, c15Mark{}, prev+fmt.Sprint(i))
			}
			r, err := next(ctx, req)
			tr.add(req.ID, fmt.Sprintf("%d:after", i))
			if beh == "failafter" {
				return r, errors.New(fmt.Sprintf("mw-failafter-%d", i))
			}
			if strings.HasPrefix(beh, "failafter:") {
				return r, fmt.Errorf("mw-failafter-%d: %w", i, c15Sentinel(beh))
			}
			if beh == "modres" && err == nil {
				if mm, ok := r.(map[string]interface{}); ok {
					// a result that is a plain map (ping): this middleware marks it in place, as it may - the
					// result of a request belongs to that request
					mm[fmt.Sprintf("m%d", i)] = fmt.Sprintf("req-%v", req.ID)
					return mm, nil
				}
				if ctr, ok := r.(*mcp.CallToolResult); ok && ctr != nil {
					cp := *ctr
					cp.Content = append(append([]mcp.Content{}, ctr.Content...), mcp.NewTextContent(fmt.Sprintf("m%d", i)))
					return &cp, nil
				}
			}
			return r, err
		}
	}
}

func c15Sentinel(beh string) error {
	switch beh[strings.Index(beh, ":")+1:] {
	case "canceled":
		return context.Canceled
	case "deadline":
		return context.DeadlineExceeded
	case "eof":
		return io.EOF
	}
	return errors.New("other")
}

var c15ErrorValues = []string{"fail:canceled", "fail:deadline", "fail:eof", "failafter:canceled", "failafter:deadline"}

// c15Expect is the reference onion interpreter.
func c15Expect(chain0 []string, method, sid string) (trace []string, kind string, texts []string, handlerRuns bool) {
	chain := make([]string, len(chain0))
	for i, b := range chain0 {
		if j := strings.Index(b, ":"); j > 0 {
			b = b[:j] // what kind of error value a middleware fails with makes no difference
		}
		chain[i] = b
	}
	var run func(k int, mark string) (string, []string)
	run = func(k int, mark string) (string, []string) {
		if k == len(chain) {
			handlerRuns = true
			trace = append(trace, "H")
			if method == "tools/call" {
				return "ok", []string{"tool:" + mark}
			}
			return "native", nil
		}
		trace = append(trace, fmt.Sprintf("%d:before:%s", k, sid))
		switch chain[k] {
		case "short":
			return "ok", []string{fmt.Sprintf("short%d", k)}
		case "fail":
			return "err", []string{fmt.Sprintf("mw-fail-%d", k)}
		case "modreq":
			mark += fmt.Sprint(k)
		}
		kd, tx := run(k+1, mark)
		trace = append(trace, fmt.Sprintf("%d:after", k))
		if chain[k] == "failafter" {
			return "err", []string{fmt.Sprintf("mw-failafter-%d", k)}
		}
		if chain[k] == "modres" && kd == "ok" {
			tx = append(append([]string{}, tx...), fmt.Sprintf("m%d", k))
		}
		return kd, tx
	}
	kind, texts = run(0, "")
	return
}

type c15Case struct {
	Mode   string
	Form   string // single | repeated
	Chain  []string
	Method string
}

func c15Chains(maxLen int) [][]string {
	var out [][]string
	var gen func(cur []string)
	gen = func(cur []string) {
		out = append(out, append([]string(nil), cur...))
		if len(cur) == maxLen {
			return
		}
		for _, b := range c15Behaviours {
			gen(append(cur, b))
		}
	}
	gen(nil)
	return out
}

func c15Cases(tier string) []c15Case {
	maxLen := 3
	if tier == "thorough" {
		maxLen = 4
	}
	var out []c15Case
	for _, mode := range []string{"sj", "ss", "ls"} {
		for _, form := range []string{"single", "repeated"} {
			for _, ch := range c15Chains(maxLen) {
				if form == "repeated" && len(ch) < 2 {
					continue
				}
				for _, m := range c15Methods {
					if tier != "thorough" && len(ch) == 3 && m != "tools/call" && m != "tools/list" {
						continue
					}
					out = append(out, c15Case{mode, form, ch, m})
				}
			}
		}
		// middlewares that fail with error values wrapping context.Canceled, context.DeadlineExceeded, io.EOF
		for _, ev := range c15ErrorValues {
			for _, ch := range [][]string{{ev}, {"pass", ev}, {ev, "pass"}, {"modres", ev}} {
				for _, m := range []string{"tools/call", "tools/list"} {
					out = append(out, c15Case{mode, "single", ch, m})
				}
			}
		}
	}
	return out
}

func c15Rig(mode, form string, chain []string, tr *c15Trace, hlog *hx.Log, only string) *Rig {
	var mws []mcp.Middleware
	for i, b := range chain {
		mws = append(mws, c15MW(i, b, tr, only))
	}
	var opts []interface{}
	if mode == "ls" {
		if form == "single" {
			opts = append(opts, mcp.WithSSEMiddleware(mws...))
		} else {
			for _, m := range mws {
				opts = append(opts, mcp.WithSSEMiddleware(m))
			}
		}
	} else {
		if form == "single" {
			opts = append(opts, mcp.WithMiddleware(mws...))
		} else {
			for _, m := range mws {
				opts = append(opts, mcp.WithMiddleware(m))
			}
		}
	}
	r := NewRig(mode, opts...)
	r.RegisterTool(mcp.NewTool("t"), func(ctx context.Context, req *mcp.CallToolRequest) (*mcp.CallToolResult, error) {
		mark, _ := ctx.Value(c15Mark{}).(string)
		hlog.Add("tool")
		return mcp.NewTextResult("tool:" + mark), nil
	})
	r.RegisterPrompt(&mcp.Prompt{Name: "p"}, func(ctx context.Context, req *mcp.GetPromptRequest) (*mcp.GetPromptResult, error) {
		hlog.Add("prompt")
		return &mcp.GetPromptResult{Description: "native", Messages: []mcp.PromptMessage{}}, nil
	})
	r.RegisterResource(&mcp.Resource{Name: "r", URI: "res://r"}, func(ctx context.Context, req *mcp.ReadResourceRequest) (mcp.ResourceContents, error) {
		hlog.Add("resource")
		return mcp.TextResourceContents{URI: "res://r", Text: "native"}, nil
	})
	return r
}

func c15Params(method string) string {
	switch method {
	case "tools/call":
		return `{"name":"t"}`
	case "prompts/get":
		return `{"name":"p"}`
	case "resources/read":
		return `{"uri":"res://r"}`
	}
	return `{}`
}

// c15Judge compares one answer frame with the interpreter's prediction.
func c15Judge(key func(string) string, frame string, kind string, texts []string, method string) []explore.Violation {
	var m struct {
		Result json.RawMessage `json:"result"`
		Error  *struct {
			Code    int    `json:"code"`
			Message string `json:"message"`
		} `json:"error"`
	}
	if err := json.Unmarshal([]byte(frame), &m); err != nil {
		return []explore.Violation{V(key("bad-frame"), "unparsable answer %q", truncate(frame, 120))}
	}
	switch kind {
	case "err":
		if m.Error == nil || m.Error.Code != -32603 || !strings.Contains(m.Error.Message, texts[0]) {
			return []explore.Violation{V(key("error-mapping"), "a middleware error must reach the client as -32603 carrying %q; got %s", texts[0], truncate(frame, 160))}
		}
	case "ok":
		var res struct {
			Content []struct {
				Text string `json:"text"`
			} `json:"content"`
		}
		json.Unmarshal(m.Result, &res)
		var got []string
		for _, c := range res.Content {
			got = append(got, c.Text)
		}
		if m.Error != nil || strings.Join(got, "|") != strings.Join(texts, "|") {
			return []explore.Violation{V(key("result"), "client received %s, the onion prescribes content %v", truncate(frame, 160), texts)}
		}
	case "native":
		if method == "foo/unknown" {
			if m.Error == nil || m.Error.Code != -32601 {
				return []explore.Violation{V(key("result"), "unknown method through a passing chain must give -32601: %s", truncate(frame, 120))}
			}
		} else if m.Error != nil || len(m.Result) == 0 {
			return []explore.Violation{V(key("result"), "method %s through a passing chain failed: %s", method, truncate(frame, 120))}
		}
	}
	return nil
}

func c15Eval(tier string, i int) CaseResult {
	cs := c15Cases(tier)[i]
	cr := CaseResult{Desc: fmt.Sprintf("mode=%s form=%s chain=%v method=%s", cs.Mode, cs.Form, cs.Chain, cs.Method), Nontrivial: len(cs.Chain) > 0}
	var viol []explore.Violation
	obs := &hx.Log{}
	key := func(k string) string {
		return fmt.Sprintf("%s:%s:%s:%s", k, cs.Mode, cs.Form, strings.Join(cs.Chain, ","))
	}
	res := vsched.Run(vsched.Config{}, func() {
		tr := &c15Trace{byReq: map[string][]string{}}
		hlog := &hx.Log{}
		r := c15Rig(cs.Mode, cs.Form, cs.Chain, tr, hlog, "")
		rp := NewRawPeer(r)
		// the handshake itself goes through the chain: use a passing prelude only when the chain lets initialize through
		sid := ""
		if err := rp.Handshake(); err != nil {
			// chains that short-circuit or fail also intercept initialize; judge the request on a fresh session-less POST instead
			obs.Add("handshake-intercepted")
		}
		sid = rp.SID
		if cs.Mode == "ls" {
			sid = "sse-0001"
		}
		tr.byReq = map[string][]string{}
		hbefore := len(hlog.Items())
		// a notification must bypass the chain
		rp.PostOnly(`{"jsonrpc":"2.0","method":"notifications/roots/list_changed"}`)
		vsched.Quiesce()
		if n := len(tr.byReq); n != 0 {
			viol = append(viol, V(key("notification-through-chain"), "a notification passed through the middleware chain: %v", tr.byReq))
		}
		tr.byReq = map[string][]string{}
		f, err := rp.Call(fmt.Sprintf(`{"jsonrpc":"2.0","id":77,"method":%q,"params":%s}`, cs.Method, c15Params(cs.Method)), "77")
		vsched.Quiesce()
		wantTrace, kind, texts, hruns := c15Expect(cs.Chain, cs.Method, sid)
		if err != nil {
			viol = append(viol, V(key("no-answer"), "no answer: %v", err))
			return
		}
		var wt []string
		for _, t := range wantTrace {
			if t != "H" {
				wt = append(wt, t)
			}
		}
		got := tr.byReq["77"]
		if strings.Join(got, " ") != strings.Join(wt, " ") {
			viol = append(viol, V(key("trace"), "stages ran as [%s], the onion prescribes [%s]", strings.Join(got, " "), strings.Join(wt, " ")))
		}
		ran := len(hlog.Items()) - hbefore
		wantRuns := 0
		if hruns && (cs.Method == "tools/call" || cs.Method == "prompts/get" || cs.Method == "resources/read") {
			wantRuns = 1
		}
		if ran != wantRuns {
			viol = append(viol, V(key("handler-runs"), "the method handler ran %d times, expected %d", ran, wantRuns))
		}
		viol = append(viol, c15Judge(key, f, kind, texts, cs.Method)...)
		if cs.Method == "ping" && kind == "native" {
			// a second request of the same kind: its result carries the marks of its own passage only
			f2, err2 := rp.Call(`{"jsonrpc":"2.0","id":78,"method":"ping","params":{}}`, "78")
			vsched.Quiesce()
			if err2 != nil {
				viol = append(viol, V(key("no-answer"), "second ping: %v", err2))
			} else if strings.Contains(f2, "req-77") {
				viol = append(viol, V(key("result-shared-between-requests"), "the result of request 78 carries what a middleware added to the result of request 77: %s", truncate(f2, 200)))
			}
		}
		obs.Add("%s", kind)
	})
	o := finishOutcome(res, obs, viol, true)
	cr.ObsKey = cr.Desc + o.ObsKey
	cr.Violations = o.Violations
	cr.Broken = o.Broken
	return cr
}

func c15Concurrent(prefix []int, mode string, chain []string) explore.Outcome {
	var viol []explore.Violation
	obs := &hx.Log{}
	key := func(k string) string { return fmt.Sprintf("%s:%s:concurrent:%s", k, mode, strings.Join(chain, ",")) }
	res := vsched.Run(cfgFor(prefix), func() {
		vsched.SetBranching(false)
		tr := &c15Trace{byReq: map[string][]string{}}
		hlog := &hx.Log{}
		r := c15Rig(mode, "single", chain, tr, hlog, "tools/call")
		peers := []*RawPeer{NewRawPeer(r), NewRawPeer(r)}
		for i, p := range peers {
			if err := p.Handshake(); err != nil {
				// the middlewares of this rig only act on tools/call: a handshake they break is a finding, not a harness fault
				viol = append(viol, V(key(fmt.Sprintf("handshake-of-client-%d-fails", i+1)), "with the chain configured, the handshake of client %d fails: %v", i+1, err))
				return
			}
		}
		vsched.Quiesce()
		tr.byReq = map[string][]string{}
		vsched.SetBranching(true)
		frames := make([]string, 2)
		for i, p := range peers {
			i, p := i, p
			vsched.Go("client", func() {
				frames[i], _ = p.Call(fmt.Sprintf(`{"jsonrpc":"2.0","id":%d,"method":"tools/call","params":{"name":"t"}}`, 70+i), fmt.Sprint(70+i))
			})
		}
		vsched.Quiesce()
		for i, p := range peers {
			sid := p.SID
			if mode == "ls" {
				sid = fmt.Sprintf("sse-%04d", i+1)
			}
			wantTrace, kind, texts, _ := c15Expect(chain, "tools/call", sid)
			var wt []string
			for _, t := range wantTrace {
				if t != "H" {
					wt = append(wt, t)
				}
			}
			got := tr.byReq[fmt.Sprint(70+i)]
			if strings.Join(got, " ") != strings.Join(wt, " ") {
				viol = append(viol, V(key("trace"), "request %d: stages ran as [%s], the onion prescribes [%s]", 70+i, strings.Join(got, " "), strings.Join(wt, " ")))
			}
			viol = append(viol, c15Judge(key, frames[i], kind, texts, "tools/call")...)
		}
		obs.Add("ok")
	})
	return finishOutcome(res, obs, viol, true)
}

// c15OwnSession: "with the request's own context and session". Two pass-through middlewares; the
// outer one leaves the request's id on the session it finds in the context, the inner one, the tool
// handler and the outer one's after-stage read it back. Two clients issue one request each at the
// same time, then a third request follows. In stateless mode a request's session is its own
// throw-away one: nothing of another request may ever be found on it.
func c15OwnSession(prefix []int, mode string) explore.Outcome {
	var viol []explore.Violation
	obs := &hx.Log{}
	key := func(k string) string { return fmt.Sprintf("%s:%s:own-session", k, mode) }
	res := vsched.Run(cfgFor(prefix), func() {
		vsched.SetBranching(false)
		notes := &hx.Log{}
		rids := &hx.Log{}
		sessOf := func(ctx context.Context) mcp.Session {
			if s, ok := mcp.GetSessionFromContext(ctx); ok && s != nil {
				return s
			}
			return nil
		}
		read := func(ctx context.Context, stage string, id interface{}) {
			s := sessOf(ctx)
			if s == nil {
				notes.Add("%v %s nosession", id, stage)
				return
			}
			v, _ := s.GetData("c15-owner")
			notes.Add("%v %s sid=%s owner=%v", id, stage, s.GetID(), v)
			// the server is mounted behind an application wrapper that puts a per-request value into the
			// HTTP request's context: every stage sees the value of the request it is processing
			if rid, _ := ctx.Value(c15RidKey{}).(string); rid != fmt.Sprintf("rid-%v", id) {
				rids.Add("request %v, stage %s: the context carries %q", id, stage, rid)
			}
		}
		outer := func(next mcp.HandlerFunc) mcp.HandlerFunc {
			return func(ctx context.Context, req *mcp.JSONRPCRequest) (mcp.JSONRPCMessage, error) {
				if req.Method != "tools/call" {
					return next(ctx, req)
				}
				read(ctx, "found", req.ID)
				if s := sessOf(ctx); s != nil {
					s.SetData("c15-owner", fmt.Sprint(req.ID))
				}
				r, err := next(ctx, req)
				read(ctx, "outer-after", req.ID)
				return r, err
			}
		}
		inner := func(next mcp.HandlerFunc) mcp.HandlerFunc {
			return func(ctx context.Context, req *mcp.JSONRPCRequest) (mcp.JSONRPCMessage, error) {
				if req.Method == "tools/call" {
					read(ctx, "inner-before", req.ID)
				}
				return next(ctx, req)
			}
		}
		var opts []interface{}
		if mode == "ls" {
			opts = append(opts, mcp.WithSSEMiddleware(outer, inner))
		} else {
			opts = append(opts, mcp.WithMiddleware(outer, inner))
		}
		r := NewRig(mode, opts...)
		r.RegisterTool(mcp.NewTool("t", mcp.WithNumber("id")), func(ctx context.Context, req *mcp.CallToolRequest) (*mcp.CallToolResult, error) {
			id, _ := req.Params.Arguments["id"].(float64)
			read(ctx, "handler", int(id))
			return mcp.NewTextResult("ok"), nil
		})
		mounted := r.Fab.Hosts["srv"]
		r.Fab.Hosts["srv"] = http.HandlerFunc(func(w http.ResponseWriter, q *http.Request) {
			mounted.ServeHTTP(w, q.WithContext(context.WithValue(q.Context(), c15RidKey{}, q.Header.Get("X-Rid"))))
		})
		peers := []*RawPeer{NewRawPeer(r), NewRawPeer(r)}
		for i, p := range peers {
			p.P.Headers["X-Rid"] = fmt.Sprintf("rid-handshake-%d", i)
			if err := p.Handshake(); err != nil {
				viol = append(viol, V(key(fmt.Sprintf("handshake-of-client-%d-fails", i+1)), "with pass-through middlewares configured, the handshake of client %d fails: %v", i+1, err))
				return
			}
		}
		vsched.Quiesce()
		vsched.SetBranching(true)
		call := func(p *RawPeer, id int) {
			p.P.Headers["X-Rid"] = fmt.Sprintf("rid-%d", id)
			if _, err := p.Call(fmt.Sprintf(`{"jsonrpc":"2.0","id":%d,"method":"tools/call","params":{"name":"t","arguments":{"id":%d}}}`, id, id), fmt.Sprint(id)); err != nil {
				viol = append(viol, V(key("no-answer"), "request %d: %v", id, err))
			}
		}
		done := &hx.Counter{}
		for i, p := range peers {
			i, p := i, p
			vsched.Go("client", func() { call(p, 70+i); done.Inc() })
		}
		vsched.Quiesce()
		if done.Get() == 2 {
			call(peers[0], 80)
		}
		// judge
		stateless := mode == "sl" || mode == "slj"
		sidOf := map[string]string{}
		for _, n := range notes.Items() {
			var id, stage, rest string
			parts := strings.SplitN(n, " ", 3)
			id, stage = parts[0], parts[1]
			if len(parts) > 2 {
				rest = parts[2]
			}
			if rest == "nosession" {
				if mode != "sd" {
					viol = append(viol, V(key("no-session"), "request %s, stage %s: no session in the context", id, stage))
				}
				continue
			}
			var sid, owner string
			fmt.Sscanf(rest, "sid=%s owner=%s", &sid, &owner)
			if prev, ok := sidOf[id]; ok && prev != sid {
				viol = append(viol, V(key("session-changes-within-request"), "request %s saw session %s and then %s", id, prev, sid))
			}
			sidOf[id] = sid
			switch stage {
			case "found":
				if stateless && owner != "<nil>" {
					viol = append(viol, V(key("foreign-data-on-fresh-session"), "stateless mode: request %s found the data of request %s on its session", id, owner))
				}
			default:
				if owner != id {
					viol = append(viol, V(key("session-data-of-another-request"), "request %s left its id on its session; at stage %s it reads back %q", id, stage, owner))
				}
			}
		}
		if mode != "sd" {
			if a, b := sidOf["70"], sidOf["71"]; a != "" && a == b {
				viol = append(viol, V(key("two-clients-one-session"), "the requests of two clients were given the same session %s", a))
			}
			if stateless && sidOf["80"] != "" && (sidOf["80"] == sidOf["70"] || sidOf["80"] == sidOf["71"]) {
				viol = append(viol, V(key("stateless-session-reused"), "stateless mode: a later request was given the session %s of an earlier one", sidOf["80"]))
			}
		}
		for _, x := range rids.Items() {
			viol = append(viol, V(key("foreign-request-context"), "%s (the HTTP request that carried it had X-Rid of its own)", x))
			break
		}
		obs.Add("%d notes", len(notes.Items()))
	})
	return finishOutcome(res, obs, viol, true)
}

type c15RidKey struct{}

var c15OwnModes = []string{"sl", "slj", "ss", "sj", "sd", "ls"}

var c15ConcChains = [][]string{{"pass", "modres"}, {"modreq", "modres"}, {"modreq", "modreq"}, {"pass", "fail"}, {"modres", "short"}, {"failafter", "modres"}}

func init() {
	RegisterEnum(&Enum{Name: "c15/chains", Doc: "all middleware chains up to length 3 (4 thorough) over {pass, modify-request, modify-result, short-circuit, fail} x methods x option form x transport; reference onion interpreter",
		Count: func(tier string) int { return len(c15Cases(tier)) }, Eval: c15Eval})
	for _, mode := range []string{"ss", "ls"} {
		for _, ch := range c15ConcChains {
			mode, ch := mode, ch
			RegisterScenario(&Scenario{Name: fmt.Sprintf("c15/concurrent/%s/%s", mode, strings.Join(ch, "+")), Doc: "two clients call the tool concurrently through the chain " + strings.Join(ch, ","),
				Run: func(p []int, m []vsched.ChoicePoint) explore.Outcome { return c15Concurrent(p, mode, ch) }})
		}
	}
	for _, mode := range c15OwnModes {
		mode := mode
		RegisterScenario(&Scenario{Name: "c15/own-session/" + mode, Doc: "two clients, one request each at the same time, then a third: what a middleware leaves on the session of its request is what the inner stages, the handler and its own after-stage read back; in stateless mode no request ever finds another's data or session",
			Run: func(p []int, m []vsched.ChoicePoint) explore.Outcome { return c15OwnSession(p, mode) }})
	}
	RegisterCheck("C15", func(c *Ctx) {
		c.Level = "exploration"
		c.Rule = "complete enumeration of chains x methods x option forms x transports, each executed end to end and compared with a reference onion interpreter (stage trace with the request's own session, handler run count, what the client receives; notifications bypass); DFS over schedules of two concurrent requests through length-2 chains, and of two concurrent requests whose outer middleware marks the request's session and whose inner stages read the mark back (stateful, stateless, sessions disabled, legacy SSE)"
		c.Assume = append(c.Assume, "a short-circuiting or failing chain also intercepts initialize: the judged request is then sent without a completed handshake", "memnet replaces net/http")
		c.Enumerate("c15/chains")
		for _, mode := range c15OwnModes {
			c.DFSBoth("c15/own-session/"+mode, explore.Bounds{Preempt: c.Pick(2, 3), Dev: 1, MaxExec: c.Pick(3000, 100000)}, 1)
		}
		for _, mode := range []string{"ss", "ls"} {
			for _, ch := range c15ConcChains {
				c.DFSBoth(fmt.Sprintf("c15/concurrent/%s/%s", mode, strings.Join(ch, "+")), explore.Bounds{Preempt: c.Pick(2, 3), Dev: 1, MaxExec: c.Pick(3000, 100000)}, 1)
			}
		}
	})
}
