package props

import (
	"encoding"
	"encoding/json"
	"fmt"
	"math"
	"math/big"
	"net"
	"reflect"
	"sort"
	"strings"
	"time"
	"unicode"
	"unsafe"

	xa "verif.local/harness/props/c18a/x"
	xb "verif.local/harness/props/c18b/x"
)

// ---------------------------------------------------------------------------------------------
// C18: type grammar, fully populated values, and a reference model of encoding/json field naming
// (validated against encoding/json itself on every case, see c18VerifyModel).
// ---------------------------------------------------------------------------------------------

// C18Inner is the named struct used for embedding and repeated-occurrence cases.
type C18Inner struct {
	A string `json:"a"`
	B int    `json:"b,omitempty"`
}

// C18Inner2 shares the JSON name "a" with C18Inner (conflict when both are embedded).
type C18Inner2 struct {
	A string `json:"a"`
	C bool   `json:"c"`
}

type c18unexported struct {
	U string `json:"u"`
	V int
}

// ---- compiled corpus (recursive and otherwise not constructible with reflect.StructOf) ----

type C18Node struct {
	Val  int      `json:"val"`
	Next *C18Node `json:"next,omitempty"`
}
type C18Tree struct {
	Name     string    `json:"name"`
	Children []C18Tree `json:"children"`
}
type C18MapRec struct {
	M map[string]C18MapRec `json:"m"`
	N int                  `json:"n"`
}
type C18A struct {
	B  *C18B  `json:"b,omitempty"`
	As []C18A `json:"as,omitempty"`
}
type C18B struct {
	A    *C18A           `json:"a,omitempty"`
	Bs   map[string]C18B `json:"bs,omitempty"`
	Leaf string          `json:"leaf"`
}
type C18HardPtr struct {
	V    int         `json:"v"`
	Next *C18HardPtr `json:"next"`
}
type C18Wide struct {
	P *C18Wide `json:"p,omitempty"`
	Q *C18Wide `json:"q,omitempty"`
	R *C18Wide `json:"r,omitempty"`
	S []string `json:"s"`
}
type C18G[T any] struct {
	V  T   `json:"v"`
	Vs []T `json:"vs"`
}
type C18SameName struct {
	P xa.T  `json:"p"`
	Q xb.T  `json:"q"`
	R *xa.T `json:"r,omitempty"`
}
type C18EmbUnexp struct {
	c18unexported
	X int `json:"x"`
}
type C18EmbPtr struct {
	*C18Inner
	X int `json:"x"`
}
type C18EmbRec struct {
	C18Inner
	Kids []C18EmbRec `json:"kids,omitempty"`
}
type C18EmbDeep struct {
	C18EmbPtr
	Y string `json:"y"`
}
type C18Slash struct {
	First  C18Inner   `json:"a/b"`
	Second *C18Inner  `json:"c~d,omitempty"`
	Third  C18Inner   `json:"e f"`
	Fourth []C18Inner `json:"g%41"`
}
type C18Deep struct {
	L1 struct {
		L2 struct {
			L3 struct {
				L4 struct {
					L5 struct {
						L6 struct {
							L7 struct {
								L8 string `json:"l8"`
							} `json:"l7"`
						} `json:"l6"`
					} `json:"l5"`
				} `json:"l4"`
			} `json:"l3"`
		} `json:"l2"`
	} `json:"l1"`
}
type C18Times struct {
	At     time.Time       `json:"at"`
	AtP    *time.Time      `json:"atp,omitempty"`
	Dur    time.Duration   `json:"dur"`
	IP     net.IP          `json:"ip"`
	Blob   []byte          `json:"blob"`
	Blobs  [][]byte        `json:"blobs"`
	Raw    json.RawMessage `json:"raw"`
	Any    interface{}     `json:"any"`
	Num    json.Number     `json:"num"`
	Quoted int64           `json:"quoted,string"`
}

// members held through a pointer whose type marshals itself with pointer-receiver methods
type C18PText struct{ S string }

func (p *C18PText) MarshalText() ([]byte, error) { return []byte("pt:" + p.S), nil }
func (p *C18PText) UnmarshalText(b []byte) error {
	p.S = strings.TrimPrefix(string(b), "pt:")
	return nil
}

type C18PJSON struct{ N int }

func (p *C18PJSON) MarshalJSON() ([]byte, error) { return []byte(fmt.Sprintf("[%d]", p.N)), nil }
func (p *C18PJSON) UnmarshalJSON(b []byte) error {
	_, err := fmt.Sscanf(string(b), "[%d]", &p.N)
	return err
}

type C18PtrMarshalers struct {
	Big   *big.Int             `json:"big"`
	Bigs  []*big.Int           `json:"bigs"`
	BigM  map[string]*big.Int  `json:"bigm"`
	Float *big.Float           `json:"float,omitempty"`
	Text  *C18PText            `json:"text"`
	Texts []*C18PText          `json:"texts"`
	JSON  *C18PJSON            `json:"json"`
	JSONs map[string]*C18PJSON `json:"jsons"`
	ByVal big.Int              `json:"byval"`
	Plain string               `json:"plain"`
}

type c18Corpus struct {
	name      string
	t         reflect.Type
	recursive bool
}

func c18CorpusTypes() []c18Corpus {
	return []c18Corpus{
		{"Node(self via omitempty pointer)", reflect.TypeOf(C18Node{}), true},
		{"Tree(self via slice)", reflect.TypeOf(C18Tree{}), true},
		{"MapRec(self via map)", reflect.TypeOf(C18MapRec{}), true},
		{"A<->B(mutual)", reflect.TypeOf(C18A{}), true},
		{"B<->A(mutual)", reflect.TypeOf(C18B{}), true},
		{"HardPtr(self via mandatory pointer)", reflect.TypeOf(C18HardPtr{}), true},
		{"Wide(three self references)", reflect.TypeOf(C18Wide{}), true},
		{"G[int]", reflect.TypeOf(C18G[int]{}), false},
		{"G[G[string]]", reflect.TypeOf(C18G[C18G[string]]{}), false},
		{"G[Inner]", reflect.TypeOf(C18G[C18Inner]{}), false},
		{"SameName(x.T from two packages)", reflect.TypeOf(C18SameName{}), false},
		{"EmbUnexp(unexported embedded struct)", reflect.TypeOf(C18EmbUnexp{}), false},
		{"EmbPtr(embedded pointer)", reflect.TypeOf(C18EmbPtr{}), false},
		{"EmbRec(embedded + recursive)", reflect.TypeOf(C18EmbRec{}), true},
		{"EmbDeep(two levels of embedding)", reflect.TypeOf(C18EmbDeep{}), false},
		{"Slash(names needing pointer escapes)", reflect.TypeOf(C18Slash{}), false},
		{"Deep(8 levels, not recursive)", reflect.TypeOf(C18Deep{}), false},
		{"Times(standard-library types)", reflect.TypeOf(C18Times{}), false},
		{"PtrMarshalers(pointer-receiver MarshalJSON / MarshalText behind pointers)", reflect.TypeOf(C18PtrMarshalers{}), false},
	}
}

// ---- grammar ----

type c18Leaf struct {
	name string
	t    reflect.Type
}

var c18Leaves = []c18Leaf{
	{"string", reflect.TypeOf("")},
	{"int", reflect.TypeOf(int(0))},
	{"int64", reflect.TypeOf(int64(0))},
	{"uint8", reflect.TypeOf(uint8(0))},
	{"uint64", reflect.TypeOf(uint64(0))},
	{"float64", reflect.TypeOf(float64(0))},
	{"float32", reflect.TypeOf(float32(0))},
	{"bool", reflect.TypeOf(false)},
	{"bytes", reflect.TypeOf([]byte(nil))},
	{"time", reflect.TypeOf(time.Time{})},
	{"any", reflect.TypeOf((*interface{})(nil)).Elem()},
	{"rawmsg", reflect.TypeOf(json.RawMessage(nil))},
	{"jsonnumber", reflect.TypeOf(json.Number(""))},
	{"duration", reflect.TypeOf(time.Duration(0))},
	{"netip", reflect.TypeOf(net.IP(nil))},
	{"inner", reflect.TypeOf(C18Inner{})},
}

var c18Ctors = []string{"ptr", "slice", "array2", "mapstr", "mapint", "struct1"}

func c18Apply(ctor string, t reflect.Type) reflect.Type {
	switch ctor {
	case "ptr":
		return reflect.PtrTo(t)
	case "slice":
		return reflect.SliceOf(t)
	case "array2":
		return reflect.ArrayOf(2, t)
	case "mapstr":
		return reflect.MapOf(reflect.TypeOf(""), t)
	case "mapint":
		return reflect.MapOf(reflect.TypeOf(int(0)), t)
	case "struct1":
		return reflect.StructOf([]reflect.StructField{{Name: "X", Type: t, Tag: `json:"x"`}})
	}
	panic(ctor)
}

type c18Type struct {
	name string // e.g. slice(ptr(time))
	leaf string
	t    reflect.Type
}

// c18Types returns every type of constructor depth <= depth over the leaves.
func c18Types(depth int) []c18Type {
	var out []c18Type
	level := []c18Type{}
	for _, l := range c18Leaves {
		level = append(level, c18Type{l.name, l.name, l.t})
	}
	out = append(out, level...)
	for d := 1; d <= depth; d++ {
		var next []c18Type
		for _, base := range level {
			for _, c := range c18Ctors {
				next = append(next, c18Type{c + "(" + base.name + ")", base.leaf, c18Apply(c, base.t)})
			}
		}
		out = append(out, next...)
		level = next
	}
	return out
}

type c18Tag struct {
	name  string
	tag   func(leaf string) string // the struct tag for a field of that leaf kind ("" = no tag)
	only0 bool                     // only instance variant 0 satisfies the user's own constraints
}

var c18Tags = []c18Tag{
	{"none", func(string) string { return "" }, false},
	{"named", func(string) string { return `json:"f"` }, false},
	{"omitempty", func(string) string { return `json:"f,omitempty"` }, false},
	{"omitempty-unnamed", func(string) string { return `json:",omitempty"` }, false},
	{"string-opt", func(string) string { return `json:"f,string"` }, false},
	{"string-opt-omitempty", func(string) string { return `json:"f,string,omitempty"` }, false},
	{"omitempty-string-opt", func(string) string { return `json:"f,omitempty,string"` }, false},
	{"unnamed-string-opt", func(string) string { return `json:",string"` }, false},
	{"dash", func(string) string { return `json:"-"` }, false},
	{"dash-comma", func(string) string { return `json:"-,"` }, false},
	{"name-slash", func(string) string { return `json:"a/b"` }, false},
	{"name-tilde", func(string) string { return `json:"a~b,omitempty"` }, false},
	{"name-space", func(string) string { return `json:"a b"` }, false},
	{"name-percent", func(string) string { return `json:"a%41"` }, false},
	{"name-dollar-ref", func(string) string { return `json:"$ref"` }, false},
	{"name-properties", func(string) string { return `json:"properties"` }, false},
	{"name-unicode", func(string) string { return `json:"é"` }, false},
	// member names that mean something in the JSON-RPC envelope the schema travels in
	{"name-error", func(string) string { return `json:"error"` }, false},
	{"name-result", func(string) string { return `json:"result,omitempty"` }, false},
	{"name-jsonrpc", func(string) string { return `json:"jsonrpc"` }, false},
	{"name-method", func(string) string { return `json:"method"` }, false},
	{"name-id", func(string) string { return `json:"id"` }, false},
	{"name-params", func(string) string { return `json:"params"` }, false},
	{"schema-required-desc", func(string) string { return `json:"f" jsonschema:"required,description=a, b and c"` }, false},
	{"schema-desc-semicolon", func(string) string { return `json:"f,omitempty" jsonschema:"description=d;title=t"` }, false},
	{"schema-constraints", func(leaf string) string {
		switch leaf {
		case "string":
			return `json:"f" jsonschema:"enum=s,enum=t,minLength=1,maxLength=10"`
		case "int", "int64", "uint8", "uint64", "duration":
			return `json:"f" jsonschema:"enum=7,enum=8,minimum=1,maximum=100,default=7"`
		case "float64", "float32":
			return `json:"f" jsonschema:"minimum=1,maximum=2,default=1.5"`
		case "bool":
			return `json:"f" jsonschema:"default=true"`
		}
		return `json:"f" jsonschema:"title=t"`
	}, true},
}

// ---- fully populated values ----

type c18Pop struct {
	variant  int
	depth    map[reflect.Type]int
	maxDepth int
	cut      bool // a mandatory (non-omitempty) pointer had to stay nil: no finite fully populated value
	n        int
}

var c18Time = time.Date(2024, 2, 29, 23, 59, 58, 123456789, time.FixedZone("x", 3600))

func structUnder(t reflect.Type) reflect.Type {
	for t.Kind() == reflect.Ptr || t.Kind() == reflect.Slice || t.Kind() == reflect.Array || t.Kind() == reflect.Map {
		t = t.Elem()
	}
	if t.Kind() == reflect.Struct {
		return t
	}
	return nil
}

func (p *c18Pop) exhausted(t reflect.Type) bool {
	for t.Kind() == reflect.Ptr {
		t = t.Elem()
	}
	return t.Kind() == reflect.Struct && p.depth[t] >= p.maxDepth
}

func (p *c18Pop) fill(v reflect.Value, omitempty bool) {
	t := v.Type()
	p.n++
	switch {
	case t == reflect.TypeOf(time.Time{}):
		v.Set(reflect.ValueOf(c18Time.Add(time.Duration(p.variant) * time.Hour)))
		return
	case t == reflect.TypeOf(json.RawMessage(nil)):
		v.Set(reflect.ValueOf(json.RawMessage([]string{`{"k":[1,"two",null]}`, `3`, `"raw"`}[p.variant%3])))
		return
	case t == reflect.TypeOf(json.Number("")):
		v.Set(reflect.ValueOf(json.Number([]string{"12", "-0.5", "9007199254740992"}[p.variant%3])))
		return
	case t == reflect.TypeOf(big.Int{}):
		v.Set(reflect.ValueOf(*new(big.Int).SetInt64([]int64{7, -123456789012, 0}[p.variant%3])))
		return
	case t == reflect.TypeOf(big.Float{}):
		v.Set(reflect.ValueOf(*big.NewFloat([]float64{1.5, -2.25, 0}[p.variant%3])))
		return
	case t == reflect.TypeOf(net.IP(nil)):
		v.Set(reflect.ValueOf(net.ParseIP([]string{"10.1.2.3", "::1", "255.255.255.255"}[p.variant%3])))
		return
	}
	switch t.Kind() {
	case reflect.String:
		v.SetString([]string{"s", "", "é \"<&>\\ \U0001F600"}[p.variant%3])
	case reflect.Int, reflect.Int64:
		v.SetInt([]int64{7, -(1 << 53), 1 << 53}[p.variant%3])
	case reflect.Int8, reflect.Int16, reflect.Int32:
		v.SetInt([]int64{7, -128, 127}[p.variant%3])
	case reflect.Uint8:
		v.SetUint([]uint64{7, 0, 255}[p.variant%3])
	case reflect.Uint, reflect.Uint16, reflect.Uint32, reflect.Uint64:
		v.SetUint([]uint64{7, 0, 1 << 53}[p.variant%3])
	case reflect.Float64:
		v.SetFloat([]float64{1.5, -1e300, 5e-324}[p.variant%3])
	case reflect.Float32:
		v.SetFloat([]float64{1.5, -0.25, math.MaxFloat32}[p.variant%3])
	case reflect.Bool:
		v.SetBool(p.variant%3 != 1)
	case reflect.Interface:
		vals := []interface{}{"text", map[string]interface{}{"k": []interface{}{1.0, nil, true}}, 3.5, []interface{}{"x"}, true}
		v.Set(reflect.ValueOf(vals[(p.variant+p.n)%len(vals)]))
	case reflect.Ptr:
		if p.exhausted(t) {
			if !omitempty {
				p.cut = true
			}
			return
		}
		nv := reflect.New(t.Elem())
		p.fill(nv.Elem(), false)
		v.Set(nv)
	case reflect.Slice:
		if t.Elem().Kind() == reflect.Uint8 {
			v.SetBytes([][]byte{[]byte("hi"), {}, {0, 255, 10}}[p.variant%3])
			return
		}
		if p.exhausted(t.Elem()) {
			v.Set(reflect.MakeSlice(t, 0, 0))
			return
		}
		s := reflect.MakeSlice(t, 2, 2)
		for i := 0; i < 2; i++ {
			p.fill(s.Index(i), false)
		}
		v.Set(s)
	case reflect.Array:
		for i := 0; i < v.Len(); i++ {
			p.fill(v.Index(i), false)
		}
	case reflect.Map:
		m := reflect.MakeMap(t)
		if !p.exhausted(t.Elem()) {
			for i := 0; i < 2; i++ {
				k := reflect.New(t.Key()).Elem()
				switch t.Key().Kind() {
				case reflect.String:
					k.SetString([]string{"k1", "k 2/~"}[i])
				default:
					k.SetInt(int64(i + 1))
				}
				e := reflect.New(t.Elem()).Elem()
				p.fill(e, false)
				m.SetMapIndex(k, e)
			}
		}
		v.Set(m)
	case reflect.Struct:
		p.depth[t]++
		for i := 0; i < t.NumField(); i++ {
			f := t.Field(i)
			if !f.IsExported() {
				// an embedded unexported struct: encoding/json still promotes its exported fields
				if f.Anonymous && f.Type.Kind() == reflect.Struct {
					p.fill(reflect.NewAt(f.Type, unsafe.Pointer(v.Field(i).UnsafeAddr())).Elem(), false)
				}
				continue
			}
			_, opts := c18ParseTag(f.Tag.Get("json"))
			p.fill(v.Field(i), strings.Contains(","+opts+",", ",omitempty,"))
		}
		p.depth[t]--
	}
}

// c18Populate returns (pointer to) a fully populated value of t and whether that was possible.
func c18Populate(t reflect.Type, variant int) (reflect.Value, bool) {
	p := &c18Pop{variant: variant, depth: map[reflect.Type]int{}, maxDepth: 2}
	v := reflect.New(t)
	p.fill(v.Elem(), false)
	return v, !p.cut
}

// ---- reference model of encoding/json's field naming ----

func c18ParseTag(tag string) (string, string) {
	if i := strings.Index(tag, ","); i >= 0 {
		return tag[:i], tag[i+1:]
	}
	return tag, ""
}

func c18ValidTagName(s string) bool {
	if s == "" {
		return false
	}
	for _, c := range s {
		switch {
		case strings.ContainsRune("!#$%&()*+-./:;<=>?@[]^_{|}~ ", c):
		case !unicode.IsLetter(c) && !unicode.IsDigit(c):
			return false
		}
	}
	return true
}

type c18Field struct {
	name   string
	typ    reflect.Type
	quoted bool
	tagged bool
	depth  int
	order  int
}

var (
	marshalerT     = reflect.TypeOf((*json.Marshaler)(nil)).Elem()
	textMarshalerT = reflect.TypeOf((*encoding.TextMarshaler)(nil)).Elem()
)

// c18JSONFields is the reference model: the (name, type) pairs encoding/json uses for struct t.
func c18JSONFields(t reflect.Type) []c18Field {
	type item struct {
		t     reflect.Type
		depth int
	}
	current := []item{}
	next := []item{{t, 0}}
	visited := map[reflect.Type]bool{}
	var fields []c18Field
	order := 0
	for len(next) > 0 {
		current, next = next, nil
		count := map[reflect.Type]int{}
		nextCount := map[reflect.Type]int{}
		for _, it := range current {
			count[it.t]++
		}
		for _, it := range current {
			if visited[it.t] {
				continue
			}
			visited[it.t] = true
			for i := 0; i < it.t.NumField(); i++ {
				sf := it.t.Field(i)
				if sf.Anonymous {
					ft := sf.Type
					if ft.Kind() == reflect.Ptr {
						ft = ft.Elem()
					}
					if !sf.IsExported() && ft.Kind() != reflect.Struct {
						continue
					}
				} else if !sf.IsExported() {
					continue
				}
				tag := sf.Tag.Get("json")
				if tag == "-" {
					continue
				}
				name, opts := c18ParseTag(tag)
				if !c18ValidTagName(name) {
					name = ""
				}
				ft := sf.Type
				if ft.Name() == "" && ft.Kind() == reflect.Ptr {
					ft = ft.Elem()
				}
				quoted := false
				if strings.Contains(","+opts+",", ",string,") {
					switch ft.Kind() {
					case reflect.Bool, reflect.Int, reflect.Int8, reflect.Int16, reflect.Int32, reflect.Int64,
						reflect.Uint, reflect.Uint8, reflect.Uint16, reflect.Uint32, reflect.Uint64, reflect.Uintptr,
						reflect.Float32, reflect.Float64, reflect.String:
						quoted = true
					}
				}
				if name != "" || !sf.Anonymous || ft.Kind() != reflect.Struct {
					tagged := name != ""
					if name == "" {
						name = sf.Name
					}
					f := c18Field{name: name, typ: sf.Type, quoted: quoted, tagged: tagged, depth: it.depth, order: order}
					order++
					fields = append(fields, f)
					if count[it.t] > 1 {
						fields = append(fields, f) // a duplicate annihilates itself
					}
					continue
				}
				nextCount[ft]++
				if nextCount[ft] == 1 {
					next = append(next, item{ft, it.depth + 1})
				} else {
					next = append(next, item{ft, it.depth + 1})
				}
			}
		}
	}
	sort.SliceStable(fields, func(i, j int) bool {
		a, b := fields[i], fields[j]
		if a.name != b.name {
			return a.name < b.name
		}
		if a.depth != b.depth {
			return a.depth < b.depth
		}
		if a.tagged != b.tagged {
			return a.tagged
		}
		return a.order < b.order
	})
	var out []c18Field
	for i := 0; i < len(fields); {
		j := i
		for j < len(fields) && fields[j].name == fields[i].name {
			j++
		}
		if j-i == 1 {
			out = append(out, fields[i])
		} else {
			g := fields[i:j]
			if !(g[1].depth == g[0].depth && g[1].tagged == g[0].tagged) {
				out = append(out, g[0])
			}
		}
		i = j
	}
	sort.Slice(out, func(i, j int) bool { return out[i].order < out[j].order })
	return out
}

// c18Shape is the expected structure handed to the oracle.
type c18Shape struct {
	K string         `json:"k"`
	F map[string]int `json:"f,omitempty"`
	E int            `json:"e"`
}

type c18Shaper struct {
	shapes []c18Shape
	memo   map[reflect.Type]int
}

func c18IsLeaf(t reflect.Type) bool {
	if t.Implements(marshalerT) || t.Implements(textMarshalerT) {
		return true
	}
	if t.Kind() != reflect.Ptr && t.Kind() != reflect.Interface {
		pt := reflect.PtrTo(t)
		if pt.Implements(marshalerT) || pt.Implements(textMarshalerT) {
			return true
		}
	}
	return false
}

func (s *c18Shaper) of(t reflect.Type, quoted bool) int {
	for t.Kind() == reflect.Ptr && !c18IsLeaf(t) {
		t = t.Elem()
	}
	add := func(sh c18Shape) int { s.shapes = append(s.shapes, sh); return len(s.shapes) - 1 }
	if quoted || c18IsLeaf(t) {
		return add(c18Shape{K: "leaf"})
	}
	switch t.Kind() {
	case reflect.Interface:
		return add(c18Shape{K: "any"})
	case reflect.Slice:
		if t.Elem().Kind() == reflect.Uint8 && !c18IsLeaf(t.Elem()) {
			return add(c18Shape{K: "leaf"})
		}
		id := add(c18Shape{K: "array"})
		s.shapes[id].E = s.of(t.Elem(), false)
		return id
	case reflect.Array:
		id := add(c18Shape{K: "array"})
		s.shapes[id].E = s.of(t.Elem(), false)
		return id
	case reflect.Map:
		id := add(c18Shape{K: "map"})
		s.shapes[id].E = s.of(t.Elem(), false)
		return id
	case reflect.Struct:
		if id, ok := s.memo[t]; ok {
			return id
		}
		id := add(c18Shape{K: "struct", F: map[string]int{}})
		s.memo[t] = id
		for _, f := range c18JSONFields(t) {
			s.shapes[id].F[f.name] = s.of(f.typ, f.quoted)
		}
		return id
	}
	return add(c18Shape{K: "leaf"})
}

func c18ShapeOf(t reflect.Type) ([]c18Shape, int) {
	s := &c18Shaper{memo: map[reflect.Type]int{}}
	root := s.of(t, false)
	return s.shapes, root
}

// c18VerifyModel compares the reference naming model with what encoding/json really emitted:
// every struct position of the instance must carry a subset of the model's names (exactly the
// model's names when strict, i.e. for a variant in which omitempty drops nothing).
func c18VerifyModel(shapes []c18Shape, id int, inst interface{}, strict bool, where string) error {
	sh := shapes[id]
	switch sh.K {
	case "struct":
		if inst == nil {
			return nil
		}
		m, ok := inst.(map[string]interface{})
		if !ok {
			return fmt.Errorf("model says struct at %s, encoding/json produced %T", where, inst)
		}
		for k, v := range m {
			c, ok := sh.F[k]
			if !ok {
				return fmt.Errorf("encoding/json emits %q at %s, the model does not know it (model: %v)", k, where, keysOf(sh.F))
			}
			if err := c18VerifyModel(shapes, c, v, strict, where+"/"+k); err != nil {
				return err
			}
		}
		if strict {
			for k := range sh.F {
				if _, ok := m[k]; !ok {
					return fmt.Errorf("model expects %q at %s, encoding/json did not emit it (emitted: %v)", k, where, keysOfAny(m))
				}
			}
		}
	case "array":
		if inst == nil {
			return nil
		}
		a, ok := inst.([]interface{})
		if !ok {
			return fmt.Errorf("model says array at %s, encoding/json produced %T", where, inst)
		}
		for i, v := range a {
			if err := c18VerifyModel(shapes, sh.E, v, strict, fmt.Sprintf("%s/%d", where, i)); err != nil {
				return err
			}
		}
	case "map":
		if inst == nil {
			return nil
		}
		m, ok := inst.(map[string]interface{})
		if !ok {
			return fmt.Errorf("model says map at %s, encoding/json produced %T", where, inst)
		}
		for k, v := range m {
			if err := c18VerifyModel(shapes, sh.E, v, strict, where+"/"+k); err != nil {
				return err
			}
		}
	}
	return nil
}

func keysOf(m map[string]int) []string {
	var out []string
	for k := range m {
		out = append(out, k)
	}
	sort.Strings(out)
	return out
}

func keysOfAny(m map[string]interface{}) []string {
	var out []string
	for k := range m {
		out = append(out, k)
	}
	sort.Strings(out)
	return out
}
