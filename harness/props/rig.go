package props

import (
	"context"
	"fmt"
	"net/http"
	"time"

	mcp "trpc.group/trpc-go/trpc-mcp-go"
	"verif.local/engine/memnet"
	"verif.local/engine/vsched"
	"verif.local/harness/hx"
)

// Modes: sj Streamable+JSON answers, ss Streamable+POST-SSE, sl Streamable stateless (SSE answers),
// slj stateless with JSON answers, sd Streamable with sessions disabled, ls legacy SSE, io stdio.
var AllModes = []string{"sj", "ss", "sl", "sd", "ls", "io"}

// Rig is one server of a given kind/mode inside the in-memory environment.
type Rig struct {
	Mode   string
	Server *mcp.Server
	SSE    *mcp.SSEServer
	Stdio  *mcp.StdioServer
	Fab    *memnet.Fabric
	C2S    *memnet.Pipe
	S2C    *memnet.Pipe
	URL    string
	sseSeq int
	cancel context.CancelFunc
	// ChildExited triggers the stdio client's process-watcher effect (set by NewClient for io).
	ChildExited func()
}

type seqIDs struct{ r *Rig }

func (g seqIDs) GenerateSessionID(r *http.Request) string {
	g.r.sseSeq++
	return fmt.Sprintf("sse-%04d", g.r.sseSeq)
}

// NewRig builds a server. Extra options are appended for the matching server kind.
func NewRig(mode string, opts ...interface{}) *Rig {
	r := &Rig{Mode: mode}
	switch mode {
	case "sj", "ss", "sl", "slj", "sd":
		so := []mcp.ServerOption{mcp.WithServerLogger(hx.Nop{})}
		switch mode {
		case "sj":
			so = append(so, mcp.WithPostSSEEnabled(false))
		case "sl":
			so = append(so, mcp.WithStatelessMode(true))
		case "slj":
			so = append(so, mcp.WithStatelessMode(true), mcp.WithPostSSEEnabled(false))
		case "sd":
			so = append(so, mcp.WithoutSession())
		}
		for _, o := range opts {
			if x, ok := o.(mcp.ServerOption); ok {
				so = append(so, x)
			}
		}
		r.Server = mcp.NewServer("verif-server", "1.2.3", so...)
		r.Fab = memnet.NewFabric("srv", r.Server.Handler())
		r.URL = "http://srv/mcp"
	case "ls":
		so := []mcp.SSEOption{mcp.WithSSEServerLogger(hx.Nop{}), mcp.WithSSESessionIDGenerator(seqIDs{r})}
		for _, o := range opts {
			if x, ok := o.(mcp.SSEOption); ok {
				so = append(so, x)
			}
		}
		r.SSE = mcp.NewSSEServer("verif-server", "1.2.3", so...)
		r.Fab = memnet.NewFabric("srv", r.SSE)
		r.URL = "http://srv/sse"
	case "io":
		so := []mcp.StdioServerOption{mcp.WithStdioServerLogger(hx.Nop{})}
		for _, o := range opts {
			if x, ok := o.(mcp.StdioServerOption); ok {
				so = append(so, x)
			}
		}
		r.Stdio = mcp.NewStdioServer("verif-server", "1.2.3", so...)
		r.C2S = memnet.NewPipe(0)
		r.S2C = memnet.NewPipe(0)
	default:
		panic("unknown mode " + mode)
	}
	if r.Fab != nil {
		hx.InstallFabric(r.Fab)
	}
	return r
}

type ToolFn = func(ctx context.Context, req *mcp.CallToolRequest) (*mcp.CallToolResult, error)
type PromptFn = func(ctx context.Context, req *mcp.GetPromptRequest) (*mcp.GetPromptResult, error)
type ResourceFn = func(ctx context.Context, req *mcp.ReadResourceRequest) (mcp.ResourceContents, error)
type ResourcesFn = func(ctx context.Context, req *mcp.ReadResourceRequest) ([]mcp.ResourceContents, error)

func (r *Rig) RegisterTool(t *mcp.Tool, h ToolFn) {
	switch {
	case r.Server != nil:
		r.Server.RegisterTool(t, h)
	case r.SSE != nil:
		r.SSE.RegisterTool(t, h)
	default:
		r.Stdio.RegisterTool(t, h)
	}
}

func (r *Rig) UnregisterTools(names ...string) error {
	switch {
	case r.Server != nil:
		return r.Server.UnregisterTools(names...)
	case r.SSE != nil:
		return r.SSE.UnregisterTools(names...)
	default:
		return r.Stdio.UnregisterTools(names...)
	}
}

func (r *Rig) RegisterPrompt(p *mcp.Prompt, h PromptFn) {
	switch {
	case r.Server != nil:
		r.Server.RegisterPrompt(p, h)
	case r.SSE != nil:
		r.SSE.RegisterPrompt(p, h)
	default:
		r.Stdio.RegisterPrompt(p, h)
	}
}

func (r *Rig) RegisterResource(p *mcp.Resource, h ResourceFn) {
	switch {
	case r.Server != nil:
		r.Server.RegisterResource(p, h)
	case r.SSE != nil:
		r.SSE.RegisterResource(p, h)
	default:
		r.Stdio.RegisterResource(p, h)
	}
}

func (r *Rig) RegisterResources(p *mcp.Resource, h ResourcesFn) {
	switch {
	case r.Server != nil:
		r.Server.RegisterResources(p, h)
	case r.SSE != nil:
		r.SSE.RegisterResources(p, h)
	default:
		r.Stdio.RegisterResources(p, h)
	}
}

// Start launches what has to run in the background (the stdio server loop).
func (r *Rig) Start() {
	if r.Stdio != nil {
		ctx, cancel := context.WithCancel(context.Background())
		r.cancel = cancel
		srv := r.Stdio
		in, out := memnet.REnd{P: r.C2S}, memnet.WEnd{P: r.S2C}
		vsched.Go("stdio-server", func() {
			mcp.VerifServeStdio(ctx, srv, in, out)
			out.Close()
		})
	}
}

// Client is what all three library clients have in common.
type Client interface {
	mcp.Connector
}

// NewClient creates the library client matching the rig (not yet initialized).
func (r *Rig) NewClient(opts ...mcp.ClientOption) (Client, error) {
	info := mcp.Implementation{Name: "verif-client", Version: "0.0.1"}
	switch r.Mode {
	case "ls":
		o := append([]mcp.ClientOption{mcp.WithClientLogger(hx.Nop{})}, opts...)
		return mcp.NewSSEClient(r.URL, info, o...)
	case "io":
		c, exited, err := mcp.VerifNewStdioClientOverPipes(memnet.WEnd{P: r.C2S}, memnet.REnd{P: r.S2C}, nil, 30*time.Second, info, mcp.WithStdioLogger(hx.Nop{}))
		r.ChildExited = exited
		return c, err
	default:
		o := append([]mcp.ClientOption{mcp.WithClientLogger(hx.Nop{})}, opts...)
		return mcp.NewClient(r.URL, info, o...)
	}
}

// Connect creates a client and performs the handshake.
func (r *Rig) Connect(opts ...mcp.ClientOption) (Client, error) {
	c, err := r.NewClient(opts...)
	if err != nil {
		return nil, err
	}
	_, err = c.Initialize(context.Background(), &mcp.InitializeRequest{})
	if err != nil {
		return c, err
	}
	return c, nil
}

// EchoTool registers tool "echo" that returns "echo:<nonce>" and counts invocations per nonce.
func (r *Rig) EchoTool(calls *hx.Log) {
	r.RegisterTool(mcp.NewTool("echo", mcp.WithDescription("echo"), mcp.WithString("nonce")), func(ctx context.Context, req *mcp.CallToolRequest) (*mcp.CallToolResult, error) {
		n, _ := req.Params.Arguments["nonce"].(string)
		calls.Add("%s", n)
		return mcp.NewTextResult("echo:" + n), nil
	})
}

// TextOf returns the text of the single text item of a tool result ("" if the shape differs).
func TextOf(res *mcp.CallToolResult) string {
	if res == nil || len(res.Content) != 1 {
		return ""
	}
	switch t := res.Content[0].(type) {
	case mcp.TextContent:
		return t.Text
	case *mcp.TextContent:
		return t.Text
	}
	return ""
}
