package props

import (
	"context"
	"encoding/json"
	"fmt"
	"sort"
	"strings"
	"sync"

	mcp "trpc.group/trpc-go/trpc-mcp-go"
	"verif.local/engine/explore"
	"verif.local/engine/vsched"
	"verif.local/harness/hx"
)

// C14 — all transports answer alike.

var c14Shared = map[string]bool{"initialize": true, "ping": true, "tools/list": true, "tools/call": true, "prompts/list": true, "prompts/get": true, "resources/list": true, "resources/read": true}

type c14Req struct {
	Label string
	Msgs  []string
	IDs   []string
	Reg   string // none | tool | all | typed
}

var (
	c14Once  sync.Once
	c14Cache map[string][]c14Req
)

type c14In struct {
	A int    `json:"a" jsonschema:"required"`
	B string `json:"b,omitempty"`
}
type c14Out struct {
	Sum  int    `json:"sum"`
	Text string `json:"text"`
}

func c14Register(r *Rig, reg string) {
	switch reg {
	case "none":
	case "tool":
		r.RegisterTool(mcp.NewTool("t", mcp.WithDescription("d"), mcp.WithString("mode")), func(ctx context.Context, req *mcp.CallToolRequest) (*mcp.CallToolResult, error) {
			return mcp.NewTextResult("only-tool"), nil
		})
	case "typed":
		tool := mcp.NewTool("t", mcp.WithInputStruct[c14In](), mcp.WithOutputStruct[c14Out]())
		r.RegisterTool(tool, mcp.NewTypedToolHandler(func(ctx context.Context, req *mcp.CallToolRequest, in c14In) (c14Out, error) {
			return c14Out{Sum: in.A + 1, Text: in.B}, nil
		}))
	default:
		c03NoDefaultPrompt = true
		c03Register(r)
		c03NoDefaultPrompt = false
		// a registration history, the same on every server kind: two more tools, then one call that
		// unregisters an unknown name, an empty name and one of the two
		for _, n := range []string{"zz-alpha", "zz-beta"} {
			n := n
			r.RegisterTool(mcp.NewTool(n), func(ctx context.Context, req *mcp.CallToolRequest) (*mcp.CallToolResult, error) {
				return mcp.NewTextResult(n), nil
			})
		}
		r.UnregisterTools("zz-ghost", "", "zz-alpha")
	}
}

func c14Reqs(tier string) []c14Req {
	c14Once.Do(func() { c14Cache = map[string][]c14Req{} })
	if v, ok := c14Cache[tier]; ok {
		return v
	}
	var singles []c03Case
	for _, c := range c03Cases(tier) {
		if c.Mode != "sj" || c.Kind != "rpc" || c.ReqID == "" || c.IDOpt {
			continue
		}
		var m struct {
			Method string `json:"method"`
		}
		if json.Unmarshal([]byte(c.Msg), &m) != nil || !c14Shared[m.Method] {
			continue
		}
		if strings.Contains(c.Label, "default rendering") || strings.Contains(c.Label, "duplicate") {
			continue
		}
		singles = append(singles, c)
	}
	var out []c14Req
	for _, c := range singles {
		out = append(out, c14Req{Label: c.Label, Msgs: []string{c.Msg}, IDs: []string{c.ReqID}, Reg: "all"})
	}
	// other registrations: valid requests of every shared method
	for _, reg := range []string{"none", "tool", "typed"} {
		for _, c := range singles {
			if !strings.HasPrefix(c.Label, "valid ") && !strings.Contains(c.Label, "handler=") {
				continue
			}
			out = append(out, c14Req{Label: reg + ": " + c.Label, Msgs: []string{c.Msg}, IDs: []string{c.ReqID}, Reg: reg})
		}
		out = append(out, c14Req{Label: reg + ": typed call", Msgs: []string{`{"jsonrpc":"2.0","id":7,"method":"tools/call","params":{"name":"t","arguments":{"a":41,"b":"x"}}}`}, IDs: []string{"7"}, Reg: reg})
		out = append(out, c14Req{Label: reg + ": typed call wrong type", Msgs: []string{`{"jsonrpc":"2.0","id":7,"method":"tools/call","params":{"name":"t","arguments":{"a":"notanumber"}}}`}, IDs: []string{"7"}, Reg: reg})
	}
	// argument values that come back in the answer, from the string classes a transport may mangle on its own
	// (printf verbs, line breaks, SSE field names, U+2028, a 64 KiB+1 value)
	for _, v := range []string{`100% %d %s %v %!(x) %%`, `a\nb\r\nc`, `data: x\nid: 7\nevent: e`, `a\u2028b\u2029c`, `\u0000\u001f`, `é😀`, strings.Repeat("z", 65537)} {
		lbl := v
		if len(lbl) > 24 {
			lbl = lbl[:24] + "…"
		}
		out = append(out, c14Req{Label: "echo mode=" + lbl, Msgs: []string{`{"jsonrpc":"2.0","id":7,"method":"tools/call","params":{"name":"t","arguments":{"mode":"` + v + `"}}}`}, IDs: []string{"7"}, Reg: "all"})
		out = append(out, c14Req{Label: "prompt x=" + lbl, Msgs: []string{`{"jsonrpc":"2.0","id":7,"method":"prompts/get","params":{"name":"p","arguments":{"x":"` + v + `"}}}`}, IDs: []string{"7"}, Reg: "all"})
		out = append(out, c14Req{Label: "unknown tool name=" + lbl, Msgs: []string{`{"jsonrpc":"2.0","id":7,"method":"tools/call","params":{"name":"` + v + `"}}`}, IDs: []string{"7"}, Reg: "all"})
	}
	// sequences of two requests (the second answer must not depend on the transport either)
	step := 9
	if tier == "thorough" {
		step = 3
	}
	for i := 0; i < len(singles); i += step {
		for j := 1; j < len(singles); j += step * 2 {
			a, b := singles[i], singles[j]
			mb := strings.Replace(b.Msg, `"id":7`, `"id":8`, 1)
			mb = strings.Replace(mb, `"id":"req-7"`, `"id":"req-8"`, 1)
			idb := b.ReqID
			switch idb {
			case "7":
				idb = "8"
			case `"req-7"`:
				idb = `"req-8"`
			}
			out = append(out, c14Req{Label: a.Label + " ; " + b.Label, Msgs: []string{a.Msg, mb}, IDs: []string{a.ReqID, idb}, Reg: "all"})
		}
	}
	c14Cache[tier] = out
	return out
}

// c14Normal: result JSON with list items sorted by name/uri, or the error code.
func c14Normal(frame string) string {
	var m struct {
		Result json.RawMessage `json:"result"`
		Error  *struct {
			Code int `json:"code"`
		} `json:"error"`
	}
	if err := json.Unmarshal([]byte(frame), &m); err != nil {
		return "!unparsable:" + truncate(frame, 60)
	}
	if m.Error != nil {
		return fmt.Sprintf("error %d", m.Error.Code)
	}
	if len(m.Result) == 0 {
		return "!no-result:" + truncate(frame, 60)
	}
	v, err := hx.Decode(m.Result)
	if err != nil {
		return "!bad-result"
	}
	if obj, ok := v.(map[string]interface{}); ok {
		for _, k := range []string{"tools", "prompts", "resources"} {
			if arr, ok := obj[k].([]interface{}); ok {
				sort.Slice(arr, func(i, j int) bool { return hx.CanonOf(arr[i]) < hx.CanonOf(arr[j]) })
			}
		}
	}
	return "result " + hx.CanonOf(v)
}

func c14Eval(tier string, i int) CaseResult {
	rq := c14Reqs(tier)[i]
	cr := CaseResult{Desc: fmt.Sprintf("reg=%s %s :: %s", rq.Reg, rq.Label, truncate(strings.Join(rq.Msgs, " ; "), 160)), Nontrivial: true}
	answers := map[string][]string{}
	var broken string
	var viol []explore.Violation
	for _, mode := range AllModes {
		var nf []string
		res := vsched.Run(vsched.Config{}, func() {
			r := NewRig(mode)
			c14Register(r, rq.Reg)
			r.Start()
			rp := NewRawPeer(r)
			if err := rp.Handshake(); err != nil {
				nf = append(nf, "!handshake:"+err.Error())
				return
			}
			for k, msg := range rq.Msgs {
				f, err := rp.Call(msg, rq.IDs[k])
				if err != nil {
					st := 0
					if rp.Last != nil {
						st = rp.Last.Status
					}
					nf = append(nf, fmt.Sprintf("!no-answer(status %d)", st))
					continue
				}
				nf = append(nf, c14Normal(f))
			}
		})
		o := finishOutcome(res, &hx.Log{}, nil, true)
		viol = append(viol, o.Violations...)
		if o.Broken != "" {
			broken = o.Broken
		}
		answers[mode] = nf
	}
	ref := answers["sj"]
	for _, mode := range AllModes[1:] {
		for k := range rq.Msgs {
			a, b := "", ""
			if k < len(ref) {
				a = ref[k]
			}
			if k < len(answers[mode]) {
				b = answers[mode][k]
			}
			if a != b {
				viol = append(viol, V(fmt.Sprintf("diverge:sj-vs-%s:%s", mode, truncate(rq.Label, 70)), "request %d %s: Streamable/JSON answers [%s] but %s answers [%s]", k+1, truncate(rq.Msgs[k], 100), truncate(a, 160), mode, truncate(b, 160)))
			}
		}
	}
	cr.ObsKey = cr.Desc + "|" + strings.Join(ref, "|")
	cr.Violations = viol
	cr.Broken = broken
	return cr
}

// ---- clients alike ------------------------------------------------------------------

type c14Body struct {
	Label  string
	Op     string // tool | prompt | resource | listtools | listprompts | listresources
	Result string // raw JSON of the result member (or of the error member when Err)
	Err    bool
}

func c14Bodies() []c14Body {
	return []c14Body{
		{"tool text", "tool", `{"content":[{"type":"text","text":"hi"}]}`, false},
		// sizes and characters at which a line- or token-oriented reader of one of the clients may give up or mangle
		{"tool text 65537", "tool", `{"content":[{"type":"text","text":"` + strings.Repeat("z", 65537) + `"}]}`, false},
		{"tool text 1MiB+1", "tool", `{"content":[{"type":"text","text":"` + strings.Repeat("z", 1<<20+1) + `"}]}`, false},
		{"tool text percent", "tool", `{"content":[{"type":"text","text":"100% %d %s"}]}`, false},
		{"tool text escapes", "tool", `{"content":[{"type":"text","text":"a\nb\r\nc\u2028d data: x"}]}`, false},
		{"resource text 65537", "resource", `{"contents":[{"uri":"u","text":"` + strings.Repeat("r", 65537) + `"}]}`, false},
		{"prompt text 65537", "prompt", `{"messages":[{"role":"user","content":{"type":"text","text":"` + strings.Repeat("p", 65537) + `"}}]}`, false},
		{"tool error 65537", "tool", `{"code":-32000,"message":"` + strings.Repeat("e", 65537) + `"}`, true},
		{"tool empty content", "tool", `{"content":[]}`, false},
		{"tool no content member", "tool", `{}`, false},
		{"tool content null", "tool", `{"content":null}`, false},
		{"tool unknown content type", "tool", `{"content":[{"type":"video","url":"x"}]}`, false},
		{"tool content item not object", "tool", `{"content":["x"]}`, false},
		{"tool isError", "tool", `{"content":[{"type":"text","text":"bad"}],"isError":true}`, false},
		{"tool structured", "tool", `{"content":[{"type":"text","text":"x"}],"structuredContent":{"a":[1,2]}}`, false},
		{"tool image", "tool", `{"content":[{"type":"image","data":"AA==","mimeType":"image/png"}]}`, false},
		{"tool audio", "tool", `{"content":[{"type":"audio","data":"AA==","mimeType":"audio/wav"}]}`, false},
		{"tool resource", "tool", `{"content":[{"type":"resource","resource":{"uri":"u","text":"t"}}]}`, false},
		{"tool extra members", "tool", `{"content":[{"type":"text","text":"x","extra":1}],"more":true}`, false},
		{"tool result is array", "tool", `[1,2]`, false},
		{"tool result is string", "tool", `"str"`, false},
		{"tool error", "tool", `{"code":-32000,"message":"nope"}`, true},
		{"tool error with data", "tool", `{"code":-32603,"message":"boom","data":{"k":1}}`, true},
		{"tool error malformed", "tool", `{"message":"no code"}`, true},
		{"prompt ok", "prompt", `{"description":"d","messages":[{"role":"user","content":{"type":"text","text":"x"}}]}`, false},
		{"prompt no messages", "prompt", `{"description":"d"}`, false},
		{"prompt bad role", "prompt", `{"messages":[{"role":"robot","content":{"type":"text","text":"x"}}]}`, false},
		{"prompt content array", "prompt", `{"messages":[{"role":"user","content":[{"type":"text","text":"x"}]}]}`, false},
		{"prompt error", "prompt", `{"code":-32602,"message":"bad"}`, true},
		{"resource text", "resource", `{"contents":[{"uri":"u","text":"t"}]}`, false},
		{"resource blob", "resource", `{"contents":[{"uri":"u","blob":"AA=="}]}`, false},
		{"resource none", "resource", `{"contents":[]}`, false},
		{"resource missing", "resource", `{}`, false},
		{"resource item no uri", "resource", `{"contents":[{"text":"t"}]}`, false},
		{"list tools", "listtools", `{"tools":[{"name":"a","inputSchema":{"type":"object"}},{"name":"b","description":"d","inputSchema":{"type":"object","properties":{"x":{"type":"string"}}}}]}`, false},
		{"list tools missing schema", "listtools", `{"tools":[{"name":"a"}]}`, false},
		{"list tools not array", "listtools", `{"tools":{}}`, false},
		{"list tools cursor", "listtools", `{"tools":[],"nextCursor":"c"}`, false},
		{"list prompts", "listprompts", `{"prompts":[{"name":"p","arguments":[{"name":"a","required":true}]}]}`, false},
		{"list resources", "listresources", `{"resources":[{"name":"r","uri":"u","size":3}]}`, false},
		// results that are not objects: null (what a handler returning (nil, nil) makes some servers send), other JSON types
		{"prompt result null", "prompt", `null`, false},
		{"resource result null", "resource", `null`, false},
		{"tool result null", "tool", `null`, false},
		{"list tools result null", "listtools", `null`, false},
		{"list prompts result null", "listprompts", `null`, false},
		{"list resources result null", "listresources", `null`, false},
		{"prompt result empty object", "prompt", `{}`, false},
		{"prompt result array", "prompt", `[]`, false},
		{"prompt result string", "prompt", `"s"`, false},
		{"prompt result false", "prompt", `false`, false},
		{"prompt result zero", "prompt", `0`, false},
		{"tool error null", "tool", `null`, true},
	}
}

func c14ClientEval(tier string, i int) CaseResult {
	b := c14Bodies()[i]
	cr := CaseResult{Desc: "clients: " + b.Label + " :: " + truncate(b.Result, 160), Nontrivial: true}
	outs := map[string]string{}
	var viol []explore.Violation
	for _, mode := range []string{"sj", "ss", "ls", "io"} {
		var got string
		res := vsched.Run(vsched.Config{}, func() {
			ss := newScriptedServer(mode)
			ss.onRequest = func(msg map[string]interface{}, rawMsg string, w scriptWriter) bool {
				method, _ := msg["method"].(string)
				id := rawID([]byte(rawMsg))
				if method == "initialize" || id == "" {
					return false
				}
				if mode == "ls" {
					w.HTTP(202, "", "")
					w = &httpAnswer{s: ss, w: ss.stream, started: true, sse: true}
				}
				member := "result"
				if b.Err {
					member = "error"
				}
				w.Frame(fmt.Sprintf(`{"jsonrpc":"2.0","id":%s,%q:%s}`, id, member, b.Result))
				return true
			}
			cl, err := ss.connect()
			if err != nil {
				got = "!connect:" + err.Error()
				return
			}
			done := &hx.Flag{}
			vsched.Go("caller", func() {
				defer done.Set()
				ctx := context.Background()
				var v interface{}
				var err error
				switch b.Op {
				case "tool":
					rq := &mcp.CallToolRequest{}
					rq.Params.Name = "t"
					v, err = cl.CallTool(ctx, rq)
				case "prompt":
					rq := &mcp.GetPromptRequest{}
					rq.Params.Name = "p"
					v, err = cl.GetPrompt(ctx, rq)
				case "resource":
					rq := &mcp.ReadResourceRequest{}
					rq.Params.URI = "u"
					v, err = cl.ReadResource(ctx, rq)
				case "listtools":
					var lt *mcp.ListToolsResult
					lt, err = cl.ListTools(ctx, &mcp.ListToolsRequest{})
					if err == nil {
						var ts []string
						for _, t := range lt.Tools {
							ts = append(ts, c02ToolCanon(t))
						}
						v = map[string]interface{}{"tools": ts, "cursor": lt.NextCursor}
					}
				case "listprompts":
					v, err = cl.ListPrompts(ctx, &mcp.ListPromptsRequest{})
				case "listresources":
					v, err = cl.ListResources(ctx, &mcp.ListResourcesRequest{})
				}
				if err != nil {
					got = "error"
				} else {
					got = "value " + c02Norm(hx.CanonOf(v))
				}
			})
			vsched.Quiesce()
			if !done.Get() {
				got = "!hang"
			}
			cl.Close()
			ss.stop()
		})
		o := finishOutcome(res, &hx.Log{}, nil, true)
		viol = append(viol, o.Violations...)
		outs[mode] = got
	}
	for _, mode := range []string{"ss", "ls", "io"} {
		if outs[mode] != outs["sj"] {
			viol = append(viol, V("clients-diverge:sj-vs-"+mode+":"+b.Label, "for the server answer %s the Streamable/JSON client yields [%s] but the %s client yields [%s]", truncate(b.Result, 100), truncate(outs["sj"], 160), mode, truncate(outs[mode], 160)))
		}
	}
	cr.ObsKey = cr.Desc + "|" + outs["sj"]
	cr.Violations = viol
	return cr
}

func init() {
	RegisterEnum(&Enum{Name: "c14/servers", Doc: "the same registrations and request (sequences of 1-2, valid and structurally mutated, string and integer ids) on all six server kinds/modes through the reference peer; normal form = result with list items sorted, or the error code; pairwise agreement with Streamable/JSON",
		Count: func(tier string) int { return len(c14Reqs(tier)) }, Eval: c14Eval})
	RegisterEnum(&Enum{Name: "c14/clients", Doc: "a scripted server returns the same (valid and borderline) answer to the Streamable JSON, Streamable SSE, legacy SSE and stdio clients; equal values or all fail",
		Count: func(string) int { return len(c14Bodies()) }, Eval: c14ClientEval})
	RegisterCheck("C14", func(c *Ctx) {
		c.Level = "exploration"
		c.Rule = "differential enumeration: every generated (registration, request sequence) is executed on all six server kinds/modes and the normal forms compared pairwise; every answer of a corpus is returned by a scripted server to all four client kinds and the returned values compared; distinct by (registration, request)"
		c.Assume = append(c.Assume, "normal form ignores the order of listed items and the wording of error messages, as the property allows", "prompts without handler are not registered (SSEServer/StdioServer refuse a nil handler by API)")
		c.Enumerate("c14/servers")
		c.Enumerate("c14/clients")
	})
}
