package props

import (
	"context"
	"fmt"
	"sort"
	"strings"
	"time"

	mcp "trpc.group/trpc-go/trpc-mcp-go"
	"verif.local/engine/explore"
	"verif.local/engine/vsched"
	"verif.local/harness/hx"
)

// C10 — in-call notifications arrive complete, in order and before the result.

var c10Kinds = []string{"progress", "log", "custom", "meta", "both"}

func c10Method(kind string) string {
	switch kind {
	case "progress":
		return "notifications/progress"
	case "log":
		return "notifications/message"
	}
	return "notifications/custom"
}

// c10Emit sends one notification of the given kind and returns the canonical JSON of the params
// the client must see.
func c10Emit(ctx context.Context, kind string, seq int, pad string) (string, error) {
	ns, ok := mcp.GetNotificationSender(ctx)
	if !ok {
		return "", fmt.Errorf("no notification sender in the handler's context")
	}
	tag := fmt.Sprintf("n%d%s", seq, pad)
	switch kind {
	case "progress":
		p := float64(seq) / 4
		err := ns.SendProgress(p, tag)
		return hx.CanonOf(map[string]interface{}{"progress": p, "message": tag, "data": map[string]interface{}{"type": "process_progress", "progress": p, "message": tag}}), err
	case "log":
		err := ns.SendLogMessage("info", tag)
		return hx.CanonOf(map[string]interface{}{"level": "info", "data": map[string]interface{}{"type": "log_message", "message": tag}}), err
	case "custom":
		want := map[string]interface{}{"seq": seq, "s": tag, "list": []interface{}{1, "x"}}
		err := ns.SendCustomNotification("notifications/custom", map[string]interface{}{"seq": seq, "s": tag, "list": []interface{}{1, "x"}})
		return hx.CanonOf(want), err
	case "meta":
		want := map[string]interface{}{"seq": seq, "_meta": map[string]interface{}{"k": tag}}
		err := ns.SendCustomNotification("notifications/custom", map[string]interface{}{"seq": seq, "_meta": map[string]interface{}{"k": tag}})
		return hx.CanonOf(want), err
	case "generic": // the sender's generic entry point with a ready-made notification
		err := ns.SendNotification(mcp.NewNotification("notifications/custom", map[string]interface{}{"seq": seq, "g": tag}))
		return hx.CanonOf(map[string]interface{}{"seq": seq, "g": tag}), err
	case "meta-only": // nothing but _meta
		err := ns.SendCustomNotification("notifications/custom", map[string]interface{}{"_meta": map[string]interface{}{"k": tag, "seq": seq}})
		return hx.CanonOf(map[string]interface{}{"_meta": map[string]interface{}{"k": tag, "seq": seq}}), err
	case "empty-params": // no parameters at all
		err := ns.SendCustomNotification("notifications/custom", map[string]interface{}{})
		return hx.CanonOf(map[string]interface{}{}), err
	case "meta-typed": // _meta given as the library's own Meta type
		err := ns.SendCustomNotification("notifications/custom", map[string]interface{}{"seq": seq, "_meta": mcp.Meta{"k": tag, "n": 1}})
		return hx.CanonOf(map[string]interface{}{"seq": seq, "_meta": map[string]interface{}{"k": tag, "n": 1}}), err
	case "meta-strmap": // _meta given as another map type that encodes as a JSON object
		err := ns.SendCustomNotification("notifications/custom", map[string]interface{}{"seq": seq, "_meta": map[string]string{"k": tag}})
		return hx.CanonOf(map[string]interface{}{"seq": seq, "_meta": map[string]interface{}{"k": tag}}), err
	case "meta-struct": // _meta given as a struct
		err := ns.SendCustomNotification("notifications/custom", map[string]interface{}{"seq": seq, "_meta": struct {
			K string `json:"k"`
			P *int   `json:"p,omitempty"`
		}{K: tag}})
		return hx.CanonOf(map[string]interface{}{"seq": seq, "_meta": map[string]interface{}{"k": tag}}), err
	case "params-typed": // parameter values of non-generic Go types
		err := ns.SendCustomNotification("notifications/custom", map[string]interface{}{"seq": seq, "ids": []int{1, 2}, "m": map[string][]string{"a": {tag}}, "f": float32(0.5)})
		return hx.CanonOf(map[string]interface{}{"seq": seq, "ids": []interface{}{1, 2}, "m": map[string]interface{}{"a": []interface{}{tag}}, "f": 0.5}), err
	default: // both
		want := map[string]interface{}{"seq": seq, "a": tag, "_meta": map[string]interface{}{"k": "v"}, "nested": map[string]interface{}{"_meta": "inner"}}
		err := ns.SendCustomNotification("notifications/custom", map[string]interface{}{"seq": seq, "a": tag, "_meta": map[string]interface{}{"k": "v"}, "nested": map[string]interface{}{"_meta": "inner"}})
		return hx.CanonOf(want), err
	}
}

type c10Case struct {
	Mode string
	Seq  []string
	Reg  int // bitmask over {progress, message, custom}
	Pad  int
	PadS string // appended to every string the handler puts into a notification and to the result text
	HErr int    // bitmask over the notifications the client's handlers receive, in order: bit n set = the handler returns an error for the n-th
}

var c10Methods = []string{"notifications/progress", "notifications/message", "notifications/custom"}

func c10Cases(tier string) []c10Case {
	maxLen := 3
	if tier == "thorough" {
		maxLen = 4
	}
	var seqs [][]string
	var gen func(cur []string)
	gen = func(cur []string) {
		seqs = append(seqs, append([]string(nil), cur...))
		if len(cur) == maxLen {
			return
		}
		for _, k := range c10Kinds {
			gen(append(cur, k))
		}
	}
	gen(nil)
	var out []c10Case
	for _, mode := range []string{"ss", "sj", "sl"} {
		for _, sq := range seqs {
			regs := []int{0, 7}
			if len(sq) <= 2 {
				regs = []int{0, 1, 2, 3, 4, 5, 6, 7}
			} else if tier == "thorough" {
				regs = []int{0, 3, 4, 7}
			}
			for _, reg := range regs {
				out = append(out, c10Case{mode, sq, reg, 0, "", 0})
			}
			// handlers that return an error for the first, a middle, the last or every notification
			if len(sq) >= 1 && len(sq) <= 3 {
				for _, he := range []int{1, 2, 4, 7} {
					if he < 1<<len(sq) || he == 7 {
						out = append(out, c10Case{mode, sq, 7, 0, "", he})
					}
				}
			}
		}
		for _, k := range c10Kinds {
			out = append(out, c10Case{mode, []string{k}, 7, 65537, "", 0}, c10Case{mode, []string{k, k}, 7, 65537, "", 0})
			// strings that are hostile to naive frame writers, in every string of the notification and in the result
			for _, ps := range []string{" 50% done", " 100%", " %s %d %v %!", ` "q" \ \"`, " l1\nl2\r\nl3", " \u2028\u2029", " data: x\n\nid: 9"} {
				out = append(out, c10Case{mode, []string{k, "progress"}, 7, 0, ps, 0})
			}
		}
		// a tool that works for a long (virtual) time between notifications and before it returns
		for _, reg := range []int{0, 7} {
			out = append(out, c10Case{mode, []string{"progress", "pause", "log"}, reg, 0, "", 0}, c10Case{mode, []string{"pause", "custom", "pause"}, reg, 0, "", 0})
		}
		// parameter / _meta values of other Go types that encode to the same JSON
		for _, k := range []string{"generic", "meta-only", "empty-params", "meta-typed", "meta-strmap", "meta-struct", "params-typed"} {
			for _, reg := range []int{0, 4, 7} {
				out = append(out, c10Case{mode, []string{k}, reg, 0, "", 0}, c10Case{mode, []string{"progress", k, "meta"}, reg, 0, "", 0}, c10Case{mode, []string{k, k, k}, reg, 0, "", 0})
			}
		}
	}
	return out
}

// c10Pause is how long a "pause" step of the tool lasts on the virtual clock.
const c10Pause = 10 * time.Minute

type c10Rec struct {
	method string
	params string
	before bool // the call had not yet returned
}

func c10Run(cfg vsched.Config, mode string, calls [][]string, reg int, pad int, herr int, padStr ...string) (viol []explore.Violation, obs *hx.Log, res *vsched.Result) {
	obs = &hx.Log{}
	k := func(s string) string { return s + ":" + mode }
	padS := strings.Repeat("P", pad) + strings.Join(padStr, "")
	res = vsched.Run(cfg, func() {
		vsched.SetBranching(false)
		r := NewRig(mode)
		expected := make([][][2]string, len(calls)) // per call: (method, params canon)
		var emitErr error
		r.RegisterTool(mcp.NewTool("emit"), func(ctx context.Context, req *mcp.CallToolRequest) (*mcp.CallToolResult, error) {
			ci := int(req.Params.Arguments["call"].(float64))
			for i, kind := range calls[ci] {
				if kind == "pause" { // a long-running tool: nothing bounds the time between two notifications or before the result
					vsched.Sleep(c10Pause)
					continue
				}
				want, err := c10Emit(ctx, kind, ci*10+i, padS)
				if err != nil {
					emitErr = err
				}
				expected[ci] = append(expected[ci], [2]string{c10Method(kind), want})
			}
			return mcp.NewTextResult(fmt.Sprintf("done:%d", ci) + strings.Join(padStr, "")), nil
		})
		cl, err := r.Connect()
		if err != nil {
			viol = append(viol, V("setup-handshake-fails", "setting the scenario up with well-behaved peers fails: %v", err))
			return
		}
		var got []c10Rec
		returned := make([]bool, len(calls))
		for mi, m := range c10Methods {
			if reg&(1<<mi) == 0 {
				continue
			}
			m := m
			cl.RegisterNotificationHandler(m, func(n *mcp.JSONRPCNotification) error {
				allPending := true
				for _, rdone := range returned {
					if rdone {
						allPending = false
					}
				}
				got = append(got, c10Rec{m, hx.CanonOf(n.Params), allPending || len(calls) > 1})
				if herr&(1<<(len(got)-1)) != 0 {
					// what the application's handler makes of a notification is its own business: the
					// remaining notifications and the result still arrive
					return fmt.Errorf("the application cannot use notification #%d", len(got))
				}
				return nil
			})
		}
		vsched.Quiesce()
		vsched.SetBranching(true)
		results := make([]string, len(calls))
		errs := make([]error, len(calls))
		for ci := range calls {
			ci := ci
			vsched.Go("caller", func() {
				rq := &mcp.CallToolRequest{}
				rq.Params.Name = "emit"
				rq.Params.Arguments = map[string]interface{}{"call": ci}
				out, err := cl.CallTool(context.Background(), rq)
				results[ci], errs[ci] = TextOf(out), err
				returned[ci] = true
			})
		}
		for _, c := range calls {
			for _, kind := range c {
				if kind == "pause" {
					vsched.Sleep(c10Pause + time.Minute) // virtual time passes for the callers' benefit
					vsched.Quiesce()
				}
			}
		}
		vsched.Quiesce()
		if emitErr != nil {
			viol = append(viol, V(k("emit-fails"), "sending a notification from the handler failed: %v", emitErr))
		}
		for ci := range calls {
			if !returned[ci] {
				viol = append(viol, V(k("call-hangs"), "call %d did not return; blocked %v", ci, vsched.LiveThreads()))
			} else if errs[ci] != nil || results[ci] != fmt.Sprintf("done:%d", ci)+strings.Join(padStr, "") {
				viol = append(viol, V(k("result-affected"), "call %d: result %q err %v", ci, results[ci], errs[ci]))
			}
		}
		// expected delivery: in SSE answer mode, every emitted notification whose method is registered
		var want []string
		for ci := range calls {
			for _, e := range expected[ci] {
				for mi, m := range c10Methods {
					if e[0] == m && reg&(1<<mi) != 0 && mode != "sj" {
						want = append(want, e[0]+" "+e[1])
					}
				}
			}
		}
		var have []string
		for _, g := range got {
			have = append(have, g.method+" "+g.params)
			if !g.before {
				viol = append(viol, V(k("after-return"), "a notification handler ran after its call had returned"))
			}
		}
		if len(calls) > 1 {
			// across two calls only the per-call order is fixed: compare per call (seq/10 = call index) as multisets of ordered lists
			sort.Strings(want)
			sort.Strings(have)
		}
		if strings.Join(want, "\n") != strings.Join(have, "\n") {
			viol = append(viol, V(k("delivery"), "handlers received %d notifications %s; emitted and registered: %d %s", len(have), truncate(firstDiff(strings.Join(have, " ; "), strings.Join(want, " ; ")), 260), len(want), truncate(firstDiff(strings.Join(want, " ; "), strings.Join(have, " ; ")), 260)))
		}
		// event ids on one stream pairwise distinct
		for _, x := range r.Fab.Log() {
			if x.Method != "POST" || !strings.Contains(x.RespHeader.Get("Content-Type"), "event-stream") {
				continue
			}
			evs, _, _ := hx.ParseSSE(x.Body())
			seen := map[string]bool{}
			for _, e := range evs {
				if !e.HasID {
					continue
				}
				if seen[e.ID] {
					viol = append(viol, V(k("duplicate-event-id"), "event id %q appears twice on one SSE stream (%d events)", e.ID, len(evs)))
					break
				}
				seen[e.ID] = true
			}
		}
		obs.Add("delivered=%d", len(have))
	})
	return
}

func c10Eval(tier string, i int) CaseResult {
	cs := c10Cases(tier)[i]
	cr := CaseResult{Desc: fmt.Sprintf("mode=%s seq=%v registered=%03b pad=%d%q handler-errors=%03b", cs.Mode, cs.Seq, cs.Reg, cs.Pad, cs.PadS, cs.HErr), Nontrivial: len(cs.Seq) > 0}
	viol, obs, res := c10Run(vsched.Config{}, cs.Mode, [][]string{cs.Seq}, cs.Reg, cs.Pad, cs.HErr, cs.PadS)
	o := finishOutcome(res, obs, viol, true)
	cr.ObsKey = cr.Desc + o.ObsKey
	cr.Violations = o.Violations
	cr.Broken = o.Broken
	return cr
}

func init() {
	RegisterEnum(&Enum{Name: "c10/sequences", Doc: "all notification sequences up to length 3 (4 thorough) over {progress, log, custom, custom+_meta, custom+both; plus _meta/params given as mcp.Meta, map[string]string, struct, typed slices} x registered-handler subsets x handlers that return an error (first / middle / last / every notification) x response mode {SSE, JSON, stateless SSE} x payload size",
		Count: func(tier string) int { return len(c10Cases(tier)) }, Eval: c10Eval})
	RegisterScenario(&Scenario{Name: "c10/clock", Doc: "one call emitting three notifications; between any two event-id generations the millisecond clock ticks or not (environment deviations)",
		Run: func(p []int, m []vsched.ChoicePoint) explore.Outcome {
			cfg := cfgFor(p)
			cfg.ClockTick = true
			viol, obs, res := c10Run(cfg, "ss", [][]string{{"progress", "custom", "log"}}, 7, 0, 0)
			return finishOutcome(res, obs, viol, true)
		}})
	RegisterScenario(&Scenario{Name: "c10/two-calls", Doc: "two concurrent calls on one client, each emitting two notifications",
		Run: func(p []int, m []vsched.ChoicePoint) explore.Outcome {
			viol, obs, res := c10Run(cfgFor(p), "ss", [][]string{{"progress", "custom"}, {"custom", "log"}}, 7, 0, 2)
			return finishOutcome(res, obs, viol, true)
		}})
	RegisterCheck("C10", func(c *Ctx) {
		c.Level = "exploration"
		c.Rule = "complete enumeration of notification sequences x handler registrations x response modes through the real notification sender, SSE responder and client dispatcher; DFS over clock-tick deviations (event ids) and over schedules of two concurrent calls; oracle: delivered sequence = emitted sequence filtered by registration (method, params, _meta JSON-equal), handlers run before the call returns, result intact, event ids on one stream pairwise distinct"
		c.Assume = append(c.Assume, "virtual millisecond clock: by default it does not tick inside an execution (several events within one millisecond)", "memnet replaces net/http")
		c.Enumerate("c10/sequences")
		c.DFS("c10/clock", explore.Bounds{Preempt: 0, Dev: c.Pick(3, 5), POR: true})
		c.DFSBoth("c10/two-calls", explore.Bounds{Preempt: c.Pick(2, 4), Dev: 1}, 1)
	})
}
