package props

import (
	"context"
	"encoding/json"
	"fmt"
	"sort"
	"strings"

	mcp "trpc.group/trpc-go/trpc-mcp-go"
	"verif.local/engine/explore"
	"verif.local/engine/vsched"
	"verif.local/harness/hx"
)

// C12 — registries stay consistent while tools, prompts and resources change under load.
//
// Driver: initial state {a -> h1}; 2..3 threads each performing one operation on the same
// registry, names forced to collide. Oracle: the call/return history of every explored execution
// must be linearizable with respect to a set-with-handler-identity model (brute force over all
// orders compatible with real time; histories have <= 4 operations). The check is built with
// -race: an unsynchronised registry access concurrent with a write is exactly the condition of
// the runtime's "concurrent map read and map write" crash and is reported by the race monitor.

type c12Op struct {
	Kind string // regA2 (replace a by h2) | regB | unregA | list | callA | callC
}

type c12Event struct {
	Op       string
	Call     int
	Ret      int
	Result   string // canonical result
	Finished bool
}

var c12Registries = []string{"tools", "prompts", "resources", "nhandlers"}

func c12Ops(reg string) (writers, readers []string) {
	switch reg {
	case "tools":
		return []string{"regA2", "regB", "unregA"}, []string{"list", "callA", "callC"}
	case "nhandlers":
		return []string{"regA2", "regB", "unregA"}, []string{"callA", "callC"}
	default:
		return []string{"regA2", "regB"}, []string{"list", "callA", "callC"}
	}
}

type c12Scn struct {
	Reg  string
	Mode string
	Ops  []string
}

func c12Scenarios() []c12Scn {
	var out []c12Scn
	for _, reg := range c12Registries {
		w, r := c12Ops(reg)
		for _, a := range w {
			for _, b := range r {
				out = append(out, c12Scn{reg, "sl", []string{a, b}})
			}
		}
		// two writers + a reader, two readers + a writer
		out = append(out, c12Scn{reg, "sl", []string{w[0], w[1], r[0]}})
		out = append(out, c12Scn{reg, "sl", []string{w[0], r[0], r[len(r)-1]}})
		if reg != "nhandlers" {
			out = append(out, c12Scn{reg, "sl", []string{w[0], "list", "list"}})
			// writers only (the state they leave is read by the final list): the same new entry twice, replace || add, ...
			out = append(out, c12Scn{reg, "sl", []string{"regB", "regB"}}, c12Scn{reg, "sl", []string{"regB", "regA2"}}, c12Scn{reg, "sl", []string{"regA2", "regA2"}})
			if reg == "tools" {
				out = append(out, c12Scn{reg, "sl", []string{"unregA", "regA2"}}, c12Scn{reg, "sl", []string{"unregA", "regB"}}, c12Scn{reg, "sl", []string{"unregA", "unregA"}})
				// one call that unregisters two tools (the registry then starts from {a, b}): both go at one instant
				out = append(out, c12Scn{reg, "sl", []string{"unregAB", "list"}}, c12Scn{reg, "sl", []string{"unregAB", "list", "list"}}, c12Scn{reg, "sl", []string{"unregAB", "regA2", "list"}})
			}
		}
	}
	// once each on the other server kinds (tools registry)
	out = append(out, c12Scn{"tools", "ls", []string{"regA2", "list"}}, c12Scn{"tools", "ls", []string{"unregA", "callA"}})
	out = append(out, c12Scn{"tools", "io", []string{"regA2", "list"}}, c12Scn{"tools", "io", []string{"unregA", "callA"}})
	out = append(out, c12Scn{"tools", "ls", []string{"unregAB", "list"}}, c12Scn{"tools", "io", []string{"unregAB", "list"}})
	out = append(out, c12Scn{"prompts", "ls", []string{"regB", "callA"}}, c12Scn{"resources", "io", []string{"regB", "callA"}})
	return out
}

func (s c12Scn) name() string {
	return fmt.Sprintf("c12/%s/%s/%s", s.Reg, s.Mode, strings.Join(s.Ops, "+"))
}

func init() {
	for _, sc := range c12Scenarios() {
		sc := sc
		RegisterScenario(&Scenario{Name: sc.name(), Run: func(p []int, m []vsched.ChoicePoint) explore.Outcome { return c12Run(p, sc) },
			Doc: "registry " + sc.Reg + " on server mode " + sc.Mode + ": concurrent " + strings.Join(sc.Ops, " || ") + " starting from {a->h1}"})
	}
	RegisterCheck("C12", func(c *Ctx) {
		c.Level = "exploration"
		c.Rule = "for every registry and every pair/triple of colliding operations: DFS (sleep-set reduced) over all schedules within the preemption bound; each execution's call/return history is checked for linearizability against a set model with handler identity (brute force over all real-time-compatible orders), and judged by ThreadSanitizer (binary built with -race, scheduler hand-offs invisible to it)"
		c.Assume = append(c.Assume, "race reports are kept only when both accesses are in library code", "memnet replaces net/http", "sleep-set partial-order reduction (DESIGN 2.8)")
		for _, sc := range c12Scenarios() {
			pb := c.Pick(2, 4)
			if len(sc.Ops) > 2 {
				pb = c.Pick(2, 3)
			}
			c.DFSBoth(sc.name(), explore.Bounds{Preempt: pb, Dev: 1}, 1)
		}
		for _, reg := range []string{"tools", "prompts", "resources"} {
			for _, mode := range []string{"sl", "ls", "io"} {
				for _, v := range []string{"reentrant", "blocked"} {
					c.DFS("c12/"+reg+"-self/"+mode+"/"+v, explore.Bounds{Preempt: c.Pick(1, 2), Dev: 0, POR: true, MaxExec: c.Pick(800, 30000)})
				}
			}
		}
		for _, mode := range []string{"sl", "ss", "ls"} {
			for _, v := range []string{"reads", "registers"} {
				c.DFS("c12/tools-filter/"+mode+"/"+v, explore.Bounds{Preempt: c.Pick(2, 3), Dev: 0, POR: true, MaxExec: c.Pick(1500, 50000)})
			}
		}
		for _, mode := range []string{"sl", "sj", "ls", "io"} {
			for _, v := range []string{"reentrant", "blocked"} {
				c.DFS("c12/nhandlers-self/"+mode+"/"+v, explore.Bounds{Preempt: c.Pick(1, 2), Dev: 0, POR: true, MaxExec: c.Pick(1500, 50000)})
			}
		}
	})
}

type c12World struct {
	r     *Rig
	reg   string
	rp    *RawPeer
	clock *hx.Counter
	evs   []*c12Event
}

func (w *c12World) handlerTool(tag string) ToolFn {
	return func(ctx context.Context, req *mcp.CallToolRequest) (*mcp.CallToolResult, error) {
		return mcp.NewTextResult(tag), nil
	}
}

func (w *c12World) register(name, tag string) {
	switch w.reg {
	case "tools":
		w.r.RegisterTool(mcp.NewTool(name, mcp.WithDescription(tag)), w.handlerTool(tag))
	case "prompts":
		w.r.RegisterPrompt(&mcp.Prompt{Name: name, Description: tag}, func(ctx context.Context, req *mcp.GetPromptRequest) (*mcp.GetPromptResult, error) {
			return &mcp.GetPromptResult{Description: tag, Messages: []mcp.PromptMessage{}}, nil
		})
	case "resources":
		w.r.RegisterResource(&mcp.Resource{Name: name, URI: "res://" + name, Description: tag}, func(ctx context.Context, req *mcp.ReadResourceRequest) (mcp.ResourceContents, error) {
			return mcp.TextResourceContents{URI: "res://" + name, Text: tag}, nil
		})
	case "nhandlers":
		h := func(ctx context.Context, n *mcp.JSONRPCNotification) error { nhLog.Add("%s:%s", name, tag); return nil }
		switch {
		case w.r.Server != nil:
			w.r.Server.RegisterNotificationHandler("notifications/"+name, h)
		case w.r.SSE != nil:
			w.r.SSE.RegisterNotificationHandler("notifications/"+name, h)
		default:
			w.r.Stdio.RegisterNotificationHandler("notifications/"+name, h)
		}
	}
}

var nhLog = &hx.Log{}

func (w *c12World) unregister(name string) {
	switch w.reg {
	case "tools":
		w.r.UnregisterTools(name)
	case "nhandlers":
		switch {
		case w.r.Server != nil:
			w.r.Server.UnregisterNotificationHandler("notifications/" + name)
		case w.r.SSE != nil:
			w.r.SSE.UnregisterNotificationHandler("notifications/" + name)
		default:
			w.r.Stdio.UnregisterNotificationHandler("notifications/" + name)
		}
	}
}

// rpc performs one raw request and returns the response frame.
func (w *c12World) rpc(id int, method string, params string) string {
	msg := fmt.Sprintf(`{"jsonrpc":"2.0","id":%d,"method":%q,"params":%s}`, id, method, params)
	f, err := w.rp.Call(msg, fmt.Sprint(id))
	if err != nil {
		return "!transport:" + err.Error()
	}
	return f
}

func (w *c12World) do(op string, id int) string {
	switch op {
	case "regA2":
		w.register("a", "h2")
		return "ok"
	case "regB":
		w.register("b", "hb")
		return "ok"
	case "unregA":
		w.unregister("a")
		return "ok"
	case "unregAB":
		w.r.UnregisterTools("a", "b")
		return "ok"
	case "list":
		method := map[string]string{"tools": "tools/list", "prompts": "prompts/list", "resources": "resources/list"}[w.reg]
		f := w.rpc(id, method, "{}")
		var m struct {
			Result map[string][]struct {
				Name        string `json:"name"`
				Description string `json:"description"`
			} `json:"result"`
			Error json.RawMessage `json:"error"`
		}
		if json.Unmarshal([]byte(f), &m) != nil || len(m.Error) > 0 {
			return "!bad:" + truncate(f, 80)
		}
		var items []string
		for _, list := range m.Result {
			for _, it := range list {
				items = append(items, it.Name+"="+it.Description)
			}
		}
		if w.reg != "resources" {
			sort.Strings(items) // only resources promise registration order
		}
		return "[" + strings.Join(items, ",") + "]"
	case "callA", "callC":
		name := "a"
		if op == "callC" {
			name = "c"
		}
		if w.reg == "nhandlers" {
			before := len(nhLog.Items())
			w.rp.Notify(fmt.Sprintf(`{"jsonrpc":"2.0","method":"notifications/%s"}`, name)) // the Streamable server runs the handler before answering 202
			it := nhLog.Items()
			for _, e := range it[before:] {
				if strings.HasPrefix(e, name+":") {
					return strings.TrimPrefix(e, name+":")
				}
			}
			return "notfound"
		}
		var f string
		switch w.reg {
		case "tools":
			f = w.rpc(id, "tools/call", fmt.Sprintf(`{"name":%q}`, name))
		case "prompts":
			f = w.rpc(id, "prompts/get", fmt.Sprintf(`{"name":%q}`, name))
		case "resources":
			f = w.rpc(id, "resources/read", fmt.Sprintf(`{"uri":"res://%s"}`, name))
		}
		switch {
		case strings.Contains(f, `"error"`) && strings.Contains(f, "not found"):
			return "notfound"
		case strings.Contains(f, `"h1"`):
			return "h1"
		case strings.Contains(f, `"h2"`):
			return "h2"
		case strings.Contains(f, `"hb"`):
			return "hb"
		}
		return "!bad:" + truncate(f, 100)
	}
	return "!unknown-op"
}

// c12Model applies op to the model state and returns the expected result.
func c12Model(state map[string]string, order *[]string, reg, op string) string {
	switch op {
	case "regA2":
		if _, ok := state["a"]; !ok {
			*order = append(*order, "a")
		}
		state["a"] = "h2"
		return "ok"
	case "regB":
		if _, ok := state["b"]; !ok {
			*order = append(*order, "b")
		}
		state["b"] = "hb"
		return "ok"
	case "unregA":
		delete(state, "a")
		for i, n := range *order {
			if n == "a" {
				*order = append((*order)[:i:i], (*order)[i+1:]...)
				break
			}
		}
		return "ok"
	case "unregAB":
		delete(state, "a")
		delete(state, "b")
		var keep []string
		for _, n := range *order {
			if n != "a" && n != "b" {
				keep = append(keep, n)
			}
		}
		*order = keep
		return "ok"
	case "list":
		var items []string
		for _, n := range *order {
			items = append(items, n+"="+state[n])
		}
		if reg != "resources" {
			sort.Strings(items)
		}
		return "[" + strings.Join(items, ",") + "]"
	case "callA":
		if h, ok := state["a"]; ok {
			return h
		}
		return "notfound"
	case "callC":
		return "notfound"
	}
	return "?"
}

// c12Linearizable: is there a total order of the finished operations, compatible with real time
// (a returns before b is called => a before b), under which the model yields the observed results?
func c12Linearizable(reg string, evs []*c12Event) bool {
	n := len(evs)
	used := make([]bool, n)
	var rec func(done int, state map[string]string, order []string) bool
	rec = func(done int, state map[string]string, order []string) bool {
		if done == n {
			return true
		}
		for i := 0; i < n; i++ {
			if used[i] {
				continue
			}
			// i may come next only if no unused j returned before i was called
			ok := true
			for j := 0; j < n; j++ {
				if j != i && !used[j] && evs[j].Ret < evs[i].Call {
					ok = false
					break
				}
			}
			if !ok {
				continue
			}
			st := map[string]string{}
			for k, v := range state {
				st[k] = v
			}
			ord := append([]string(nil), order...)
			if c12Model(st, &ord, reg, evs[i].Op) != evs[i].Result {
				continue
			}
			used[i] = true
			if rec(done+1, st, ord) {
				used[i] = false
				return true
			}
			used[i] = false
		}
		return false
	}
	for _, e := range evs {
		if e.Op == "unregAB" {
			return rec(0, map[string]string{"a": "h1", "b": "hb"}, []string{"a", "b"})
		}
	}
	return rec(0, map[string]string{"a": "h1"}, []string{"a"})
}

// c12Handlers: notification handlers that touch the handler table themselves, or that are still
// running while another goroutine registers one ("may be registered while a server is serving").
func c12Handlers(prefix []int, mode, variant string) explore.Outcome {
	var viol []explore.Violation
	obs := &hx.Log{}
	k := func(s string) string { return s + ":" + mode + ":" + variant }
	res := vsched.Run(cfgFor(prefix), func() {
		vsched.SetBranching(false)
		r := NewRig(mode)
		log := &hx.Log{}
		gate := &hx.Flag{}
		reg := func(name string, h func(ctx context.Context, n *mcp.JSONRPCNotification) error) {
			switch {
			case r.Server != nil:
				r.Server.RegisterNotificationHandler("notifications/"+name, h)
			case r.SSE != nil:
				r.SSE.RegisterNotificationHandler("notifications/"+name, h)
			default:
				r.Stdio.RegisterNotificationHandler("notifications/"+name, h)
			}
		}
		hb := func(ctx context.Context, n *mcp.JSONRPCNotification) error { log.Add("b"); return nil }
		reg("a", func(ctx context.Context, n *mcp.JSONRPCNotification) error {
			log.Add("a-start")
			switch variant {
			case "reentrant":
				reg("b", hb) // a handler may extend the table it was found in
			case "blocked":
				gate.Wait("handler a waits for release")
			}
			log.Add("a-end")
			return nil
		})
		r.Start()
		rp := NewRawPeer(r)
		if err := rp.Handshake(); err != nil {
			viol = append(viol, V("setup-handshake-fails", "setting the scenario up with well-behaved peers fails: %v", err))
			return
		}
		vsched.Quiesce()
		vsched.SetBranching(true)
		registered := &hx.Flag{}
		vsched.Go("notify-a", func() { rp.Notify(`{"jsonrpc":"2.0","method":"notifications/a"}`) })
		if variant == "blocked" {
			vsched.Go("register-b", func() { reg("b", hb); registered.Set() })
		}
		vsched.Quiesce()
		if variant == "blocked" {
			if !registered.Get() {
				viol = append(viol, V(k("register-blocked-by-running-handler"), "RegisterNotificationHandler did not return while a handler of another method is still running; blocked: %v", vsched.LiveThreads()))
			}
			gate.Set()
			vsched.Quiesce()
		}
		items := strings.Join(log.Items(), ",")
		if !strings.Contains(items, "a-end") {
			viol = append(viol, V(k("handler-never-finishes"), "the handler of notifications/a did not finish (log %q); blocked: %v", items, vsched.LiveThreads()))
			return
		}
		vsched.SetBranching(false)
		rp.Notify(`{"jsonrpc":"2.0","method":"notifications/b"}`)
		vsched.Quiesce()
		if !strings.HasSuffix(strings.Join(log.Items(), ","), ",b") {
			viol = append(viol, V(k("registered-handler-not-called"), "the handler registered for notifications/b was not called (log %q)", strings.Join(log.Items(), ",")))
		}
		obs.Add("%s", strings.Join(log.Items(), ","))
	})
	return finishOutcome(res, obs, viol, true)
}

func init() {
	for _, mode := range []string{"sl", "sj", "ls", "io"} {
		for _, v := range []string{"reentrant", "blocked"} {
			mode, v := mode, v
			RegisterScenario(&Scenario{Name: "c12/nhandlers-self/" + mode + "/" + v, Run: func(p []int, m []vsched.ChoicePoint) explore.Outcome { return c12Handlers(p, mode, v) },
				Doc: "server mode " + mode + ": a notification handler that " + map[string]string{"reentrant": "registers another handler itself", "blocked": "is still running while another goroutine registers a handler"}[v]})
		}
	}
}

// c12Entries: the handler of a registered tool / prompt / resource is still running (or itself
// registers another entry) while the registry is changed: registration must not wait for user code.
func c12Entries(prefix []int, mode, reg, variant string) explore.Outcome {
	var viol []explore.Violation
	obs := &hx.Log{}
	k := func(s string) string { return s + ":" + reg + ":" + mode + ":" + variant }
	res := vsched.Run(cfgFor(prefix), func() {
		vsched.SetBranching(false)
		r := NewRig(mode)
		gate := &hx.Flag{}
		started := &hx.Flag{}
		w := &c12World{r: r, reg: reg, clock: &hx.Counter{}}
		inside := func() {
			started.Set()
			switch variant {
			case "reentrant":
				w.register("b", "hb")
			case "blocked":
				gate.Wait("handler of entry a waits for release")
			}
		}
		switch reg {
		case "tools":
			r.RegisterTool(mcp.NewTool("a"), func(ctx context.Context, req *mcp.CallToolRequest) (*mcp.CallToolResult, error) {
				inside()
				return mcp.NewTextResult("h1"), nil
			})
		case "prompts":
			r.RegisterPrompt(&mcp.Prompt{Name: "a"}, func(ctx context.Context, req *mcp.GetPromptRequest) (*mcp.GetPromptResult, error) {
				inside()
				return &mcp.GetPromptResult{Description: "h1", Messages: []mcp.PromptMessage{}}, nil
			})
		case "resources":
			r.RegisterResource(&mcp.Resource{Name: "a", URI: "res://a"}, func(ctx context.Context, req *mcp.ReadResourceRequest) (mcp.ResourceContents, error) {
				inside()
				return mcp.TextResourceContents{URI: "res://a", Text: "h1"}, nil
			})
		}
		r.Start()
		w.rp = NewRawPeer(r)
		if err := w.rp.Handshake(); err != nil {
			viol = append(viol, V("setup-handshake-fails", "setting the scenario up with well-behaved peers fails: %v", err))
			return
		}
		vsched.Quiesce()
		vsched.SetBranching(true)
		var callRes string
		callDone, regDone := &hx.Flag{}, &hx.Flag{}
		vsched.Go("call-a", func() { callRes = w.do("callA", 101); callDone.Set() })
		if variant == "blocked" {
			vsched.Go("register-b", func() { started.Wait("until the handler runs"); w.register("b", "hb"); regDone.Set() })
		}
		vsched.Quiesce()
		if variant == "blocked" {
			if !regDone.Get() {
				viol = append(viol, V(k("register-blocked-by-running-handler"), "registering entry b did not return while the handler of entry a is still running; blocked: %v", vsched.LiveThreads()))
			}
			gate.Set()
			vsched.Quiesce()
		}
		if !callDone.Get() {
			viol = append(viol, V(k("call-never-returns"), "the call of entry a never returned; blocked: %v", vsched.LiveThreads()))
			return
		}
		if callRes != "h1" {
			viol = append(viol, V(k("call-result"), "the call of entry a returned %q", callRes))
		}
		vsched.SetBranching(false)
		if l := w.do("list", 102); !strings.Contains(l, "b=hb") || !strings.Contains(l, "a=") {
			viol = append(viol, V(k("list-after"), "after the registration the list is %s", l))
		}
		obs.Add("%s", callRes)
	})
	return finishOutcome(res, obs, viol, true)
}

func init() {
	for _, reg := range []string{"tools", "prompts", "resources"} {
		for _, mode := range []string{"sl", "ls", "io"} {
			for _, v := range []string{"reentrant", "blocked"} {
				reg, mode, v := reg, mode, v
				RegisterScenario(&Scenario{Name: "c12/" + reg + "-self/" + mode + "/" + v, Run: func(p []int, m []vsched.ChoicePoint) explore.Outcome { return c12Entries(p, mode, reg, v) },
					Doc: "registry " + reg + " on server mode " + mode + ": the handler of an entry " + map[string]string{"reentrant": "registers another entry itself", "blocked": "is still running while another goroutine registers an entry"}[v]})
			}
		}
	}
}

func c12Run(prefix []int, sc c12Scn) explore.Outcome {
	var viol []explore.Violation
	obs := &hx.Log{}
	res := vsched.Run(cfgFor(prefix), func() {
		vsched.SetBranching(false)
		r := NewRig(sc.Mode)
		w := &c12World{r: r, reg: sc.Reg, clock: &hx.Counter{}}
		w.register("a", "h1")
		for _, op := range sc.Ops {
			if op == "unregAB" {
				w.register("b", "hb") // the batch finds both of its names
				break
			}
		}
		r.Start()
		w.rp = NewRawPeer(r)
		if err := w.rp.Handshake(); err != nil {
			viol = append(viol, V("setup-handshake-fails", "setting the scenario up with well-behaved peers fails: %v", err))
			return
		}
		vsched.Quiesce()
		vsched.SetBranching(true)
		for i, op := range sc.Ops {
			ev := &c12Event{Op: op}
			w.evs = append(w.evs, ev)
			i, op := i, op
			vsched.Go("op-"+op, func() {
				ev.Call = w.clock.Inc()
				ev.Result = w.do(op, 100+i)
				ev.Ret = w.clock.Inc()
				ev.Finished = true
			})
		}
		vsched.Quiesce()
		if sc.Reg != "nhandlers" {
			// a list issued after everything returned: the state the writers left behind must be one a
			// sequential order of them produces (no duplicated, lost or phantom entry survives)
			ev := &c12Event{Op: "list"}
			w.evs = append(w.evs, ev)
			ev.Call = w.clock.Inc()
			ev.Result = w.do("list", 199)
			ev.Ret = w.clock.Inc()
			ev.Finished = true
		}
		var parts []string
		for _, ev := range w.evs {
			if !ev.Finished {
				viol = append(viol, V("op-hangs:"+sc.Reg, "%s did not return; blocked %v", ev.Op, vsched.LiveThreads()))
				return
			}
			if strings.HasPrefix(ev.Result, "!") {
				viol = append(viol, V("op-fails:"+sc.Reg+":"+ev.Op, "%s on %s returned %s", ev.Op, sc.Reg, ev.Result))
			}
			parts = append(parts, fmt.Sprintf("%s[%d,%d]=%s", ev.Op, ev.Call, ev.Ret, ev.Result))
		}
		if len(viol) == 0 && !c12Linearizable(sc.Reg, w.evs) {
			viol = append(viol, V("not-linearizable:"+sc.Reg+":"+strings.Join(sc.Ops, "+"), "history %s of registry %s (initially {a=h1}) has no linearization", strings.Join(parts, " "), sc.Reg))
		}
		// final state agrees with some order of the writers: a final list must be explainable
		obs.Add("%s", strings.Join(resultsOnly(w.evs), " "))
	})
	return finishOutcome(res, obs, viol, true)
}

func resultsOnly(evs []*c12Event) []string {
	var out []string
	for _, e := range evs {
		out = append(out, e.Op+"="+e.Result)
	}
	return out
}

// c12Filter: a list filter is application code that runs while a list request is being served; it
// may look into the registry it filters (GetTool / GetTools) or extend it (RegisterTool), while
// another goroutine registers a tool. Everything returns, and the registry ends up complete.
func c12Filter(prefix []int, mode, variant string) explore.Outcome {
	var viol []explore.Violation
	obs := &hx.Log{}
	k := func(s string) string { return s + ":tools-filter:" + mode + ":" + variant }
	res := vsched.Run(cfgFor(prefix), func() {
		vsched.SetBranching(false)
		var r *Rig
		filter := func(ctx context.Context, tools []*mcp.Tool) []*mcp.Tool {
			switch variant {
			case "reads":
				switch {
				case r.Server != nil:
					r.Server.GetTool("a")
					r.Server.GetTools()
				case r.SSE != nil:
					r.SSE.GetTool("a")
					r.SSE.GetTools()
				}
			case "registers":
				r.RegisterTool(mcp.NewTool("lazy"), func(ctx context.Context, req *mcp.CallToolRequest) (*mcp.CallToolResult, error) {
					return mcp.NewTextResult("lazy"), nil
				})
			}
			return tools
		}
		if mode == "ls" {
			r = NewRig(mode, mcp.WithSSEToolListFilter(filter))
		} else {
			r = NewRig(mode, mcp.WithToolListFilter(filter))
		}
		w := &c12World{r: r, reg: "tools", clock: &hx.Counter{}}
		w.register("a", "h1")
		r.Start()
		w.rp = NewRawPeer(r)
		if err := w.rp.Handshake(); err != nil {
			viol = append(viol, V("setup-handshake-fails", "setting the scenario up with well-behaved peers fails: %v", err))
			return
		}
		vsched.Quiesce()
		vsched.SetBranching(true)
		var l1, l2 string
		d1, d2, d3 := &hx.Flag{}, &hx.Flag{}, &hx.Flag{}
		vsched.Go("list-1", func() { l1 = w.do("list", 301); d1.Set() })
		vsched.Go("register-b", func() { w.register("b", "hb"); d2.Set() })
		vsched.Go("list-2", func() { l2 = w.do("list", 302); d3.Set() })
		vsched.Quiesce()
		if !d1.Get() || !d2.Get() || !d3.Get() {
			viol = append(viol, V(k("hangs"), "tools/list (whose filter %s the registry) || RegisterTool: list-1 returned=%v, RegisterTool returned=%v, list-2 returned=%v; blocked: %v", variant, d1.Get(), d2.Get(), d3.Get(), vsched.LiveThreads()))
			return
		}
		for _, l := range []string{l1, l2} {
			if strings.HasPrefix(l, "!") || !strings.Contains(l, "a=") {
				viol = append(viol, V(k("list-broken"), "tools/list returned %s", l))
			}
		}
		final := w.do("list", 399)
		want := "[a=h1,b=hb]"
		if variant == "registers" {
			want = "[a=h1,b=hb,lazy=]"
		}
		if final != want {
			viol = append(viol, V(k("final-registry"), "after everything returned tools/list shows %s, want %s", final, want))
		}
		obs.Add("l1=%s l2=%s", l1, l2)
	})
	return finishOutcome(res, obs, viol, true)
}

func init() {
	for _, mode := range []string{"sl", "ss", "ls"} {
		for _, v := range []string{"reads", "registers"} {
			mode, v := mode, v
			RegisterScenario(&Scenario{Name: "c12/tools-filter/" + mode + "/" + v, Doc: "two tools/list requests whose list filter " + v + " the tool registry || RegisterTool from another goroutine",
				Run: func(p []int, m []vsched.ChoicePoint) explore.Outcome { return c12Filter(p, mode, v) }})
		}
	}
}
