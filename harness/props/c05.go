package props

import (
	"context"
	"encoding/json"
	"fmt"
	"sort"
	"strings"

	mcp "trpc.group/trpc-go/trpc-mcp-go"
	"verif.local/engine/explore"
	"verif.local/engine/vcontext"
	"verif.local/engine/vsched"
	"verif.local/harness/hx"
)

// C05 — server-initiated traffic reaches exactly the addressed session.

// c05World: one Streamable server with k sessions, each held by a raw reference peer.
type c05World struct {
	r     *Rig
	peers []*RawPeer
	carry map[int][]string // tags seen on earlier streams of a session (before it reopened its stream)
}

func c05New(mode string, k int, openStreams bool) (*c05World, error) {
	w := &c05World{r: NewRig(mode)}
	for i := 0; i < k; i++ {
		rp := NewRawPeer(w.r)
		if err := rp.Handshake(); err != nil {
			return nil, err
		}
		if openStreams && mode != "ls" {
			if err := rp.OpenStream(); err != nil {
				return nil, err
			}
		}
		w.peers = append(w.peers, rp)
	}
	vsched.Quiesce()
	return w, nil
}

// notes returns the "n" tags of notification frames seen on peer i's stream, in order.
func (w *c05World) notes(i int) []string {
	out := append([]string(nil), w.carry[i]...)
	for _, f := range w.peers[i].StreamFrames() {
		var m struct {
			Method string `json:"method"`
			ID     json.RawMessage
			Params map[string]interface{} `json:"params"`
		}
		if json.Unmarshal([]byte(f), &m) != nil || m.Method == "" || len(m.ID) > 0 {
			continue
		}
		if t, ok := m.Params["tag"].(string); ok {
			out = append(out, t)
		}
	}
	return out
}

func (w *c05World) sid(i int) string {
	if w.r.Mode == "ls" {
		return fmt.Sprintf("sse-%04d", i+1)
	}
	return w.peers[i].SID
}

func (w *c05World) send(i int, tag string, pad int) error {
	params := map[string]interface{}{"tag": tag}
	if pad > 0 {
		params["pad"] = strings.Repeat("p", pad)
	}
	if w.r.SSE != nil {
		return w.r.SSE.SendNotification(w.sid(i), "notifications/message", params)
	}
	return w.r.Server.SendNotification(w.sid(i), "notifications/message", params)
}

func c05Notify(prefix []int, mode string, pad int) explore.Outcome {
	var viol []explore.Violation
	obs := &hx.Log{}
	res := vsched.Run(cfgFor(prefix), func() {
		vsched.SetBranching(false)
		w, err := c05New(mode, 2, true)
		if err != nil {
			viol = append(viol, V("setup-handshake-fails", "setting the scenario up with well-behaved peers fails: %v", err))
			return
		}
		vsched.SetBranching(true)
		var e1, e2, eb, ef error
		var nb, nfOK, nfFail int
		vsched.Go("send-A", func() { e1 = w.send(0, "a1", pad); e2 = w.send(0, "a2", pad) })
		if mode != "ls" {
			vsched.Go("broadcast", func() {
				nb, eb = w.r.Server.BroadcastNotification("notifications/message", map[string]interface{}{"tag": "bc"})
			})
			vsched.Go("filtered", func() {
				nfOK, nfFail, ef = w.r.Server.SendFilteredNotification("notifications/message", map[string]interface{}{"tag": "fl"}, func(id string) bool { return id == w.sid(1) })
			})
		} else {
			vsched.Go("send-B", func() { eb = w.send(1, "b1", 0) })
		}
		vsched.Quiesce()
		a, b := w.notes(0), w.notes(1)
		obs.Add("A=%v B=%v", a, b)
		k := func(s string) string { return s + ":" + mode }
		if e1 != nil || e2 != nil {
			viol = append(viol, V(k("send-fails"), "SendNotification to a session with an open stream failed: %v %v", e1, e2))
		}
		if idx(a, "a1") < 0 || idx(a, "a2") < 0 || idx(a, "a1") > idx(a, "a2") || count(a, "a1") != 1 || count(a, "a2") != 1 {
			viol = append(viol, V(k("order-or-count"), "session A's stream carries %v; a1 and a2 must each appear once, in sending order", a))
		}
		if count(b, "a1")+count(b, "a2") > 0 {
			viol = append(viol, V(k("leak-to-other-session"), "a notification addressed to session A appeared on session B's stream: %v", b))
		}
		if mode != "ls" {
			if eb != nil || nb != 2 || count(a, "bc") != 1 || count(b, "bc") != 1 {
				viol = append(viol, V(k("broadcast"), "broadcast to two open sessions: count=%d err=%v, A saw it %d times, B %d times", nb, eb, count(a, "bc"), count(b, "bc")))
			}
			if ef != nil || nfOK != 1 || nfFail != 0 || count(b, "fl") != 1 || count(a, "fl") != 0 {
				viol = append(viol, V(k("filtered"), "filtered send (only B): ok=%d failed=%d err=%v, A saw it %d times, B %d times", nfOK, nfFail, ef, count(a, "fl"), count(b, "fl")))
			}
		} else if eb != nil || count(b, "b1") != 1 || count(a, "b1") != 0 {
			viol = append(viol, V(k("send-fails"), "send to B: err=%v, B saw it %d times, A %d times", eb, count(b, "b1"), count(a, "b1")))
		}
	})
	return finishOutcome(res, obs, viol, true)
}

// c05Backlog: the reader of session A's stream stalls while n notifications are sent to A, then
// reads again. Whatever SendNotification reported as sent must arrive, once, in sending order; a
// send that could not be queued must say so.
// c05SlowReader: like c05Backlog with few notifications, but the reader stays away for 20 (virtual)
// seconds - longer than any internal patience. A send that reports an error must not have been
// delivered (it would be counted as not reached although it was), one that reports success must
// arrive once and in order.
func c05SlowReader(prefix []int, mode string) explore.Outcome {
	var viol []explore.Violation
	obs := &hx.Log{}
	res := vsched.Run(cfgFor(prefix), func() {
		vsched.SetBranching(false)
		w, err := c05New(mode, 2, true)
		if err != nil {
			viol = append(viol, V("setup-handshake-fails", "setting the scenario up with well-behaved peers fails: %v", err))
			return
		}
		w.peers[0].Stream.Stall(true)
		results := map[string]error{}
		var order []string
		done := &hx.Flag{}
		var bn int
		var berr error
		vsched.Go("sender", func() {
			for i := 0; i < 3; i++ {
				tag := fmt.Sprintf("s%d", i)
				results[tag] = w.send(0, tag, 0)
				order = append(order, tag)
			}
			if w.r.Server != nil {
				bn, berr = w.r.Server.BroadcastNotification("notifications/message", map[string]interface{}{"tag": "bc"})
			}
			done.Set()
		})
		vsched.Quiesce()
		for i := 0; i < 4 && !done.Get(); i++ { // 20 s pass while the reader is away
			vsched.Sleep(5e9)
			vsched.Quiesce()
		}
		w.peers[0].Stream.Stall(false)
		vsched.Quiesce()
		k := func(s string) string { return s + ":slow-reader:" + mode }
		if !done.Get() {
			viol = append(viol, V(k("send-hangs"), "the sends did not return after the reader resumed; blocked: %v", vsched.LiveThreads()))
			return
		}
		got := w.notes(0)
		var wantOK []string
		for _, tag := range order {
			n := count(got, tag)
			switch {
			case results[tag] == nil && n != 1:
				viol = append(viol, V(k("order-or-count"), "notification %s was reported sent but appears %d times on the stream %v", tag, n, got))
			case results[tag] != nil && n != 0:
				viol = append(viol, V(k("reported-failed-but-delivered"), "notification %s was reported as failed (%v) but was delivered %d time(s): the caller's accounting (and any retry) is wrong", tag, results[tag], n))
			}
			if results[tag] == nil {
				wantOK = append(wantOK, tag)
			}
		}
		var gotOK []string
		for _, g := range got {
			if strings.HasPrefix(g, "s") && results[g] == nil {
				gotOK = append(gotOK, g)
			}
		}
		if strings.Join(gotOK, ",") != strings.Join(wantOK, ",") {
			viol = append(viol, V(k("order-or-count"), "sent in the order %v, delivered in the order %v", wantOK, gotOK))
		}
		if w.r.Server != nil {
			reached := count(got, "bc") + count(w.notes(1), "bc")
			if berr == nil && bn != reached {
				viol = append(viol, V(k("broadcast"), "broadcast reported %d sessions reached, its notification arrived on %d streams", bn, reached))
			}
		}
		obs.Add("%v got=%v bn=%d", len(wantOK), got, bn)
	})
	return finishOutcome(res, obs, viol, true)
}

func c05Backlog(prefix []int, mode string, n int) explore.Outcome {
	var viol []explore.Violation
	obs := &hx.Log{}
	res := vsched.Run(cfgFor(prefix), func() {
		vsched.SetBranching(false)
		w, err := c05New(mode, 2, true)
		if err != nil {
			viol = append(viol, V("setup-handshake-fails", "setting the scenario up with well-behaved peers fails: %v", err))
			return
		}
		w.peers[0].Stream.Stall(true)
		var okTags []string
		refused := 0
		done := &hx.Flag{}
		vsched.Go("sender", func() {
			for i := 0; i < n; i++ {
				tag := fmt.Sprintf("t%03d", i)
				if err := w.send(0, tag, 0); err == nil {
					okTags = append(okTags, tag)
				} else {
					refused++
				}
			}
			done.Set()
		})
		vsched.Quiesce()
		vsched.SetBranching(true)
		w.peers[0].Stream.Stall(false) // the client reads again
		vsched.Quiesce()
		k := func(s string) string { return s + ":backlog:" + mode }
		if !done.Get() {
			viol = append(viol, V(k("send-hangs"), "SendNotification never returned although the reader resumed; blocked: %v", vsched.LiveThreads()))
			return
		}
		got := w.notes(0)
		obs.Add("sent-ok=%d refused=%d got=%d", len(okTags), refused, len(got))
		if strings.Join(got, ",") != strings.Join(okTags, ",") {
			first := ""
			for i := 0; i < len(got) || i < len(okTags); i++ {
				g, o := "<none>", "<none>"
				if i < len(got) {
					g = got[i]
				}
				if i < len(okTags) {
					o = okTags[i]
				}
				if g != o {
					first = fmt.Sprintf("position %d: delivered %s, reported sent %s", i, g, o)
					break
				}
			}
			viol = append(viol, V(k("order-or-count"), "%d notifications were reported sent and %d refused, the stream carries %d; first difference at %s", len(okTags), refused, len(got), first))
		}
		if other := w.notes(1); len(other) != 0 {
			viol = append(viol, V(k("leak-to-other-session"), "session B's stream carries %v", other))
		}
	})
	return finishOutcome(res, obs, viol, true)
}

// c05ReusedParams: the application builds one parameter map and re-uses it, changing it between
// sends (a progress record that is updated and sent again). What a session receives is what the
// map held when the send was made - also when the session's reader was slow and the notification
// waited in a queue, and also for the session the next send goes to.
func c05ReusedParams(prefix []int, mode string) explore.Outcome {
	var viol []explore.Violation
	obs := &hx.Log{}
	res := vsched.Run(cfgFor(prefix), func() {
		vsched.SetBranching(false)
		w, err := c05New(mode, 2, true)
		if err != nil {
			viol = append(viol, V("setup-handshake-fails", "setting the scenario up with well-behaved peers fails: %v", err))
			return
		}
		w.peers[0].Stream.Stall(true)
		vsched.SetBranching(true)
		send := func(i int, params map[string]interface{}) error {
			if w.r.SSE != nil {
				return w.r.SSE.SendNotification(w.sid(i), "notifications/message", params)
			}
			return w.r.Server.SendNotification(w.sid(i), "notifications/message", params)
		}
		var errs []error
		done := &hx.Flag{}
		vsched.Go("sender", func() {
			params := map[string]interface{}{"tag": "n1", "nested": map[string]interface{}{"k": "n1"}}
			errs = append(errs, send(0, params))
			params["tag"] = "n2"
			params["nested"] = map[string]interface{}{"k": "n2"}
			errs = append(errs, send(0, params))
			params["tag"] = "n3"
			params["extra"] = true
			errs = append(errs, send(1, params))
			delete(params, "tag")
			done.Set()
		})
		vsched.Quiesce()
		w.peers[0].Stream.Stall(false)
		vsched.Quiesce()
		k := func(s string) string { return s + ":reused-params:" + mode }
		if !done.Get() {
			viol = append(viol, V(k("send-hangs"), "SendNotification never returned although the reader resumed; blocked: %v", vsched.LiveThreads()))
			return
		}
		for i, e := range errs {
			if e != nil {
				viol = append(viol, V(k("send-fails"), "send %d failed: %v", i+1, e))
			}
		}
		a, b := strings.Join(w.notes(0), ","), strings.Join(w.notes(1), ",")
		if len(viol) == 0 && (a != "n1,n2" || b != "n3") {
			viol = append(viol, V(k("later-value-delivered"), "one parameter map was sent as n1 and n2 to session A and as n3 to session B, changed in between; A's stream carries [%s], B's [%s]", a, b))
		}
		obs.Add("A=%s B=%s", a, b)
	})
	return finishOutcome(res, obs, viol, true)
}

func idx(xs []string, x string) int {
	for i, y := range xs {
		if y == x {
			return i
		}
	}
	return -1
}

func count(xs []string, x string) int {
	n := 0
	for _, y := range xs {
		if y == x {
			n++
		}
	}
	return n
}

// listRoots issues roots/list inside session i.
func (w *c05World) listRoots(ctx context.Context, i int) (*mcp.ListRootsResult, error) {
	switch {
	case w.r.Server != nil:
		c := mcp.VerifSessionContext(w.r.Server, w.sid(i))
		return w.r.Server.ListRoots(mergeCtx(ctx, c))
	case w.r.SSE != nil:
		return w.r.SSE.ListRoots(mergeCtx(ctx, mcp.VerifSessionContextSSE(w.r.SSE, w.sid(i))))
	}
	return nil, fmt.Errorf("unsupported")
}

type mergedCtx struct {
	context.Context
	vals context.Context
}

func (m mergedCtx) Value(k interface{}) interface{} {
	if v := m.vals.Value(k); v != nil {
		return v
	}
	return m.Context.Value(k)
}

// mergeCtx: cancellation from c, values from vals.
func mergeCtx(c, vals context.Context) context.Context { return mergedCtx{c, vals} }

func rootsOf(r *mcp.ListRootsResult) string {
	if r == nil {
		return "<nil>"
	}
	var u []string
	for _, x := range r.Roots {
		u = append(u, x.URI)
	}
	return strings.Join(u, ",")
}

// c05Roots: ListRoots in session A; A answers with its roots; adversarial B posts an answer with
// the same request id (it can guess it: ids are small integers from a server-wide counter).
func c05Roots(prefix []int, mode string, variant string) explore.Outcome {
	if variant == "with-notification" {
		defer nonAtomicWriters()() // request and notification share A's stream: concurrent use of its ResponseWriter is reported
	}
	var viol []explore.Violation
	obs := &hx.Log{}
	k := func(s string) string { return s + ":" + mode + ":" + variant }
	res := vsched.Run(cfgFor(prefix), func() {
		vsched.SetBranching(false)
		w, err := c05New(mode, 2, true)
		if err != nil {
			viol = append(viol, V("setup-handshake-fails", "setting the scenario up with well-behaved peers fails: %v", err))
			return
		}
		vsched.SetBranching(true)
		A, B := w.peers[0], w.peers[1]
		answer := func(p *RawPeer, id, uri string) {
			p.PostOnly(fmt.Sprintf(`{"jsonrpc":"2.0","id":%s,"result":{"roots":[{"uri":%q,"name":"r"}]}}`, id, uri))
		}
		switch variant {
		case "foreign-answer":
			var got *mcp.ListRootsResult
			var gerr error
			done := &hx.Flag{}
			vsched.Go("list-roots-A", func() { got, gerr = w.listRoots(context.Background(), 0); done.Set() })
			vsched.Go("peer-A", func() {
				id, ok := A.Await("roots/list", func(f string) bool { return strings.Contains(f, `"roots/list"`) })
				if ok {
					answer(A, string(rawIDOf(id)), "file:///A")
				}
			})
			vsched.Go("peer-B-adversary", func() {
				// B does not see A's stream; it guesses the id (1 is the first id the server uses)
				answer(B, "1", "file:///B-forged")
			})
			vsched.Quiesce()
			switch {
			case !done.Get():
				viol = append(viol, V(k("roots-hangs"), "ListRoots(A) did not return although A answered; blocked: %v", vsched.LiveThreads()))
			case gerr != nil:
				viol = append(viol, V(k("roots-fails"), "ListRoots(A) failed: %v", gerr))
			case rootsOf(got) != "file:///A":
				viol = append(viol, V(k("foreign-answer-accepted"), "ListRoots for session A returned %q: an answer posted by session B with the same request id was accepted", rootsOf(got)))
			}
			obs.Add("roots=%s", rootsOf(got))
		case "with-notification":
			// a server-issued request and two notifications to the same session at the same time
			var got *mcp.ListRootsResult
			var gerr, e1, e2 error
			done := &hx.Flag{}
			vsched.Go("list-roots-A", func() { got, gerr = w.listRoots(context.Background(), 0); done.Set() })
			vsched.Go("send-A", func() { e1 = w.send(0, "n1", 0); e2 = w.send(0, "n2", 0) })
			vsched.Go("peer-A", func() {
				id, ok := A.Await("roots/list", func(f string) bool { return strings.Contains(f, `"roots/list"`) })
				if ok {
					answer(A, string(rawIDOf(id)), "file:///A")
				}
			})
			vsched.Quiesce()
			a := w.notes(0)
			switch {
			case !done.Get():
				viol = append(viol, V(k("roots-hangs"), "ListRoots(A) did not return although A answers what it receives; blocked: %v; A's stream: %v", vsched.LiveThreads(), A.StreamFrames()))
			case gerr != nil || rootsOf(got) != "file:///A":
				viol = append(viol, V(k("roots-fails"), "ListRoots(A) concurrent with notifications: %q %v", rootsOf(got), gerr))
			}
			if e1 != nil || e2 != nil || strings.Join(a, ",") != "n1,n2" {
				viol = append(viol, V(k("order-or-count"), "notifications sent while a request was being written: errors %v %v, A's stream carries %v (want n1,n2)", e1, e2, a))
			}
			if len(w.notes(1)) != 0 {
				viol = append(viol, V(k("leak-to-other-session"), "session B's stream carries %v", w.notes(1)))
			}
			obs.Add("roots=%s notes=%v", rootsOf(got), a)
		case "duplicate-answer":
			// A answers its request twice at the same time (a retrying or duplicating peer); afterwards the
			// server asks B. Whatever became of the surplus answer, B's request is answered by B alone.
			var got, gb *mcp.ListRootsResult
			var gerr, eb error
			done := &hx.Flag{}
			vsched.Go("list-roots-A", func() { got, gerr = w.listRoots(context.Background(), 0); done.Set() })
			seen := &hx.Flag{}
			var rid string
			vsched.Go("peer-A", func() {
				id, ok := A.Await("roots/list", func(f string) bool { return strings.Contains(f, `"roots/list"`) })
				if ok {
					rid = string(rawIDOf(id))
					seen.Set()
					answer(A, rid, "file:///A")
				}
			})
			vsched.Go("peer-A-again", func() {
				seen.Wait("the duplicating peer waits for the request")
				answer(A, rid, "file:///A-again")
			})
			vsched.Quiesce()
			switch {
			case !done.Get():
				viol = append(viol, V(k("roots-hangs"), "ListRoots(A) did not return although A answered (twice); blocked: %v", vsched.LiveThreads()))
			case gerr != nil || (rootsOf(got) != "file:///A" && rootsOf(got) != "file:///A-again"):
				viol = append(viol, V(k("roots-fails"), "ListRoots(A), answered twice by A: %q %v", rootsOf(got), gerr))
			}
			if p := pendingOf(w.r); p != 0 {
				viol = append(viol, V(k("pending-left"), "%d server->client requests are still pending after A's request was answered", p))
			}
			bdone := &hx.Flag{}
			vsched.Go("list-roots-B", func() { gb, eb = w.listRoots(context.Background(), 1); bdone.Set() })
			vsched.Go("peer-B", func() {
				id, ok := B.Await("roots/list", func(f string) bool { return strings.Contains(f, `"roots/list"`) })
				if ok {
					answer(B, string(rawIDOf(id)), "file:///B")
				}
			})
			vsched.Quiesce()
			switch {
			case !bdone.Get():
				viol = append(viol, V(k("roots-hangs"), "ListRoots(B) after A's duplicated answer did not return; blocked: %v", vsched.LiveThreads()))
			case eb != nil || rootsOf(gb) != "file:///B":
				viol = append(viol, V(k("stale-answer-accepted"), "ListRoots for session B returned %q (%v): not the answer B posted (A had answered an earlier request twice)", rootsOf(gb), eb))
			}
			obs.Add("A=%s B=%s", rootsOf(got), rootsOf(gb))
		case "two-kinds":
			// in one session: ListRoots and an application request sent with SendRequest (the server assigns
			// its id) are pending together; the peer answers each by the id it was sent with
			var got *mcp.ListRootsResult
			var gerr, serr error
			var raw *json.RawMessage
			d1, d2 := &hx.Flag{}, &hx.Flag{}
			vsched.Go("list-roots-A", func() { got, gerr = w.listRoots(context.Background(), 0); d1.Set() })
			vsched.Go("send-request-A", func() {
				req := &mcp.JSONRPCRequest{JSONRPC: "2.0"}
				req.Method = "x/ask"
				if w.r.SSE != nil {
					raw, serr = w.r.SSE.SendRequest(mergeCtx(context.Background(), mcp.VerifSessionContextSSE(w.r.SSE, w.sid(0))), w.sid(0), req)
				} else {
					raw, serr = w.r.Server.SendRequest(context.Background(), w.sid(0), req)
				}
				d2.Set()
			})
			vsched.Go("peer-A-roots", func() {
				f, ok := A.Await("roots/list", func(f string) bool { return strings.Contains(f, `"roots/list"`) })
				if ok {
					answer(A, string(rawIDOf(f)), "file:///A")
				}
			})
			vsched.Go("peer-A-ask", func() {
				f, ok := A.Await("x/ask", func(f string) bool { return strings.Contains(f, `"x/ask"`) })
				if ok {
					A.PostOnly(fmt.Sprintf(`{"jsonrpc":"2.0","id":%s,"result":{"answer":"to-the-ask"}}`, rawIDOf(f)))
				}
			})
			vsched.Quiesce()
			switch {
			case !d1.Get() || !d2.Get():
				viol = append(viol, V(k("roots-hangs"), "ListRoots returned=%v, SendRequest returned=%v although the peer answered both by their ids; A's stream: %v; blocked: %v", d1.Get(), d2.Get(), A.StreamFrames(), vsched.LiveThreads()))
			case gerr != nil || rootsOf(got) != "file:///A":
				viol = append(viol, V(k("roots-crossed"), "ListRoots, pending together with another server request of the session: %q %v", rootsOf(got), gerr))
			case serr != nil || raw == nil || !strings.Contains(string(*raw), "to-the-ask"):
				r := "<nil>"
				if raw != nil {
					r = string(*raw)
				}
				viol = append(viol, V(k("roots-crossed"), "SendRequest, pending together with ListRoots of the same session, returned %s %v", r, serr))
			}
			obs.Add("roots=%s", rootsOf(got))
		case "two-sessions":
			var ga, gb *mcp.ListRootsResult
			var ea, eb error
			vsched.Go("list-roots-A", func() { ga, ea = w.listRoots(context.Background(), 0) })
			vsched.Go("list-roots-B", func() { gb, eb = w.listRoots(context.Background(), 1) })
			for i, p := range []*RawPeer{A, B} {
				i, p := i, p
				vsched.Go("peer", func() {
					id, ok := p.Await("roots/list", func(f string) bool { return strings.Contains(f, `"roots/list"`) })
					if ok {
						answer(p, string(rawIDOf(id)), fmt.Sprintf("file:///%c", 'A'+i))
					}
				})
			}
			vsched.Quiesce()
			if ea != nil || eb != nil || rootsOf(ga) != "file:///A" || rootsOf(gb) != "file:///B" {
				viol = append(viol, V(k("roots-crossed"), "concurrent ListRoots: A got %q (%v), B got %q (%v)", rootsOf(ga), ea, rootsOf(gb), eb))
			}
			obs.Add("A=%s B=%s", rootsOf(ga), rootsOf(gb))
		}
		if p := pendingOf(w.r); p != 0 {
			viol = append(viol, V(k("pending-left"), "%d server->client requests are still pending at quiescence", p))
		}
	})
	return finishOutcome(res, obs, viol, true)
}

func pendingOf(r *Rig) int {
	switch {
	case r.Server != nil:
		return mcp.VerifPending(r.Server)["serverRequests"]
	case r.SSE != nil:
		return mcp.VerifPending(r.SSE)["serverRequests"]
	case r.Stdio != nil:
		return mcp.VerifPending(r.Stdio)["serverRequests"]
	}
	return 0
}

func rawIDOf(frame string) json.RawMessage {
	var m struct {
		ID json.RawMessage `json:"id"`
	}
	json.Unmarshal([]byte(frame), &m)
	return m.ID
}

// c05Endings: deterministic: how a server-issued request ends (answer, error answer, ctx cancel,
// 30 s time-out) and that nothing stays pending.
func c05Endings(tier string, i int) CaseResult {
	modes := []string{"ss", "ls", "io"}
	ends := []string{"answer", "error-answer", "cancel", "timeout", "stream-closed"}
	mode, end := modes[i/len(ends)], ends[i%len(ends)]
	cr := CaseResult{Desc: fmt.Sprintf("mode=%s roots/list ends by %s", mode, end), Nontrivial: true}
	var viol []explore.Violation
	obs := &hx.Log{}
	k := func(s string) string { return s + ":" + mode + ":" + end }
	res := vsched.Run(vsched.Config{}, func() {
		var r *Rig
		var rp *RawPeer
		var call func(ctx context.Context) (*mcp.ListRootsResult, error)
		if mode == "io" {
			r = NewRig("io")
			var toolCtx context.Context
			got := &hx.Flag{}
			r.RegisterTool(mcp.NewTool("grab"), func(ctx context.Context, req *mcp.CallToolRequest) (*mcp.CallToolResult, error) {
				toolCtx = ctx
				got.Set()
				return mcp.NewTextResult("ok"), nil
			})
			r.Start()
			rp = NewRawPeer(r)
			if err := rp.Handshake(); err != nil {
				viol = append(viol, V("setup-handshake-fails", "setting the scenario up with well-behaved peers fails: %v", err))
				return
			}
			rp.Call(`{"jsonrpc":"2.0","id":5,"method":"tools/call","params":{"name":"grab"}}`, "5")
			call = func(ctx context.Context) (*mcp.ListRootsResult, error) {
				return r.Stdio.ListRoots(mergeCtx(ctx, toolCtx))
			}
		} else {
			w, err := c05New(mode, 1, true)
			if err != nil {
				viol = append(viol, V("setup-handshake-fails", "setting the scenario up with well-behaved peers fails: %v", err))
				return
			}
			r, rp = w.r, w.peers[0]
			call = func(ctx context.Context) (*mcp.ListRootsResult, error) { return w.listRoots(ctx, 0) }
		}
		ctx, cancel := vcontext.WithCancel(context.Background())
		var got *mcp.ListRootsResult
		var gerr error
		done := &hx.Flag{}
		vsched.Go("list-roots", func() { got, gerr = call(ctx); done.Set() })
		req, ok := rp.Await("roots/list", func(f string) bool { return strings.Contains(f, `"roots/list"`) })
		if !ok {
			viol = append(viol, V(k("request-not-sent"), "the roots/list request never appeared on the session's stream (err %v)", gerr))
			return
		}
		id := string(rawIDOf(req))
		switch end {
		case "answer":
			rp.PostOnly(fmt.Sprintf(`{"jsonrpc":"2.0","id":%s,"result":{"roots":[{"uri":"file:///x"}]}}`, id))
		case "error-answer":
			rp.PostOnly(fmt.Sprintf(`{"jsonrpc":"2.0","id":%s,"error":{"code":-32601,"message":"no roots here"}}`, id))
		case "cancel":
			cancel()
		case "timeout":
			vsched.Sleep(31e9)
		case "stream-closed":
			if rp.Stream != nil {
				rp.Stream.CloseFromClient()
			} else {
				cancel()
			}
		}
		vsched.Quiesce()
		if !done.Get() && end == "stream-closed" {
			// the request may legitimately wait for its time-out when only the stream went away
			vsched.Sleep(31e9)
			vsched.Quiesce()
		}
		switch {
		case !done.Get():
			viol = append(viol, V(k("roots-hangs"), "ListRoots did not return; blocked: %v", vsched.LiveThreads()))
		case end == "answer" && (gerr != nil || rootsOf(got) != "file:///x"):
			viol = append(viol, V(k("roots-wrong"), "ListRoots returned %q, %v", rootsOf(got), gerr))
		case end != "answer" && end != "error-answer" && gerr == nil: // (what an error answer becomes is not prescribed by the property)
			viol = append(viol, V(k("roots-no-error"), "ListRoots returned %q without error although the request ended by %s", rootsOf(got), end))
		}
		cancel()
		if p := pendingOf(r); p != 0 {
			viol = append(viol, V(k("pending-left"), "%d server->client requests still pending after the request ended by %s", p, end))
		}
		obs.Add("%v", gerr != nil)
	})
	o := finishOutcome(res, obs, viol, true)
	cr.ObsKey = cr.Desc + o.ObsKey
	cr.Violations = o.Violations
	cr.Broken = o.Broken
	return cr
}

// c05GiveUps: server-issued requests that are given up before they are even written (context
// already cancelled, parameters that cannot be encoded, a full event queue): they return an error
// and, like every other ending, leave nothing pending behind.
func c05GiveUps(tier string, i int) CaseResult {
	combos := [][2]string{{"ss", "pre-cancelled"}, {"ls", "pre-cancelled"}, {"ss", "unencodable-params"}, {"ls", "unencodable-params"}, {"ls", "queue-full"}} // (the Streamable server has no queue: a send to a stalled stream simply waits)
	mode, kind := combos[i][0], combos[i][1]
	cr := CaseResult{Desc: fmt.Sprintf("mode=%s server-issued request given up: %s (5 times)", mode, kind), Nontrivial: true}
	var viol []explore.Violation
	obs := &hx.Log{}
	k := func(s string) string { return s + ":" + mode + ":" + kind }
	res := vsched.Run(vsched.Config{}, func() {
		w, err := c05New(mode, 1, true)
		if err != nil {
			viol = append(viol, V("setup-handshake-fails", "setting the scenario up with well-behaved peers fails: %v", err))
			return
		}
		send := func(ctx context.Context, params interface{}) error {
			req := &mcp.JSONRPCRequest{JSONRPC: "2.0"} // the server assigns the id
			req.Method = "roots/list"
			req.Params = params
			var e error
			if w.r.SSE != nil {
				_, e = w.r.SSE.SendRequest(mergeCtx(ctx, mcp.VerifSessionContextSSE(w.r.SSE, w.sid(0))), w.sid(0), req)
			} else {
				_, e = w.r.Server.SendRequest(ctx, w.sid(0), req)
			}
			return e
		}
		if kind == "queue-full" {
			w.peers[0].Stream.Stall(true)
			for n := 0; n < 130; n++ {
				w.send(0, fmt.Sprintf("fill%d", n), 0)
			}
		}
		errs := 0
		for n := 0; n < 5; n++ {
			ctx, cancel := vcontext.WithCancel(context.Background())
			done := &hx.Flag{}
			var e error
			switch kind {
			case "pre-cancelled":
				cancel()
				vsched.Go("request", func() { e = send(ctx, nil); done.Set() })
			case "unencodable-params":
				vsched.Go("request", func() { e = send(ctx, map[string]interface{}{"c": make(chan int)}); done.Set() })
			case "queue-full":
				vsched.Go("request", func() { e = send(ctx, nil); done.Set() })
			}
			vsched.Quiesce()
			if !done.Get() { // a request that waits (e.g. behind a stalled reader) is given up by its caller
				cancel()
				vsched.Quiesce()
			}
			cancel()
			if !done.Get() {
				viol = append(viol, V(k("request-hangs"), "the request did not return after its context was cancelled; blocked: %v", vsched.LiveThreads()))
				return
			}
			if e != nil {
				errs++
			}
		}
		if kind != "queue-full" && errs != 5 {
			viol = append(viol, V(k("no-error"), "%d of 5 given-up requests returned without an error", 5-errs))
		}
		if kind == "queue-full" {
			w.peers[0].Stream.Stall(false)
		}
		vsched.Quiesce()
		if p := pendingOf(w.r); p != 0 {
			viol = append(viol, V(k("pending-left"), "%d server->client requests are still pending after 5 requests were given up (%s)", p, kind))
		}
		obs.Add("errs=%d", errs)
	})
	o := finishOutcome(res, obs, viol, true)
	cr.ObsKey = cr.Desc + o.ObsKey
	cr.Violations = o.Violations
	cr.Broken = o.Broken
	return cr
}

// ---- accounting BFS ---------------------------------------------------------------------

type c05Ev struct {
	Op string // open close delete send broadcast filtered
	S  int    // session index or subset bitmask for filtered
}

func (e c05Ev) String() string { return fmt.Sprintf("%s(%d)", e.Op, e.S) }

type c05M struct {
	Live, Open [3]bool
	Re         [3]bool // the open stream is a replacement of an earlier one (kept apart in the key: "a replaced stream behaves like a first one" is what is being checked, not assumed)
	Got        [3][]string
}

func (m c05M) key() string {
	return fmt.Sprintf("%v%v%v", m.Live, m.Open, m.Re)
}

func c05Events(m c05M) []c05Ev {
	var evs []c05Ev
	for s := 0; s < 3; s++ {
		if m.Live[s] {
			if m.Open[s] {
				evs = append(evs, c05Ev{"close", s})
				if !m.Re[s] {
					evs = append(evs, c05Ev{"reopen", s})
				}
			} else {
				evs = append(evs, c05Ev{"open", s})
			}
			evs = append(evs, c05Ev{"delete", s})
		}
		evs = append(evs, c05Ev{"send", s})
	}
	evs = append(evs, c05Ev{"broadcast", 0})
	for mask := 1; mask < 8; mask += 2 { // subsets {0}, {0,1}, {0,2}, {0,1,2} and complements via odd masks
		evs = append(evs, c05Ev{"filtered", mask}, c05Ev{"filtered", mask ^ 7})
	}
	return evs
}

func c05BFS(tier string, _ int) CaseResult {
	depth := 3
	if tier == "thorough" {
		depth = 4
	}
	cr := CaseResult{Desc: fmt.Sprintf("accounting BFS, 3 sessions, depth<=%d", depth), Nontrivial: true}
	type node struct {
		h []c05Ev
		m c05M
	}
	start := c05M{Live: [3]bool{true, true, true}}
	seen := map[string]bool{start.key(): true}
	frontier := []node{{nil, start}}
	states, trans := 1, 0
	vseen := map[string]bool{}
	for d := 0; d < depth; d++ {
		var next []node
		for _, n := range frontier {
			for _, ev := range c05Events(n.m) {
				h := append(append([]c05Ev(nil), n.h...), ev)
				viol, m2, broken := c05Replay(h)
				trans++
				if broken != "" {
					cr.Broken = broken
				}
				for _, v := range viol {
					if !vseen[v.Key] {
						vseen[v.Key] = true
						cr.Violations = append(cr.Violations, v)
					}
				}
				if k := m2.key(); !seen[k] {
					seen[k] = true
					states++
					next = append(next, node{h, m2})
				}
			}
		}
		frontier = next
	}
	cr.States, cr.Trans = states, trans
	cr.ObsKey = fmt.Sprintf("states=%d trans=%d", states, trans)
	return cr
}

func c05Replay(h []c05Ev) (viol []explore.Violation, m c05M, broken string) {
	m = c05M{Live: [3]bool{true, true, true}}
	res := vsched.Run(vsched.Config{}, func() {
		w, err := c05New("ss", 3, false)
		if err != nil {
			viol = append(viol, V("setup-handshake-fails", "setting the scenario up with well-behaved peers fails: %v", err))
			return
		}
		hs := ""
		for i, ev := range h {
			last := i == len(h)-1
			where := fmt.Sprintf("after %s: %s", hs, ev)
			hs += ev.String() + " "
			tag := fmt.Sprintf("t%d", i)
			switch ev.Op {
			case "open":
				w.peers[ev.S].OpenStream()
				m.Open[ev.S] = true
			case "reopen": // a second listening stream while the first is open: the new one takes over
				seen := w.notes(ev.S)
				old := w.peers[ev.S].Stream
				w.peers[ev.S].OpenStream()
				vsched.Quiesce()
				if w.carry == nil {
					w.carry = map[int][]string{}
				}
				w.carry[ev.S] = seen
				m.Re[ev.S] = true
				if last && old != nil && !old.HandlerDone {
					viol = append(viol, V("accounting:old-stream-open", "%s -> the replaced stream of session %d is still open", where, ev.S))
				}
			case "close":
				w.peers[ev.S].Stream.CloseFromClient()
				m.Open[ev.S], m.Re[ev.S] = false, false
			case "delete":
				w.peers[ev.S].P.Do("DELETE", w.r.URL, w.sid(ev.S), nil, nil)
				m.Live[ev.S], m.Open[ev.S], m.Re[ev.S] = false, false, false
			case "send":
				err := w.r.Server.SendNotification(w.sid(ev.S), "notifications/message", map[string]interface{}{"tag": tag})
				if m.Open[ev.S] {
					m.Got[ev.S] = append(m.Got[ev.S], tag)
				}
				if last && (err == nil) != m.Open[ev.S] {
					viol = append(viol, V("accounting:send-result", "%s -> err=%v but the session's stream open=%v", where, err, m.Open[ev.S]))
				}
			case "broadcast":
				n, err := w.r.Server.BroadcastNotification("notifications/message", map[string]interface{}{"tag": tag})
				want := 0
				for s := 0; s < 3; s++ {
					if m.Open[s] {
						want++
						m.Got[s] = append(m.Got[s], tag)
					}
				}
				if last && (n != want || (err != nil && want > 0)) {
					viol = append(viol, V("accounting:broadcast-count", "%s -> count=%d err=%v but %d sessions have an open stream", where, n, err, want))
				}
			case "filtered":
				sel := map[string]bool{}
				for s := 0; s < 3; s++ {
					if ev.S&(1<<s) != 0 {
						sel[w.sid(s)] = true
					}
				}
				ok, failed, err := w.r.Server.SendFilteredNotification("notifications/message", map[string]interface{}{"tag": tag}, func(id string) bool { return sel[id] })
				want := 0
				for s := 0; s < 3; s++ {
					if m.Open[s] && ev.S&(1<<s) != 0 {
						want++
						m.Got[s] = append(m.Got[s], tag)
					}
				}
				if last && (ok != want || (err != nil && want > 0)) {
					viol = append(viol, V("accounting:filtered-count", "%s -> ok=%d failed=%d err=%v but %d selected sessions have an open stream", where, ok, failed, err, want))
				}
			}
			vsched.Quiesce()
			if last {
				for s := 0; s < 3; s++ {
					got := w.notes(s)
					if strings.Join(got, ",") != strings.Join(m.Got[s], ",") {
						viol = append(viol, V("accounting:stream-content", "%s -> session %d's streams carried %v, expected %v", where, s, got, m.Got[s]))
					}
				}
				act, _ := w.r.Server.GetActiveSessions()
				wantLive := 0
				for s := 0; s < 3; s++ {
					if m.Live[s] {
						wantLive++
					}
				}
				if len(act) != wantLive {
					viol = append(viol, V("accounting:live", "%s -> %d live sessions, expected %d", where, len(act), wantLive))
				}
			}
		}
	})
	o := finishOutcome(res, &hx.Log{}, viol, true)
	return o.Violations, m, o.Broken
}

func init() {
	for _, mode := range []string{"ss", "ls"} {
		mode := mode
		for _, pad := range []int{0, 65537} {
			pad := pad
			RegisterScenario(&Scenario{Name: fmt.Sprintf("c05/notify/%s/pad%d", mode, pad), Run: func(p []int, m []vsched.ChoicePoint) explore.Outcome { return c05Notify(p, mode, pad) },
				Doc: "two sessions with open streams: Send(A,a1);Send(A,a2) || Broadcast || Filtered(only B)"})
		}
		for _, v := range []string{"foreign-answer", "two-sessions", "with-notification", "duplicate-answer", "two-kinds"} {
			v := v
			RegisterScenario(&Scenario{Name: fmt.Sprintf("c05/roots/%s/%s", mode, v), Run: func(p []int, m []vsched.ChoicePoint) explore.Outcome { return c05Roots(p, mode, v) },
				Doc: "server-issued roots/list: " + v})
		}
	}
	for _, mode := range []string{"ss", "ls"} {
		mode := mode
		RegisterScenario(&Scenario{Name: "c05/reused-params/" + mode, Run: func(p []int, m []vsched.ChoicePoint) explore.Outcome { return c05ReusedParams(p, mode) },
			Doc: "one parameter map sent three times (A, A, B) and changed between the sends while A's reader is stalled: every session receives what the map held at the time of its send"})
		RegisterScenario(&Scenario{Name: "c05/slow-reader/" + mode, Run: func(p []int, m []vsched.ChoicePoint) explore.Outcome { return c05SlowReader(p, mode) },
			Doc: "three notifications and a broadcast to a session whose reader stays away for 20 virtual seconds, then resumes: reported results agree with what arrives"})
		for _, n := range []int{3, 101, 103} {
			n := n
			RegisterScenario(&Scenario{Name: fmt.Sprintf("c05/backlog/%s/%d", mode, n), Run: func(p []int, m []vsched.ChoicePoint) explore.Outcome { return c05Backlog(p, mode, n) },
				Doc: fmt.Sprintf("%d notifications sent to a session whose stream reader stalls, then resumes (queue capacity of the legacy SSE session is 100)", n)})
		}
	}
	c20Extra = append(c20Extra, "c05/notify/ss/pad0", "c05/roots/ss/two-sessions", "c05/roots/ls/two-sessions")
	RegisterEnum(&Enum{Name: "c05/endings", Doc: "how a server-issued request ends (answer, error answer, ctx cancel, 30 s virtual time-out, stream closed) on Streamable, legacy SSE and stdio servers; nothing stays pending",
		Count: func(string) int { return 15 }, Eval: c05Endings})
	RegisterEnum(&Enum{Name: "c05/giveups", Doc: "server-issued requests given up before they are written (context already cancelled, unencodable parameters, full event queue behind a stalled reader), five in a row, on the Streamable and legacy SSE servers: an error is returned and nothing stays pending",
		Count: func(string) int { return 5 }, Eval: c05GiveUps})
	RegisterEnum(&Enum{Name: "c05/accounting", Doc: "BFS over {open, reopen, close, delete, send, broadcast, filtered(subset)} on 3 sessions with a reference model of who receives what and of the reported counts",
		Count: func(string) int { return 1 }, Eval: c05BFS})
	RegisterCheck("C05", func(c *Ctx) {
		c.Level = "exploration"
		c.Rule = "DFS (sleep-set reduced, preemption bounded) of concurrent SendNotification/Broadcast/Filtered/ListRoots with client posts from two sessions (one adversarial: it forges an answer with a guessed request id; one duplicating: it answers its request twice at once, after which the other session is asked); explicit-state BFS of send/broadcast/filtered accounting over open/close/delete histories against a reference model; enumeration of the ways a server-issued request ends; backlog scenarios (3, 101, 103 notifications to a session whose reader stalls and resumes: whatever was reported sent arrives once and in order)"
		c.Assume = append(c.Assume, "sessions are held by reference peers that read raw SSE frames", "virtual time for the 30 s request time-out", "memnet replaces net/http")
		for _, mode := range []string{"ss", "ls"} {
			c.DFSBoth(fmt.Sprintf("c05/notify/%s/pad0", mode), explore.Bounds{Preempt: c.Pick(2, 4), Dev: 1, MaxExec: c.Pick(6000, 300000)}, 1)
			c.DFS(fmt.Sprintf("c05/notify/%s/pad65537", mode), explore.Bounds{Preempt: c.Pick(1, 2), Dev: 1, POR: true, MaxExec: c.Pick(3000, 100000)})
			for _, v := range []string{"foreign-answer", "two-sessions", "with-notification", "duplicate-answer", "two-kinds"} {
				c.DFSBoth(fmt.Sprintf("c05/roots/%s/%s", mode, v), explore.Bounds{Preempt: c.Pick(2, 3), Dev: 1, MaxExec: c.Pick(6000, 300000)}, 1)
			}
		}
		for _, mode := range []string{"ss", "ls"} {
			c.DFS("c05/reused-params/"+mode, explore.Bounds{Preempt: c.Pick(1, 2), Dev: 0, POR: true, MaxExec: c.Pick(1500, 60000)})
			c.DFS("c05/slow-reader/"+mode, explore.Bounds{Preempt: c.Pick(1, 2), Dev: 0, POR: true, MaxExec: c.Pick(1500, 60000)})
			for _, n := range []int{3, 101, 103} {
				c.DFS(fmt.Sprintf("c05/backlog/%s/%d", mode, n), explore.Bounds{Preempt: c.Pick(1, 2), Dev: 0, POR: true, MaxExec: c.Pick(1500, 60000)})
			}
		}
		c.Enumerate("c05/endings")
		c.Enumerate("c05/giveups")
		c.Enumerate("c05/accounting")
	})
	_ = sort.Strings
}
