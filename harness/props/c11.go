package props

import (
	"context"
	"encoding/json"
	"fmt"
	"net/http"
	"sort"
	"strings"
	"verif.local/engine/vcontext"

	mcp "trpc.group/trpc-go/trpc-mcp-go"
	"verif.local/engine/explore"
	"verif.local/engine/memnet"
	"verif.local/engine/vsched"
	"verif.local/harness/hx"
)

// C11 — a newer listening stream owns the session; an old one's exit never evicts it.

func init() {
	RegisterScenario(&Scenario{Name: "c11/reopen-send", Run: func(p []int, m []vsched.ChoicePoint) explore.Outcome { return c11Run(p, "send") },
		Doc: "GET#1 registered; GET#2 handler || sender(SendNotification once GET#2 headers are in) ; then a send at quiescence"})
	RegisterScenario(&Scenario{Name: "c11/reopen-roots", Run: func(p []int, m []vsched.ChoicePoint) explore.Outcome { return c11Run(p, "roots") },
		Doc: "as reopen-send but the sender issues a roots/list request which the peer answers"})
	RegisterScenario(&Scenario{Name: "c11/reopen-close1", Run: func(p []int, m []vsched.ChoicePoint) explore.Outcome { return c11Run(p, "close1") },
		Doc: "as reopen-send plus a thread in which the client closes stream #1 concurrently"})
	RegisterScenario(&Scenario{Name: "c11/straddle", Run: func(p []int, m []vsched.ChoicePoint) explore.Outcome { return c11Run(p, "straddle") },
		Doc: "GET#1 registered; GET#2 handler || a SendNotification that waits for nothing (it straddles the replacement); afterwards stream #2 must be open, registered and reachable"})
	RegisterScenario(&Scenario{Name: "c11/straddle-stalled", Run: func(p []int, m []vsched.ChoicePoint) explore.Outcome { return c11Run(p, "straddle-stalled") },
		Doc: "as straddle, with the reader of stream #1 stalled so that the early send blocks inside its write while the stream is replaced"})
	RegisterScenario(&Scenario{Name: "c11/straddle-roots", Run: func(p []int, m []vsched.ChoicePoint) explore.Outcome { return c11Run(p, "straddle-roots") },
		Doc: "GET#1 registered; GET#2 handler || an early ListRoots (abandoned once GET#2 is up) || the client drops stream #1; afterwards stream #2 must be open, registered and reachable"})
	RegisterScenario(&Scenario{Name: "c11/client-reopen", Run: func(p []int, m []vsched.ChoicePoint) explore.Outcome { return c11ClientReopen(p) },
		Doc: "library client: stream #1's reader is inside a slow notification handler; Close; Initialize again; the handler returns; later sends must reach the client"})
	for _, m := range []string{"send", "roots"} {
		m := m
		RegisterScenario(&Scenario{Name: "c11/resume-" + m, Run: func(p []int, _ []vsched.ChoicePoint) explore.Outcome { return c11Run(p, "resume-"+m) },
			Doc: "as reopen-" + m + ", the new stream being opened with Last-Event-ID (a resuming client); Write/Flush on a ResponseWriter are non-atomic, concurrent use is reported"})
	}
	for _, m := range []string{"send", "roots"} {
		m := m
		RegisterScenario(&Scenario{Name: "c11/noinit-" + m, Run: func(p []int, _ []vsched.ChoicePoint) explore.Outcome { return c11Run(p, "noinit-"+m) },
			Doc: "as reopen-" + m + ", by a peer that never sent notifications/initialized"})
	}
	RegisterScenario(&Scenario{Name: "c11/roots-reopen", Run: func(p []int, _ []vsched.ChoicePoint) explore.Outcome { return c11Run(p, "roots-reopen") },
		Doc: "roots/list delivered on stream #2 is still unanswered when the client opens stream #3; the answer arrives by POST; ListRoots returns it"})
	RegisterScenario(&Scenario{Name: "c11/triple", Run: func(p []int, m []vsched.ChoicePoint) explore.Outcome { return c11Run(p, "triple") },
		Doc: "GET#1 registered; GET#2 || GET#3 opened concurrently; sends at quiescence must reach the surviving stream"})
	RegisterCheck("C11", func(c *Ctx) {
		c.Level = "exploration"
		c.Rule = "depth-first enumeration of all schedules (thread choice at every lock/channel/atomic/IO point) of the real handleGet/sendNotification code within the preemption bound; an execution is distinct by its observation vector (send results, frames per stream, table content)"
		c.Assume = append(c.Assume, "net/http replaced by memnet (headers reach the client at Flush)", "handshake prelude runs under the default schedule")
		pb := c.Pick(3, 6)
		c.DFSBoth("c11/reopen-send", explore.Bounds{Preempt: pb, Dev: 2}, 2)
		c.DFSBoth("c11/reopen-roots", explore.Bounds{Preempt: pb, Dev: 2}, 1)
		c.DFSBoth("c11/reopen-close1", explore.Bounds{Preempt: pb, Dev: 2}, 1)
		c.DFSBoth("c11/roots-reopen", explore.Bounds{Preempt: pb, Dev: 1, MaxExec: c.Pick(8000, 300000)}, 1)
		c.DFSBoth("c11/noinit-send", explore.Bounds{Preempt: pb, Dev: 1, MaxExec: c.Pick(8000, 300000)}, 1)
		c.DFSBoth("c11/noinit-roots", explore.Bounds{Preempt: pb, Dev: 1, MaxExec: c.Pick(8000, 300000)}, 1)
		c.DFSBoth("c11/resume-send", explore.Bounds{Preempt: pb, Dev: 1, MaxExec: c.Pick(8000, 300000)}, 1)
		c.DFSBoth("c11/resume-roots", explore.Bounds{Preempt: pb, Dev: 1, MaxExec: c.Pick(8000, 300000)}, 1)
		c.DFSBoth("c11/triple", explore.Bounds{Preempt: c.Pick(3, 5), Dev: 1}, 1)
		c.DFSBoth("c11/straddle", explore.Bounds{Preempt: c.Pick(3, 5), Dev: 1}, 1)
		c.DFSBoth("c11/straddle-stalled", explore.Bounds{Preempt: c.Pick(3, 5), Dev: 1}, 1)
		c.DFS("c11/client-reopen", explore.Bounds{Preempt: c.Pick(2, 3), Dev: 0, POR: true, MaxExec: c.Pick(3000, 100000)})
		c.DFSBoth("c11/straddle-roots", explore.Bounds{Preempt: c.Pick(3, 4), Dev: 1, MaxExec: c.Pick(8000, 300000)}, 1)
	})
}

// c11ClientReopen: the library's own client re-opens its listening stream (Close, then Initialize
// again) while the reader goroutine of its first stream is still inside a slow notification
// handler. When that goroutine finally unwinds, it must remove only itself: what the server sends
// to the session afterwards still arrives.
func c11ClientReopen(prefix []int) explore.Outcome {
	var viol []explore.Violation
	obs := &hx.Log{}
	res := vsched.Run(cfgFor(prefix), func() {
		vsched.SetBranching(false)
		r := NewRig("ss")
		r.Start()
		cl, err := r.Connect(mcp.WithClientGetSSEEnabled(true))
		if err != nil {
			viol = append(viol, V("setup-handshake-fails", "setting the scenario up with well-behaved peers fails: %v", err))
			return
		}
		gate, entered := &hx.Flag{}, &hx.Flag{}
		got := &hx.Log{}
		cl.RegisterNotificationHandler("notifications/slow", func(n *mcp.JSONRPCNotification) error {
			entered.Set()
			gate.Wait("slow notification handler on stream #1")
			return nil
		})
		sc := cl.(mcp.SessionClient)
		vsched.Quiesce()
		sid := sc.GetSessionID()
		if err := r.Server.SendNotification(sid, "notifications/slow", map[string]interface{}{}); err != nil {
			viol = append(viol, V("client-reopen:first-stream", "the client's first listening stream is not up: %v", err))
			return
		}
		vsched.Quiesce()
		if !entered.Get() {
			viol = append(viol, V("client-reopen:first-stream", "the slow handler was never entered"))
			return
		}
		closed := &hx.Flag{}
		vsched.Go("close", func() { cl.Close(); closed.Set() })
		vsched.Quiesce()
		if !closed.Get() {
			viol = append(viol, V("client-reopen:close-hangs", "Close did not return while a notification handler is running; blocked: %v", vsched.LiveThreads()))
			return
		}
		// (Close forgets the registered handlers: the handler for the second life is registered now)
		cl.RegisterNotificationHandler("notifications/seq", func(n *mcp.JSONRPCNotification) error {
			got.Add("%v", n.Params.AdditionalFields["n"])
			return nil
		})
		var ierr error
		idone := &hx.Flag{}
		vsched.Go("init2", func() { _, ierr = cl.Initialize(context.Background(), &mcp.InitializeRequest{}); idone.Set() })
		vsched.Quiesce()
		if !idone.Get() || ierr != nil {
			viol = append(viol, V("client-reopen:second-handshake", "Initialize after Close: done=%v err=%v", idone.Get(), ierr))
			return
		}
		sid2 := sc.GetSessionID()
		if err := r.Server.SendNotification(sid2, "notifications/seq", map[string]interface{}{"n": "warmup"}); err != nil {
			viol = append(viol, V("client-reopen:second-stream", "the client's second listening stream is not up: %v", err))
			return
		}
		vsched.Quiesce()
		vsched.SetBranching(true)
		gate.Set() // the first stream's goroutine unwinds now
		vsched.Quiesce()
		for i := 0; i < 2; i++ {
			if err := r.Server.SendNotification(sid2, "notifications/seq", map[string]interface{}{"n": i}); err != nil {
				viol = append(viol, V("client-reopen:send-fails", "after the first stream's goroutine unwound, SendNotification to the session fails: %v", err))
				break
			}
			vsched.Quiesce()
		}
		if items := strings.Join(got.Items(), ","); items != "warmup,0,1" && len(viol) == 0 {
			viol = append(viol, V("client-reopen:delivery", "the client's handler received [%s], sent warmup,0,1", items))
		}
		// a request the server issues inside the session is delivered on the new stream and answered
		if rs, ok := cl.(interface{ SetRootsProvider(mcp.RootsProvider) }); ok && len(viol) == 0 {
			rs.SetRootsProvider(staticRoots{[]mcp.Root{{URI: "file:///second-life"}}})
			var roots *mcp.ListRootsResult
			var rerr error
			rdone := &hx.Flag{}
			vsched.Go("list-roots", func() { roots, rerr = r.Server.ListRoots(hx.SessionCtx(r.Server, sid2)); rdone.Set() })
			vsched.Quiesce()
			switch {
			case !rdone.Get():
				viol = append(viol, V("client-reopen:roots-unanswered", "after the first stream's goroutine unwound, roots/list sent to the session on its new stream is never answered by the client; blocked: %v", vsched.LiveThreads()))
			case rerr != nil || rootsOf(roots) != "file:///second-life":
				viol = append(viol, V("client-reopen:roots-wrong", "roots/list on the new stream: %q %v", rootsOf(roots), rerr))
			}
		}
		gets := ""
		for _, x := range r.Fab.Log() {
			if x.Method == "GET" {
				gets += fmt.Sprintf("[GET st=%d done=%v gone=%v frames=%d]", x.Status, x.HandlerDone, x.ClientGone, len(hx.DataFrames(x.Body())))
			}
		}
		obs.Add("same-session=%v got=%v %s", sid == sid2, got.Items(), gets)
	})
	return finishOutcome(res, obs, viol, true)
}

func findNote(frames []string, n int) int {
	cnt := 0
	for _, f := range frames {
		var m map[string]interface{}
		if json.Unmarshal([]byte(f), &m) != nil {
			continue
		}
		if p, ok := m["params"].(map[string]interface{}); ok {
			if v, ok := p["n"].(float64); ok && int(v) == n {
				cnt++
			}
		}
	}
	return cnt
}

func c11Run(prefix []int, mode string) explore.Outcome {
	var viol []explore.Violation
	obs := &hx.Log{}
	// resume-*: the new stream is opened the way a reconnecting client opens it, with the id of the
	// last event it saw (Last-Event-ID); the server's own greeting on the resumed stream and the sends
	// addressed to the session then meet on one ResponseWriter, whose concurrent use is reported
	var get2Hdr map[string]string
	if strings.HasPrefix(mode, "resume-") {
		mode = strings.TrimPrefix(mode, "resume-")
		get2Hdr = map[string]string{"Last-Event-ID": "evt-1-1"}
		defer nonAtomicWriters()()
	}
	// noinit-*: a peer that never sends notifications/initialized after its initialize (nothing in the
	// property makes the ownership of a listening stream depend on it)
	noInit := false
	if strings.HasPrefix(mode, "noinit-") {
		mode = strings.TrimPrefix(mode, "noinit-")
		noInit = true
	}
	res := vsched.Run(cfgFor(prefix), func() {
		vsched.SetBranching(false)
		srv := mcp.NewServer("s", "1", mcp.WithServerLogger(hx.Nop{}))
		fab := memnet.NewFabric("srv", srv.Handler())
		peer := hx.NewPeer(fab, "http://srv/mcp")
		var sid string
		var err error
		if noInit {
			r0 := peer.Post("", hx.InitBody(1, "2025-03-26"))
			sid, err = r0.SessionID(), r0.Err
			if err == nil && (r0.Status != 200 || sid == "") {
				err = fmt.Errorf("initialize: status %d", r0.Status)
			}
		} else {
			sid, err = peer.Handshake()
		}
		if err != nil {
			viol = append(viol, V("harness", "handshake failed: %v", err))
			return
		}
		_, x1, err := peer.Open(context.Background(), http.MethodGet, peer.URL, sid, nil, nil)
		if err != nil {
			viol = append(viol, V("harness", "GET#1 failed: %v", err))
			return
		}
		vsched.Quiesce() // GET#1 handler is now parked on its context
		vsched.SetBranching(true)

		var x2, x3 *memnet.Exchange
		var g2 hx.Flag
		var sendErr, rootsErr error
		var roots *mcp.ListRootsResult
		sent := &hx.Flag{}
		vsched.Go("get2", func() {
			_, x, err := peer.Open(context.Background(), http.MethodGet, peer.URL, sid, nil, get2Hdr)
			if err != nil {
				obs.Add("get2-err:%v", err)
			}
			x2 = x
			g2.Set()
		})
		switch mode {
		case "send", "close1":
			vsched.Go("sender", func() {
				g2.Wait("await GET#2 headers")
				sendErr = srv.SendNotification(sid, "notifications/message", map[string]interface{}{"n": 1})
				sent.Set()
			})
		case "roots":
			srvctx := hx.SessionCtx(srv, sid)
			vsched.Go("sender", func() {
				g2.Wait("await GET#2 headers")
				roots, rootsErr = srv.ListRoots(srvctx)
				sent.Set()
			})
			vsched.Go("answerer", func() {
				// the peer answers the roots/list request wherever it shows up (stream #2 is the only
				// one it still reads once it has GET#2's headers)
				g2.Wait("await GET#2 headers")
				id := hx.AwaitRequestID(x2, "roots/list")
				if id == "" {
					return
				}
				peer.Post(sid, fmt.Sprintf(`{"jsonrpc":"2.0","id":%s,"result":{"roots":[{"uri":"file:///r","name":"r"}]}}`, id))
			})
		case "roots-reopen":
			// a request the server issued on stream #2 is still unanswered when the client reopens its
			// listening stream once more; the answer then arrives by POST as always
			srvctx := hx.SessionCtx(srv, sid)
			vsched.Go("sender", func() {
				g2.Wait("await GET#2 headers")
				roots, rootsErr = srv.ListRoots(srvctx)
				sent.Set()
			})
			vsched.Go("reopen-then-answer", func() {
				g2.Wait("await GET#2 headers")
				id := hx.AwaitRequestID(x2, "roots/list")
				if id == "" {
					return
				}
				_, x, err := peer.Open(context.Background(), http.MethodGet, peer.URL, sid, nil, nil)
				if err != nil {
					obs.Add("get3-err:%v", err)
				}
				x3 = x
				peer.Post(sid, fmt.Sprintf(`{"jsonrpc":"2.0","id":%s,"result":{"roots":[{"uri":"file:///r","name":"r"}]}}`, id))
			})
		case "triple":
			vsched.Go("get3", func() {
				_, x, err := peer.Open(context.Background(), http.MethodGet, peer.URL, sid, nil, nil)
				if err != nil {
					obs.Add("get3-err:%v", err)
				}
				x3 = x
			})
		}
		if mode == "straddle" || mode == "straddle-stalled" {
			// a send that does not wait for anything: it may look the stream up before, during or after
			// the replacement. Its own fate is not constrained (the old stream may swallow it); what
			// it must not do is damage the new stream.
			if mode == "straddle-stalled" {
				x1.Stall(true) // the old stream's reader is slow: the send blocks inside its Write
			}
			vsched.Go("early-sender", func() {
				srv.SendNotification(sid, "notifications/message", map[string]interface{}{"n": 7})
			})
		}
		if mode == "straddle-roots" {
			// a server-issued request that waits for nothing, while the client drops stream #1: its write
			// on the old stream may fail; that failure must not cost the session its new stream
			srvctx := hx.SessionCtx(srv, sid)
			vsched.Go("early-roots", func() {
				ctx, cancel := vcontext.WithCancel(srvctx)
				defer cancel()
				vsched.Go("roots-abandon", func() { g2.Wait("await GET#2 headers"); cancel() })
				srv.ListRoots(ctx)
			})
			vsched.Go("close1", func() { x1.CloseFromClient() })
		}
		if mode == "close1" {
			vsched.Go("close1", func() { x1.CloseFromClient() })
		}
		vsched.Quiesce()

		if mode == "straddle-stalled" {
			x1.Stall(false)
			vsched.Quiesce()
		}

		// ---- oracle ----
		if x2 == nil || !x2.HeaderSent {
			viol = append(viol, V("get2-no-headers", "GET#2 got no response headers: %s", obs))
			return
		}
		f1 := hx.DataFrames(x1.Delivered())
		f2 := hx.DataFrames(x2.Delivered())
		switch mode {
		case "send", "close1":
			if !sent.Get() {
				viol = append(viol, V("send-hangs", "SendNotification did not return"))
			} else if sendErr != nil {
				viol = append(viol, V("send-after-headers-fails", "SendNotification after GET#2 headers were received failed: %v", sendErr))
			} else {
				if findNote(f2, 1) != 1 {
					viol = append(viol, V("send-not-on-new-stream", "notification sent after GET#2 headers: %d copies on new stream, %d on old stream (send returned nil)", findNote(f2, 1), findNote(f1, 1)))
				}
				if findNote(f1, 1) != 0 {
					viol = append(viol, V("send-on-old-stream", "notification sent after GET#2 headers appeared on the old stream"))
				}
			}
		case "roots", "roots-reopen":
			if !sent.Get() {
				viol = append(viol, V("roots-hangs", "ListRoots did not return (blocked: %v)", vsched.LiveThreads()))
			} else if rootsErr != nil {
				viol = append(viol, V("roots-after-headers-fails", "ListRoots after GET#2 headers were received failed: %v", rootsErr))
			} else if roots == nil || len(roots.Roots) != 1 || roots.Roots[0].URI != "file:///r" {
				viol = append(viol, V("roots-wrong", "ListRoots returned %+v", roots))
			}
		}
		if mode != "triple" && mode != "roots-reopen" {
			if !x1.HandlerDone {
				viol = append(viol, V("old-stream-open", "stream #1 was not closed after GET#2"))
			}
			// a send at quiescence must succeed and arrive on stream #2
			err = srv.SendNotification(sid, "notifications/message", map[string]interface{}{"n": 2})
			f2 = hx.DataFrames(x2.Delivered())
			if err != nil {
				viol = append(viol, V("quiescent-send-fails", "with stream #2 open and stream #1 gone SendNotification fails: %v", err))
			} else if findNote(f2, 2) != 1 {
				viol = append(viol, V("quiescent-send-lost", "send at quiescence returned nil but stream #2 carries %d copies", findNote(f2, 2)))
			}
			ids := mcp.VerifGetStreamSessions(srv)
			if len(ids) != 1 || ids[0] != sid {
				viol = append(viol, V("table", "listening-stream table = %v, want exactly the session", ids))
			}
		} else {
			// exactly one of the streams survives and receives a send
			open := 0
			var live *memnet.Exchange
			for _, x := range []*memnet.Exchange{x1, x2, x3} {
				if x != nil && x.HeaderSent && !x.HandlerDone {
					open++
					live = x
				}
			}
			err = srv.SendNotification(sid, "notifications/message", map[string]interface{}{"n": 2})
			if open != 1 {
				viol = append(viol, V("triple-open-count", "%d streams remain open after two reopen requests, want 1", open))
			} else if err != nil {
				viol = append(viol, V("quiescent-send-fails", "one stream is open but SendNotification fails: %v", err))
			} else if findNote(hx.DataFrames(live.Delivered()), 2) != 1 {
				viol = append(viol, V("quiescent-send-lost", "send at quiescence did not reach the surviving stream"))
			}
		}
		obs.Add("sendErr=%v rootsErr=%v f1=%d f2=%d x1done=%v tbl=%v", sendErr != nil, rootsErr != nil, len(f1), len(f2), x1.HandlerDone, len(mcp.VerifGetStreamSessions(srv)))
	})
	return finishOutcome(res, obs, viol, true)
}

// finishOutcome adds the generic checks (panic, deadlock, horizon, divergence) and builds the outcome.
func finishOutcome(res *vsched.Result, obs *hx.Log, viol []explore.Violation, nontrivial bool) explore.Outcome {
	o := explore.Outcome{Trace: res.Trace, Nontrivial: nontrivial, Pruned: res.Pruned}
	if res.Pruned {
		return o
	}
	if res.Divergence != "" {
		o.Broken = "replay divergence: " + res.Divergence
	}
	for _, p := range res.Panics {
		key := "panic:" + panicSite(p.Stack)
		viol = append(viol, explore.Violation{Key: key, Msg: fmt.Sprintf("panic in %s: %s", p.Thread, p.Value), Detail: map[string]interface{}{"stack": p.Stack}})
	}
	if res.Deadlock {
		sort.Strings(res.Blocked)
		viol = append(viol, V("deadlock", "deadlock: %v", res.Blocked))
	}
	viol = append(viol, raceViolations()...)
	viol = append(viol, misuseViolations()...)
	if res.Horizon {
		viol = append(viol, V("horizon", "step horizon exceeded (livelock/spin?): %v", res.Blocked))
	}
	keys := violKeys(viol)
	o.ObsKey = obs.String() + " #" + strings.Join(keys, ",")
	o.Violations = viol
	return o
}

// misuse of the environment's objects reported by memnet during the execution just finished
// (concurrent use of one http.ResponseWriter, see memnet.NonAtomicWriter).
var misuseLog []explore.Violation

func init() {
	memnet.OnMisuse = func(key, msg string) {
		for _, v := range misuseLog {
			if v.Key == key {
				return
			}
		}
		misuseLog = append(misuseLog, explore.Violation{Key: key, Msg: msg})
	}
}

func misuseViolations() []explore.Violation {
	out := misuseLog
	misuseLog = nil
	return out
}

// nonAtomicWriters switches the non-atomic ResponseWriter model on for the duration of one execution.
func nonAtomicWriters() func() {
	memnet.NonAtomicWriter = true
	return func() { memnet.NonAtomicWriter = false }
}

// panicSite extracts the first library frame of a panic stack (stable key for known findings).
func panicSite(stack string) string {
	lines := strings.Split(stack, "\n")
	for _, l := range lines {
		l = strings.TrimSpace(l)
		if strings.HasPrefix(l, "trpc.group/trpc-go/trpc-mcp-go") && !strings.Contains(l, ".Verif") {
			if i := strings.LastIndex(l, "("); i > 0 { // drop the argument list
				l = l[:i]
			}
			l = strings.TrimPrefix(l, "trpc.group/trpc-go/trpc-mcp-go")
			return strings.TrimLeft(l, "./")
		}
	}
	return "unknown"
}
