package props

import (
	"context"
	"encoding/json"
	"errors"
	"fmt"
	"io"
	"sort"
	"strings"
	"unsafe"

	mcp "trpc.group/trpc-go/trpc-mcp-go"
	"verif.local/engine/explore"
	"verif.local/engine/vsched"
	"verif.local/harness/hx"
)

// C07 — clients survive arbitrary server output.

type c07Elem struct {
	Name string
	// Emit writes the adversarial element on w. framed=true: as a frame of the transport
	// (SSE event / line / body part); otherwise raw bytes.
	Emit func(w scriptWriter, mode string)
	Only string // restrict to modes containing this substring ("" = all)
	Big  bool
	Cut  bool // the element ends the channel it is written on (the server's output simply stops there)
}

func c07Elems(tier string) []c07Elem {
	frame := func(name, j string) c07Elem {
		return c07Elem{Name: name, Emit: func(w scriptWriter, mode string) { w.Frame(j) }}
	}
	raw := func(name, b string, only string) c07Elem {
		return c07Elem{Name: name, Only: only, Emit: func(w scriptWriter, mode string) { w.Raw(b) }}
	}
	big := func(n int) string { return strings.Repeat("z", n) }
	out := []c07Elem{
		raw("garbage-bytes", "\x00\xff\xfe\x01 garbage \x7f\n", ""),
		frame("non-json", "this is not json"),
		frame("json-array", `[]`), frame("json-number", `1`), frame("json-string", `"s"`), frame("json-null", `null`), frame("json-true", `true`),
		frame("empty-object", `{}`),
		frame("request-unknown-method", `{"jsonrpc":"2.0","id":99,"method":"foo/bar"}`),
		frame("request-roots-list", `{"jsonrpc":"2.0","id":98,"method":"roots/list"}`),
		frame("request-string-id", `{"jsonrpc":"2.0","id":"srv-1","method":"foo/bar"}`),
		frame("notification-unknown", `{"jsonrpc":"2.0","method":"x/y","params":{"a":1}}`),
		frame("notification-params-array", `{"jsonrpc":"2.0","method":"notifications/message","params":[1,2]}`),
		frame("notification-params-string", `{"jsonrpc":"2.0","method":"notifications/message","params":"s"}`),
		frame("response-unknown-id", `{"jsonrpc":"2.0","id":424242,"result":{}}`),
		frame("response-id-string", `{"jsonrpc":"2.0","id":"2","result":{"content":[]}}`),
		frame("response-id-float", `{"jsonrpc":"2.0","id":2.5,"result":{}}`),
		frame("response-id-true", `{"jsonrpc":"2.0","id":true,"result":{}}`),
		frame("response-id-array", `{"jsonrpc":"2.0","id":[2],"result":{}}`),
		frame("response-id-object", `{"jsonrpc":"2.0","id":{"a":1},"result":{}}`),
		frame("response-id-null", `{"jsonrpc":"2.0","id":null,"result":{}}`),
		frame("response-no-id", `{"jsonrpc":"2.0","result":{}}`),
		frame("response-result-and-error", `{"jsonrpc":"2.0","id":424243,"result":{},"error":{"code":-1,"message":"x"}}`),
		frame("response-neither", `{"jsonrpc":"2.0","id":424244}`),
		frame("error-unknown-id", `{"jsonrpc":"2.0","id":424245,"error":{"code":-32000,"message":"boo"}}`),
		frame("error-malformed", `{"jsonrpc":"2.0","id":424246,"error":"not an object"}`),
		frame("wrong-version", `{"jsonrpc":"1.0","id":424247,"result":{}}`),
		frame("deep-nesting", `{"jsonrpc":"2.0","method":"x/y","params":`+strings.Repeat(`{"a":`, 2000)+`1`+strings.Repeat(`}`, 2000)+`}`),
		{Name: "frame-65537", Big: true, Emit: func(w scriptWriter, mode string) {
			w.Frame(`{"jsonrpc":"2.0","method":"x/big","params":{"d":"` + big(65537) + `"}}`)
		}},
		// SSE-specific
		raw("sse-comment", ": just a comment\n\n", "s"),
		raw("sse-blank-lines", "\n\n\n\n", "s"),
		raw("sse-unknown-event", "event: weird\ndata: {\"x\":1}\n\n", "s"),
		raw("sse-crlf-event", "event: message\r\ndata: {\"jsonrpc\":\"2.0\",\"method\":\"x/y\"}\r\n\r\n", "s"),
		raw("sse-data-split", "event: message\ndata: {\"jsonrpc\":\"2.0\",\ndata: \"method\":\"x/y\"}\n\n", "s"),
		raw("sse-id-only", "id: 77\n\n", "s"),
		raw("sse-data-no-space", "event: message\ndata:{\"jsonrpc\":\"2.0\",\"method\":\"x/y\"}\n\n", "s"),
		raw("sse-retry-field", "retry: 10\n\n", "s"),
		// event ids a client may later echo in a Last-Event-ID header: control bytes, NUL, non-ASCII, very long
		raw("sse-id-control-byte", "id: a\x01b\ndata: {\"jsonrpc\":\"2.0\",\"method\":\"x/y\"}\n\n", "s"),
		raw("sse-id-nul", "id: a\x00b\ndata: {\"jsonrpc\":\"2.0\",\"method\":\"x/y\"}\n\n", "s"),
		raw("sse-id-del", "id: a\x7fb\ndata: {\"jsonrpc\":\"2.0\",\"method\":\"x/y\"}\n\n", "s"),
		raw("sse-id-non-ascii", "id: caf\xc3\xa9-\xe2\x80\xa8\ndata: {\"jsonrpc\":\"2.0\",\"method\":\"x/y\"}\n\n", "s"),
		raw("sse-id-cr", "id: a\rid: b\ndata: {\"jsonrpc\":\"2.0\",\"method\":\"x/y\"}\n\n", "s"),
		raw("sse-id-8KiB", "id: "+big(8192)+"\ndata: {\"jsonrpc\":\"2.0\",\"method\":\"x/y\"}\n\n", "s"),
		raw("sse-second-endpoint", "event: endpoint\ndata: /message?sessionId=s2\n\n", "ls"),
		raw("sse-endpoint-bad-url", "event: endpoint\ndata: http://[::1\n\n", "ls"),
		raw("sse-endpoint-empty", "event: endpoint\ndata: \n\n", "ls"),
		// stdio-specific
		raw("stdio-blank-lines", "\n\n\n", "io"),
		raw("stdio-cr-only", "\r\r\r\n", "io"),
		raw("stdio-two-objects-one-line", `{"jsonrpc":"2.0","method":"x/y"}{"jsonrpc":"2.0","method":"x/z"}`+"\n", "io"),
		raw("stdio-bom", "\xef\xbb\xbf\n", "io"),
	}
	// the output stops: in the middle of a frame or between frames, with an orderly end of the
	// connection or with a transport error (what a reader sees when the peer dies)
	half := func(mode string) string {
		switch mode {
		case "ss":
			return "id: evt-9\ndata: {\"jsonrpc\":\"2.0\",\"id\""
		case "ls":
			return "event: message\ndata: {\"jsonrpc\":\"2.0\",\"id\""
		}
		return `{"jsonrpc":"2.0","id"`
	}
	for _, c := range []struct {
		name string
		half bool
		err  error
	}{
		{"cut-mid-frame-then-eof", true, io.EOF},
		{"cut-mid-frame-then-unexpected-eof", true, io.ErrUnexpectedEOF},
		{"cut-mid-frame-then-reset", true, errors.New("read tcp 10.0.0.1:1234->10.0.0.2:80: read: connection reset by peer")},
		{"cut-between-frames-then-unexpected-eof", false, io.ErrUnexpectedEOF},
		{"cut-between-frames-then-reset", false, errors.New("read tcp 10.0.0.1:1234->10.0.0.2:80: read: connection reset by peer")},
	} {
		c := c
		out = append(out, c07Elem{Name: c.name, Cut: true, Emit: func(w scriptWriter, mode string) {
			raw := ""
			if c.half {
				raw = half(mode)
			}
			w.WritePartial(raw, c.err)
		}})
	}
	if tier == "thorough" {
		out = append(out, c07Elem{Name: "frame-1MiB", Big: true, Emit: func(w scriptWriter, mode string) {
			w.Frame(`{"jsonrpc":"2.0","method":"x/big","params":{"d":"` + big(1<<20) + `"}}`)
		}})
	}
	return out
}

var c07Points = []string{"before-answer", "after-answer", "idle-stream", "during-handshake"}
var c07Modes = []string{"sj", "ss", "ls", "io"}

type c07Case struct {
	Mode, Point string
	Elem        c07Elem
	Elem2       *c07Elem
}

func c07Cases(tier string) []c07Case {
	var out []c07Case
	els := c07Elems(tier)
	for _, m := range c07Modes {
		for _, p := range c07Points {
			for _, e := range els {
				if e.Only != "" && !strings.Contains(m, e.Only) {
					continue
				}
				if m == "sj" && p != "idle-stream" && strings.HasPrefix(e.Name, "sse-") {
					continue // a JSON body is not an SSE stream
				}
				out = append(out, c07Case{m, p, e, nil})
			}
		}
	}
	if tier == "thorough" {
		// pairs of elements before the answer
		for _, m := range c07Modes {
			for i := range els {
				for j := range els {
					a, b := els[i], els[j]
					if a.Big || b.Big || a.Cut || b.Cut || (a.Only != "" && !strings.Contains(m, a.Only)) || (b.Only != "" && !strings.Contains(m, b.Only)) {
						continue
					}
					if m == "sj" {
						continue
					}
					bb := b
					out = append(out, c07Case{m, "before-answer", a, &bb})
				}
			}
		}
	}
	// HTTP-level answers
	for _, m := range []string{"sj", "ss"} {
		for _, h := range []struct {
			name   string
			status int
			ct     string
			body   string
		}{
			{"http-200-empty-body", 200, "application/json", ""},
			{"http-200-wrong-content-type", 200, "text/html", "<html>hello</html>"},
			{"http-200-no-content-type", 200, "", `{"jsonrpc":"2.0","id":2,"result":{"content":[{"type":"text","text":"first"}]}}`},
			{"http-202-to-request", 202, "", ""},
			{"http-204", 204, "", ""},
			{"http-404-json-body", 404, "application/json", `{"jsonrpc":"2.0","id":2,"error":{"code":-32000,"message":"gone"}}`},
			{"http-500-text", 500, "text/plain", "internal"},
			{"http-301", 301, "text/plain", "moved"},
			{"http-200-sse-empty", 200, "text/event-stream", ""},
			{"http-200-sse-only-comment", 200, "text/event-stream", ": nothing\n\n"},
		} {
			h := h
			out = append(out, c07Case{m, "http-answer", c07Elem{Name: h.name, Emit: func(w scriptWriter, mode string) { w.HTTP(h.status, h.ct, h.body) }}, nil})
		}
	}
	// legacy SSE: the element arrives in the same burst as the endpoint event (after it / before it)
	for _, p := range []string{"at-connect", "before-endpoint"} {
		for _, e := range els {
			if e.Only != "" && !strings.Contains("ls", e.Only) {
				continue
			}
			out = append(out, c07Case{"ls", p, e, nil})
		}
	}
	// legacy SSE: answers that overtake the acknowledgement of their POST, duplicated, with the POST then refused
	for _, p := range []string{"early-answer", "early-answer-twice", "early-answer-thrice", "early-answer-twice-then-500", "early-answer-then-500"} {
		for _, e := range els {
			if e.Name == "sse-comment" || e.Name == "response-unknown-id" || e.Name == "notification-unknown" {
				out = append(out, c07Case{"ls", p, e, nil})
			}
		}
	}
	// the server writes the element on the channel of the answer and then falls silent, leaving that
	// channel open: the call stays pending, but the client as a whole stays usable
	for _, m := range c07Modes {
		for _, e := range els {
			switch e.Name {
			case "sse-comment", "response-unknown-id", "notification-unknown", "non-json", "sse-blank-lines", "stdio-blank-lines":
				if e.Only != "" && !strings.Contains(m, e.Only) {
					continue
				}
				if m == "sj" && strings.HasPrefix(e.Name, "sse-") {
					continue
				}
				out = append(out, c07Case{m, "stalled-answer", e, nil})
			}
		}
	}
	// legacy SSE: the endpoint event never arrives / arrives late
	out = append(out, c07Case{"ls", "no-endpoint", c07Elem{Name: "missing-endpoint", Emit: func(w scriptWriter, mode string) { w.Raw(": hello\n\n") }}, nil})
	return out
}

func c07Eval(tier string, cs c07Case) CaseResult {
	cr, _ := c07Exec(cs, vsched.Config{MaxSteps: 60000})
	return cr
}

// c07Exec runs one adversarial case under the given scheduler configuration (default schedule for the
// enumeration, a replayed prefix for the schedule-exploring scenarios).
func c07Exec(cs c07Case, cfg vsched.Config) (CaseResult, explore.Outcome) {
	name := cs.Elem.Name
	if cs.Elem2 != nil {
		name += "+" + cs.Elem2.Name
	}
	cr := CaseResult{Desc: fmt.Sprintf("mode=%s point=%s element=%s", cs.Mode, cs.Point, name), Nontrivial: true}
	var viol []explore.Violation
	obs := &hx.Log{}
	k := func(kind string) string { return fmt.Sprintf("%s:%s:%s:%s", kind, cs.Mode, cs.Point, name) }
	if cfg.MaxSteps == 0 {
		cfg.MaxSteps = 60000
	}
	res := vsched.Run(cfg, func() {
		ss := newScriptedServer(cs.Mode)
		emit := func(w scriptWriter) {
			cs.Elem.Emit(w, cs.Mode)
			if cs.Elem2 != nil {
				cs.Elem2.Emit(w, cs.Mode)
			}
		}
		callN := 0
		answer := func(w scriptWriter, id string, text string) {
			w.Frame(fmt.Sprintf(`{"jsonrpc":"2.0","id":%s,"result":{"content":[{"type":"text","text":%q}]}}`, id, text))
		}
		ss.onRequest = func(msg map[string]interface{}, rawMsg string, w scriptWriter) bool {
			method, _ := msg["method"].(string)
			id := rawID([]byte(rawMsg))
			if method != "tools/call" || id == "" {
				return false
			}
			if cs.Mode == "ls" && strings.HasPrefix(cs.Point, "early-") && callN == 0 {
				// the answer (once, twice or three times) is on the stream before the POST is acknowledged,
				// and the POST is then accepted or refused
				callN++
				st := &httpAnswer{s: ss, w: ss.stream, started: true, sse: true}
				n := map[string]int{"early-answer": 1, "early-answer-twice": 2, "early-answer-thrice": 3, "early-answer-twice-then-500": 2, "early-answer-then-500": 1}[cs.Point]
				for j := 0; j < n; j++ {
					answer(st, id, "first")
				}
				emit(st)
				if strings.HasSuffix(cs.Point, "-500") {
					w.HTTP(500, "text/plain", "refused after all")
				} else {
					w.HTTP(202, "", "")
				}
				return true
			}
			if cs.Mode == "ls" {
				w.HTTP(202, "", "")
				w = &httpAnswer{s: ss, w: ss.stream, started: true, sse: true}
			}
			callN++
			if callN == 1 && cs.Point == "stalled-answer" {
				emit(w)
				// no answer, and the channel stays open until the scenario is over
				vsched.BlockObjs("scripted server leaves the answer channel open", ctxProbe{context.Background(), &ss.stopped}, []uintptr{uintptr(unsafe.Pointer(&ss.stopped))}, true)
				return true
			}
			if callN == 1 {
				switch cs.Point {
				case "before-answer":
					emit(w)
					answer(w, id, "first")
				case "after-answer":
					answer(w, id, "first")
					emit(w)
				case "http-answer":
					emit(w)
				default:
					answer(w, id, "first")
				}
			} else {
				answer(w, id, "second")
			}
			return true
		}
		switch cs.Point {
		case "during-handshake":
			ss.initHook = func(w scriptWriter, id string) bool {
				emit(w)
				w.Frame(fmt.Sprintf(`{"jsonrpc":"2.0","id":%s,"result":%s}`, id, scriptInitResult))
				return true
			}
		case "no-endpoint":
			ss.onStream = func(w scriptWriter) { emit(w) }
		case "at-connect": // the element follows the endpoint event in the same burst, before the handshake has started
			ss.onStream = func(w scriptWriter) { w.Raw("event: endpoint\ndata: /message?sessionId=s1\n\n"); emit(w) }
		case "before-endpoint":
			ss.onStream = func(w scriptWriter) { emit(w); w.Raw("event: endpoint\ndata: /message?sessionId=s1\n\n") }
		}
		cl, err := ss.client()
		if err != nil {
			viol = append(viol, V("setup-handshake-fails", "setting the scenario up with well-behaved peers fails: %v", err))
			return
		}
		got := &hx.Log{}
		cl.RegisterNotificationHandler("notifications/probe", func(n *mcp.JSONRPCNotification) error { got.Add("probe"); return nil })
		// ---- handshake
		var initErr error
		initDone := &hx.Flag{}
		vsched.Go("init", func() {
			_, initErr = cl.Initialize(context.Background(), &mcp.InitializeRequest{})
			initDone.Set()
		})
		vsched.Quiesce()
		if !initDone.Get() {
			if cs.Point == "no-endpoint" {
				// the endpoint never arrives: the client must give up after its (virtual) time-out
				vsched.Sleep(61e9)
				vsched.Quiesce()
			}
			if !initDone.Get() {
				viol = append(viol, V(k("init-hangs"), "Initialize never returned; blocked: %v", vsched.LiveThreads()))
				return
			}
		}
		if initErr != nil {
			obs.Add("init-err")
			if cs.Point != "during-handshake" && cs.Point != "no-endpoint" && cs.Point != "at-connect" && cs.Point != "before-endpoint" {
				viol = append(viol, V("harness", "handshake failed although nothing adversarial was sent: %v", initErr))
				return
			}
			// a failed handshake is an acceptable outcome; Close must still work
			cl.Close()
			vsched.Quiesce()
			return
		}
		if cs.Point == "no-endpoint" {
			viol = append(viol, V(k("init-without-endpoint"), "Initialize succeeded although no endpoint event was ever sent"))
		}
		// ---- the affected call (and, for idle-stream, the element on the background stream)
		if cs.Point == "idle-stream" {
			vsched.Quiesce()
			w := ss.background()
			if w == nil {
				obs.Add("no-background-stream")
			} else {
				emit(w)
				vsched.Quiesce()
				w.Frame(`{"jsonrpc":"2.0","method":"notifications/probe","params":{"n":1}}`)
				vsched.Quiesce()
				if len(got.Items()) != 1 && cs.Mode != "ls" && !cs.Elem.Cut {
					viol = append(viol, V(k("later-frame-lost"), "after the element, a well-formed notification on the same stream reached the handler %d times (want 1)", len(got.Items())))
				}
			}
		}
		call := func(tag string) (string, error, bool) {
			var out *mcp.CallToolResult
			var err error
			done := &hx.Flag{}
			vsched.Go("caller-"+tag, func() {
				rq := &mcp.CallToolRequest{}
				rq.Params.Name = "t"
				out, err = cl.CallTool(context.Background(), rq)
				done.Set()
			})
			vsched.Quiesce()
			return TextOf(out), err, done.Get()
		}
		if cs.Point == "stalled-answer" {
			var err1 error
			done1 := &hx.Flag{}
			vsched.Go("caller-1", func() {
				rq := &mcp.CallToolRequest{}
				rq.Params.Name = "t"
				_, err1 = cl.CallTool(context.Background(), rq)
				done1.Set()
			})
			vsched.Quiesce()
			obs.Add("call1-done=%v", done1.Get())
			// the rest of the client's API does not wait for the stalled call
			regDone := &hx.Flag{}
			vsched.Go("register", func() {
				cl.RegisterNotificationHandler("notifications/other", func(n *mcp.JSONRPCNotification) error { return nil })
				cl.UnregisterNotificationHandler("notifications/other")
				regDone.Set()
			})
			vsched.Quiesce()
			if !regDone.Get() {
				viol = append(viol, V(k("register-hangs"), "while a call waits on a silent answer channel, RegisterNotificationHandler / UnregisterNotificationHandler do not return; blocked: %v", vsched.LiveThreads()))
			}
			if cs.Mode == "sj" || cs.Mode == "ss" { // every call has an answer channel of its own
				txt2, err2, done2 := call("2")
				if !done2 {
					viol = append(viol, V(k("later-call-hangs"), "while a call waits on a silent answer channel, another call on the same client never returns; blocked: %v", vsched.LiveThreads()))
				} else if err2 != nil || txt2 != "second" {
					viol = append(viol, V(k("later-call-fails"), "while a call waits on a silent answer channel, another well-formed exchange on the same client failed: %q %v", txt2, err2))
				}
			}
			closed := &hx.Flag{}
			vsched.Go("close", func() { cl.Close(); closed.Set() })
			vsched.Quiesce()
			if !closed.Get() {
				viol = append(viol, V(k("close-hangs"), "Close did not return while a call waits on a silent answer channel; blocked: %v", vsched.LiveThreads()))
			}
			ss.stop()
			vsched.Quiesce()
			if closed.Get() && !done1.Get() {
				viol = append(viol, V(k("call-survives-close"), "the client is closed and the server has ended the channel, the pending call still has not returned; blocked: %v", vsched.LiveThreads()))
			}
			_ = err1
			return
		}
		txt, err1, done1 := call("1")
		switch {
		case !done1:
			viol = append(viol, V(k("call-hangs"), "the call hit by the element never returned; blocked: %v", vsched.LiveThreads()))
		case err1 == nil && txt != "first" && !strings.HasSuffix(cs.Point, "-500"):
			viol = append(viol, V(k("wrong-result"), "the call returned %q", txt))
		case err1 == nil && cs.Point == "http-answer" && name != "http-200-no-content-type":
			viol = append(viol, V(k("result-from-nothing"), "the server answered %s but the call returned a result", name))
		}
		if err1 != nil {
			obs.Add("call1-err")
		} else {
			obs.Add("call1-ok")
		}
		// ---- a later call on the same client completes
		if done1 {
			txt2, err2, done2 := call("2")
			if !done2 {
				viol = append(viol, V(k("later-call-hangs"), "a later call on the same client never returned; blocked: %v", vsched.LiveThreads()))
			} else if cs.Elem.Cut && (cs.Mode == "ls" || cs.Mode == "io") {
				// the only channel the server can answer on is gone: the later call has to return, not to succeed
				if err2 == nil && txt2 != "second" {
					viol = append(viol, V(k("later-call-wrong-result"), "after the server's output ended, a later call returned %q", txt2))
				}
			} else if err2 != nil || txt2 != "second" {
				viol = append(viol, V(k("later-call-fails"), "a later well-formed exchange on the same client failed: %q %v", txt2, err2))
			}
		}
		closed := &hx.Flag{}
		vsched.Go("close", func() { cl.Close(); closed.Set() })
		vsched.Quiesce()
		if !closed.Get() {
			viol = append(viol, V(k("close-hangs"), "Close did not return; blocked: %v", vsched.LiveThreads()))
		}
		ss.stop()
	})
	o := finishOutcome(res, obs, viol, true)
	// horizon = spin: give it the case's key
	for i, v := range o.Violations {
		if v.Key == "horizon" || v.Key == "deadlock" {
			o.Violations[i].Key = k(v.Key)
		}
	}
	cr.ObsKey = cr.Desc + "|" + o.ObsKey
	cr.Violations = o.Violations
	cr.Broken = o.Broken
	return cr, o
}

// c07BurstCases are the legacy-SSE connect bursts explored over schedules (the reader goroutine
// handles the burst while Initialize is still between "endpoint received" and "started").
func c07BurstCases() []c07Case {
	var out []c07Case
	for _, e := range c07Elems("quick") {
		switch e.Name {
		case "sse-second-endpoint", "sse-endpoint-bad-url", "sse-endpoint-empty", "request-roots-list", "notification-unknown", "garbage-bytes":
			out = append(out, c07Case{"ls", "at-connect", e, nil})
		}
	}
	return out
}

// background returns a writer on the stream the server may use unsolicited.
func (s *scriptedServer) background() scriptWriter {
	switch s.mode {
	case "io":
		return pipeAnswer{s}
	default:
		if s.stream == nil {
			return nil
		}
		return &httpAnswer{s: s, w: s.stream, started: true, sse: true}
	}
}

func init() {
	RegisterEnum(&Enum{Name: "c07/adversarial", Doc: "scripted server: one adversarial element (two in thorough) at every insertion point of a handshake + call exchange, for the Streamable (JSON, SSE, GET stream), legacy SSE and stdio clients",
		Count: func(tier string) int { return len(c07Cases(tier)) },
		Eval:  func(tier string, i int) CaseResult { return c07Eval(tier, c07Cases(tier)[i]) }})
	RegisterCheck("C07", func(c *Ctx) {
		c.Level = "fault_enumeration"
		c.Rule = "complete enumeration of (client mode) x (insertion point: during handshake, before the answer, after the answer, on the idle background stream, HTTP-level answer, and for legacy SSE in the same burst as the endpoint event, before or after it - the latter also explored over schedules with P<=2) x (adversarial element alphabet: garbage, non-JSON, every JSON type, wrong-kind frames, ids of every type, SSE/stdio framing oddities, 64KiB+1 frame); thorough adds all pairs of elements; oracle: no panic, no spin (step horizon), the affected call returns, a later call succeeds, later frames on the background stream are delivered, Close returns"
		c.Assume = append(c.Assume, "byte-level space covered as a structured alphabet, not arbitrary byte strings (fuzzing is out of family)", "virtual time; spin = more than 60000 scheduling points in one execution", "default schedule (C08 covers schedules of faults)")
		c.Enumerate("c07/adversarial")
		c.Enumerate("c07/result-shapes")
		c.Enumerate("c07/handler-calls-back")
		for _, bc := range c07BurstCases() {
			c.DFS("c07/ls/connect-burst/"+bc.Elem.Name, explore.Bounds{Preempt: c.Pick(2, 3), Dev: 0, POR: true, MaxExec: c.Pick(3000, 100000)})
		}
	})
	for _, bc := range c07BurstCases() {
		bc := bc
		RegisterScenario(&Scenario{Name: "c07/ls/connect-burst/" + bc.Elem.Name, Doc: "legacy SSE client: the server sends the endpoint event and " + bc.Elem.Name + " in one burst while Initialize is in progress; all interleavings of the reader goroutine with the handshake up to the preemption bound",
			Run: func(p []int, m []vsched.ChoicePoint) explore.Outcome {
				cfg := cfgFor(p)
				_, o := c07Exec(bc, cfg)
				return o
			}})
	}
}

// ---- results of every shape ------------------------------------------------------------------------
//
// "No response body ... makes a client panic": the answer is a well-formed JSON-RPC response whose
// result is a structural mutation of a valid result of the operation - every node replaced by null,
// a value of every other JSON type, an array holding null, and every object key removed. The
// decoders of the typed results (tools, prompts, resources, contents) run in the caller's goroutine.

var c07ResultOps = []struct {
	Op, Method, Valid string
}{
	{"ListTools", "tools/list", `{"tools":[{"name":"t","description":"d","inputSchema":{"type":"object","properties":{"a":{"type":"string"}},"required":["a"]},"annotations":{"title":"T","readOnlyHint":true}}],"nextCursor":"c"}`},
	{"CallTool", "tools/call", `{"content":[{"type":"text","text":"x","annotations":{"audience":["user"],"priority":0.5}},{"type":"image","data":"aGk=","mimeType":"image/png"},{"type":"audio","data":"aGk=","mimeType":"audio/wav"},{"type":"resource","resource":{"uri":"res://r","mimeType":"text/plain","text":"t"}}],"isError":false,"structuredContent":{"k":1}}`},
	{"ListPrompts", "prompts/list", `{"prompts":[{"name":"p","description":"d","arguments":[{"name":"a","description":"d","required":true}]}],"nextCursor":"c"}`},
	{"GetPrompt", "prompts/get", `{"description":"d","messages":[{"role":"user","content":{"type":"text","text":"x"}},{"role":"assistant","content":{"type":"resource","resource":{"uri":"res://r","text":"t"}}}]}`},
	{"ListResources", "resources/list", `{"resources":[{"uri":"res://r","name":"r","description":"d","mimeType":"text/plain","annotations":{"audience":["user"],"priority":1}}],"nextCursor":"c"}`},
	{"ReadResource", "resources/read", `{"contents":[{"uri":"res://r","mimeType":"text/plain","text":"x"},{"uri":"res://b","mimeType":"application/octet-stream","blob":"aGk="}]}`},
}

// c07Mutations returns the structural mutations of a JSON document (as JSON texts, with a label).
func c07Mutations(doc string) (labels []string, texts []string) {
	var root interface{}
	json.Unmarshal([]byte(doc), &root)
	repl := []string{`null`, `true`, `7`, `"s"`, `[]`, `{}`, `[null]`, `[[]]`, `{"type":null}`}
	type setter func(v interface{})
	emit := func(label string) {
		b, _ := json.Marshal(root)
		labels = append(labels, label)
		texts = append(texts, string(b))
	}
	var walk func(path string, cur interface{}, set setter)
	walk = func(path string, cur interface{}, set setter) {
		orig := cur
		for _, r := range repl {
			var v interface{}
			json.Unmarshal([]byte(r), &v)
			set(v)
			emit(path + ":=" + r)
		}
		set(orig)
		switch t := cur.(type) {
		case map[string]interface{}:
			keys := make([]string, 0, len(t))
			for k := range t {
				keys = append(keys, k)
			}
			sort.Strings(keys)
			for _, k := range keys {
				k := k
				save := t[k]
				delete(t, k)
				emit(path + "." + k + " removed")
				t[k] = save
				walk(path+"."+k, save, func(v interface{}) { t[k] = v })
			}
		case []interface{}:
			for i := range t {
				i := i
				walk(fmt.Sprintf("%s[%d]", path, i), t[i], func(v interface{}) { t[i] = v })
			}
		}
	}
	walk("result", root, func(v interface{}) { root = v })
	return
}

type c07ShapeCase struct {
	Mode  string
	Op    int
	Label string
	Text  string
}

var c07ShapeCache []c07ShapeCase

func c07ShapeCases() []c07ShapeCase {
	if c07ShapeCache != nil {
		return c07ShapeCache
	}
	var out []c07ShapeCase
	for oi, op := range c07ResultOps {
		ls, ts := c07Mutations(op.Valid)
		for _, m := range c07Modes {
			for i := range ls {
				out = append(out, c07ShapeCase{m, oi, ls[i], ts[i]})
			}
		}
	}
	c07ShapeCache = out
	return out
}

func c07ShapeEval(cs c07ShapeCase) CaseResult {
	op := c07ResultOps[cs.Op]
	cr := CaseResult{Desc: fmt.Sprintf("mode=%s %s answered with %s", cs.Mode, op.Op, cs.Label), Nontrivial: true}
	var viol []explore.Violation
	obs := &hx.Log{}
	k := func(kind string) string { return fmt.Sprintf("%s:%s:%s", kind, op.Op, cs.Label) }
	res := vsched.Run(vsched.Config{MaxSteps: 60000}, func() {
		ss := newScriptedServer(cs.Mode)
		ss.onRequest = func(msg map[string]interface{}, rawMsg string, w scriptWriter) bool {
			method, _ := msg["method"].(string)
			id := rawID([]byte(rawMsg))
			if id == "" || method == "initialize" {
				return false
			}
			if cs.Mode == "ls" {
				w.HTTP(202, "", "")
				w = &httpAnswer{s: ss, w: ss.stream, started: true, sse: true}
			}
			if method == op.Method {
				w.Frame(fmt.Sprintf(`{"jsonrpc":"2.0","id":%s,"result":%s}`, id, cs.Text))
			} else {
				w.Frame(fmt.Sprintf(`{"jsonrpc":"2.0","id":%s,"result":{"content":[{"type":"text","text":"fine"}]}}`, id))
			}
			return true
		}
		cl, err := ss.connect()
		if err != nil {
			viol = append(viol, V("setup-handshake-fails", "setting the scenario up with well-behaved peers fails: %v", err))
			return
		}
		done := &hx.Flag{}
		var cerr error
		vsched.Go("caller", func() {
			ctx := context.Background()
			switch op.Op {
			case "ListTools":
				_, cerr = cl.ListTools(ctx, &mcp.ListToolsRequest{})
			case "CallTool":
				rq := &mcp.CallToolRequest{}
				rq.Params.Name = "t"
				_, cerr = cl.CallTool(ctx, rq)
			case "ListPrompts":
				_, cerr = cl.ListPrompts(ctx, &mcp.ListPromptsRequest{})
			case "GetPrompt":
				rq := &mcp.GetPromptRequest{}
				rq.Params.Name = "p"
				_, cerr = cl.GetPrompt(ctx, rq)
			case "ListResources":
				_, cerr = cl.ListResources(ctx, &mcp.ListResourcesRequest{})
			case "ReadResource":
				rq := &mcp.ReadResourceRequest{}
				rq.Params.URI = "res://r"
				_, cerr = cl.ReadResource(ctx, rq)
			}
			done.Set()
		})
		vsched.Quiesce()
		if !done.Get() {
			viol = append(viol, V(k("shape-call-hangs"), "%s never returned; blocked: %v", op.Op, vsched.LiveThreads()))
		}
		obs.Add("err=%v", cerr != nil)
		// a later well-formed exchange
		var out *mcp.CallToolResult
		var e2 error
		d2 := &hx.Flag{}
		vsched.Go("caller-2", func() {
			rq := &mcp.CallToolRequest{}
			rq.Params.Name = "other"
			if op.Op == "CallTool" {
				// tools/call is the mutated one: use another operation as the later exchange
				_, e2 = cl.ListPrompts(context.Background(), &mcp.ListPromptsRequest{})
				out = mcp.NewTextResult("fine")
			} else {
				out, e2 = cl.CallTool(context.Background(), rq)
			}
			d2.Set()
		})
		vsched.Quiesce()
		switch {
		case !d2.Get():
			viol = append(viol, V(k("shape-later-call-hangs"), "after %s was answered with %s a later call never returned; blocked: %v", op.Op, cs.Label, vsched.LiveThreads()))
		case op.Op != "CallTool" && (e2 != nil || TextOf(out) != "fine"):
			viol = append(viol, V(k("shape-later-call-fails"), "after %s was answered with %s a later well-formed exchange failed: %v", op.Op, cs.Label, e2))
		}
		closed := &hx.Flag{}
		vsched.Go("close", func() { cl.Close(); closed.Set() })
		vsched.Quiesce()
		if !closed.Get() {
			viol = append(viol, V(k("shape-close-hangs"), "Close did not return; blocked: %v", vsched.LiveThreads()))
		}
		ss.stop()
	})
	o := finishOutcome(res, obs, viol, true)
	for i, v := range o.Violations {
		if strings.HasPrefix(v.Key, "panic:") {
			o.Violations[i].Msg = fmt.Sprintf("%s answered with %s: %s", op.Op, cs.Label, v.Msg)
		}
	}
	cr.ObsKey = cr.Desc + "|" + o.ObsKey
	cr.Violations = o.Violations
	cr.Broken = o.Broken
	return cr
}

func init() {
	RegisterEnum(&Enum{Name: "c07/result-shapes", Doc: "well-formed responses whose result is a structural mutation of a valid result (every node := null / each other JSON type / [null] / [[]], every key removed) for ListTools, CallTool, ListPrompts, GetPrompt, ListResources, ReadResource on 4 client flavours: no panic in the typed decoders, the call returns, a later exchange works, Close returns",
		Count: func(string) int { return len(c07ShapeCases()) },
		Eval:  func(tier string, i int) CaseResult { return c07ShapeEval(c07ShapeCases()[i]) }})
}

// ---- a notification handler that uses the client ------------------------------------------------
//
// "other pending and later calls on the same client still complete": a tools/list_changed handler
// does what such handlers do - it asks the server for the new list, on the client it belongs to,
// while another call of the application is pending. The frames that answer both are well-formed;
// both calls complete.
func c07HandlerCallsBack(tier string, i int) CaseResult {
	mode := []string{"sj", "ss", "io"}[i]
	cr := CaseResult{Desc: "client=" + mode + ": a notification handler calls ListTools on its own client while a call is pending", Nontrivial: true}
	var viol []explore.Violation
	obs := &hx.Log{}
	k := func(s string) string { return fmt.Sprintf("%s:handler-calls-back:%s", s, mode) }
	res := vsched.Run(vsched.Config{MaxSteps: 60000}, func() {
		ss := newScriptedServer(mode)
		release := &hx.Flag{}
		pendingID := ""
		ss.onRequest = func(msg map[string]interface{}, rawMsg string, w scriptWriter) bool {
			method, _ := msg["method"].(string)
			id := rawID([]byte(rawMsg))
			switch {
			case id == "" || method == "initialize":
				return false
			case method == "tools/list":
				w.Frame(fmt.Sprintf(`{"jsonrpc":"2.0","id":%s,"result":{"tools":[{"name":"new-tool","inputSchema":{"type":"object"}}]}}`, id))
			case mode == "io":
				pendingID = id // (the scripted stdio server is one loop: it must not block; the answer is written later)
			default:
				// the application's own call: answered once the scenario says so
				vsched.BlockObjs("scripted server holds the answer to the pending call", ctxProbe{context.Background(), release}, []uintptr{uintptr(unsafe.Pointer(release))}, true)
				w.Frame(fmt.Sprintf(`{"jsonrpc":"2.0","id":%s,"result":{"content":[{"type":"text","text":"pending-call-answer"}]}}`, id))
			}
			return true
		}
		cl, err := ss.connect(mcp.WithClientGetSSEEnabled(true))
		if err != nil {
			viol = append(viol, V("setup-handshake-fails", "setting the scenario up with well-behaved peers fails: %v", err))
			return
		}
		entered, finished := &hx.Flag{}, &hx.Flag{}
		var inner error
		var listed int
		cl.RegisterNotificationHandler("notifications/tools/list_changed", func(n *mcp.JSONRPCNotification) error {
			entered.Set()
			lt, e := cl.ListTools(context.Background(), &mcp.ListToolsRequest{})
			inner = e
			if lt != nil {
				listed = len(lt.Tools)
			}
			finished.Set()
			return nil
		})
		vsched.Quiesce()
		var out *mcp.CallToolResult
		var cerr error
		done := &hx.Flag{}
		vsched.Go("pending-call", func() {
			rq := &mcp.CallToolRequest{}
			rq.Params.Name = "slow"
			out, cerr = cl.CallTool(context.Background(), rq)
			done.Set()
		})
		vsched.Quiesce()
		w := ss.background()
		if w == nil {
			viol = append(viol, V("harness", "no background stream"))
			return
		}
		w.Frame(`{"jsonrpc":"2.0","method":"notifications/tools/list_changed"}`)
		vsched.Quiesce()
		obs.Add("entered=%v finished=%v", entered.Get(), finished.Get())
		switch {
		case !entered.Get():
			viol = append(viol, V("harness", "the notification handler was never called"))
		case !finished.Get():
			viol = append(viol, V(k("handler-call-hangs"), "the handler's ListTools, made on its own client while another call is pending, does not return although the server answered it; blocked: %v", vsched.LiveThreads()))
		case inner != nil || listed != 1:
			viol = append(viol, V(k("handler-call-fails"), "the handler's ListTools returned %d tools, %v", listed, inner))
		}
		release.Set()
		if pendingID != "" {
			ss.background().Frame(fmt.Sprintf(`{"jsonrpc":"2.0","id":%s,"result":{"content":[{"type":"text","text":"pending-call-answer"}]}}`, pendingID))
		}
		vsched.Quiesce()
		if !done.Get() {
			viol = append(viol, V(k("pending-call-hangs"), "the application's pending call never returned although the server answered it; blocked: %v", vsched.LiveThreads()))
		} else if cerr != nil || TextOf(out) != "pending-call-answer" {
			viol = append(viol, V(k("pending-call-fails"), "the application's pending call returned %q, %v", TextOf(out), cerr))
		}
		closed := &hx.Flag{}
		vsched.Go("close", func() { cl.Close(); closed.Set() })
		vsched.Quiesce()
		if !closed.Get() {
			viol = append(viol, V(k("close-hangs"), "Close did not return; blocked: %v", vsched.LiveThreads()))
		}
		ss.stop()
	})
	o := finishOutcome(res, obs, viol, true)
	cr.ObsKey = cr.Desc + "|" + o.ObsKey
	cr.Violations = o.Violations
	cr.Broken = o.Broken
	return cr
}

func init() {
	RegisterEnum(&Enum{Name: "c07/handler-calls-back", Doc: "a tools/list_changed handler calls ListTools on its own client while another call is pending (Streamable with JSON / SSE answers, stdio): both calls complete with their answers, Close returns",
		Count: func(string) int { return 3 }, Eval: c07HandlerCallsBack})
}
