package props

import (
	"context"
	"errors"
	"fmt"
	"net/http"
	"strings"

	mcp "trpc.group/trpc-go/trpc-mcp-go"
	"verif.local/engine/explore"
	"verif.local/engine/vsched"
	"verif.local/harness/hx"
)

// C19 — client-side customisation applies to every outbound HTTP request.

type c19Tok struct{}

type c19Handler struct{ n int }

// Handle marks the request (so that the server can tell it came through the custom handler).
func (h *c19Handler) Handle(ctx context.Context, client *http.Client, req *http.Request) (*http.Response, error) {
	h.n++
	req.Header.Set("X-Via-Handler", "1")
	return client.Do(req.WithContext(ctx))
}

type c19Case struct {
	Client    string // sj | ls
	Static    bool
	Before    bool
	Handler   bool
	Path      bool
	BeforeErr string // "" | name of the operation whose before-request call fails
	URLQuery  bool   // the configured server URL carries a query string (e.g. an API key)
	TermFails int    // the server refuses the session DELETE with this status: the session lives on, and so does the client's use of it
	Factory   bool   // the request handler is installed by replacing the package's handler factory (mcp.NewHTTPReqHandler) instead of by option
	Reopen    bool   // after the history the client is closed and used again (Close, Initialize, requests, terminate)
	Split     bool   // the static headers are configured through two WithHTTPHeaders options (with another option in between) instead of one
	FirstInit int    // 0 = the handshake succeeds at once; else the HTTP status with which the server refuses the first initialize (no session id issued), after which the client initializes again
}

func c19Cases(tier string) []c19Case {
	var out []c19Case
	for _, cl := range []string{"sj", "ss", "ls"} {
		for mask := 0; mask < 16; mask++ {
			c := c19Case{Client: cl, Static: mask&1 != 0, Before: mask&2 != 0, Handler: mask&4 != 0, Path: mask&8 != 0}
			out = append(out, c)
			if mask == 0 || mask == 8 || mask == 15 {
				c4 := c
				c4.URLQuery = true
				out = append(out, c4)
			}
			if c.Static && (mask == 1 || mask == 3 || mask == 15) {
				c5 := c
				c5.Split = true
				out = append(out, c5)
			}
			if cl != "ls" && (mask == 0 || mask == 2 || mask == 15) {
				for _, st := range []int{405, 500} {
					c8 := c
					c8.TermFails = st
					out = append(out, c8)
				}
			}
			if c.Handler && (mask == 4 || mask == 15) {
				c7 := c
				c7.Factory = true
				out = append(out, c7)
			}
			if cl != "ls" && (mask == 2 || mask == 3 || mask == 15) {
				c6 := c
				c6.Reopen = true
				out = append(out, c6)
			}
			if cl != "ls" && (mask == 0 || mask == 15) {
				for _, st := range []int{503, 400} {
					c3 := c
					c3.FirstInit = st
					out = append(out, c3)
				}
			}
			if c.Before {
				for _, op := range []string{"init", "listtools", "rootschanged", "terminate"} {
					c2 := c
					c2.BeforeErr = op
					out = append(out, c2)
				}
			}
		}
	}
	return out
}

func c19Eval(tier string, i int) CaseResult {
	cs := c19Cases(tier)[i]
	cr := CaseResult{Desc: fmt.Sprintf("client=%s static=%v before=%v handler=%v path=%v beforeErr=%q firstInit=%d urlQuery=%v split=%v", cs.Client, cs.Static, cs.Before, cs.Handler, cs.Path, cs.BeforeErr, cs.FirstInit, cs.URLQuery, cs.Split) + map[bool]string{true: " reopen", false: ""}[cs.Reopen] + map[bool]string{true: " handler-by-factory", false: ""}[cs.Factory] + map[bool]string{true: fmt.Sprintf(" delete-refused-%d", cs.TermFails), false: ""}[cs.TermFails != 0], Nontrivial: true}
	var viol []explore.Violation
	obs := &hx.Log{}
	k := func(s string) string { return fmt.Sprintf("%s:%s", s, cs.Client) }
	res := vsched.Run(vsched.Config{}, func() {
		ss := newScriptedServer(cs.Client)
		// the server issues two requests on the background stream as soon as it is open
		ss.onStream = func(w scriptWriter) {
			if cs.Client == "ls" {
				w.Raw("event: endpoint\ndata: /message?sessionId=s1\n\n")
			}
		}
		if cs.URLQuery {
			ss.urlSuffix = "?api_key=k1&x=a%20b"
		}
		ss.deleteStatus = cs.TermFails
		if cs.FirstInit != 0 {
			refused := false
			ss.initHook = func(w scriptWriter, id string) bool {
				if !refused {
					refused = true
					w.HTTP(cs.FirstInit, "text/plain", "try again")
					return true
				}
				return false
			}
		}
		opts := []mcp.ClientOption{mcp.WithClientGetSSEEnabled(true)}
		if cs.Static && !cs.Split {
			opts = append(opts, mcp.WithHTTPHeaders(http.Header{"X-Static": []string{"s1"}, "Authorization": []string{"Bearer tok"}, "X-Multi": []string{"m1", "m2", "m3"}}))
		}
		if cs.Static && cs.Split {
			// the same configuration given piecewise, as an application that collects its options from several places does
			opts = append(opts, mcp.WithHTTPHeaders(http.Header{"X-Static": []string{"s1"}, "X-Multi": []string{"m1", "m2", "m3"}}),
				mcp.WithClientLogger(hx.Nop{}),
				mcp.WithHTTPHeaders(http.Header{"Authorization": []string{"Bearer tok"}}))
		}
		beforeCalls := map[string]int{}
		boom := errors.New("before-request says no")
		if cs.Before {
			opts = append(opts, mcp.WithHTTPBeforeRequest(func(ctx context.Context, req *http.Request) error {
				tok, _ := ctx.Value(c19Tok{}).(string)
				if cs.BeforeErr != "" && tok == cs.BeforeErr {
					return boom
				}
				req.Header.Set("X-Ctx-Tok", tok)
				req.Header.Add("X-Before-Count", "1")
				beforeCalls[tok]++
				return nil
			}))
		}
		h := &c19Handler{}
		if cs.Handler && !cs.Factory {
			opts = append(opts, mcp.WithHTTPReqHandler(h))
		}
		if cs.Handler && cs.Factory {
			// the other documented way of configuring the handler: the package-level factory every client consults
			saved := mcp.NewHTTPReqHandler
			mcp.NewHTTPReqHandler = func(serviceName string, options ...mcp.HTTPReqHandlerOption) mcp.HTTPReqHandler { return h }
			defer func() { mcp.NewHTTPReqHandler = saved }()
		}
		wantPath := "/mcp"
		if cs.Client == "ls" {
			wantPath = "/sse"
		}
		if cs.Path {
			opts = append(opts, mcp.WithClientPath("/custom/ep"))
			wantPath = "/custom/ep"
		}
		cl, err := ss.client(opts...)
		if err != nil {
			viol = append(viol, V("setup-handshake-fails", "setting the scenario up with well-behaved peers fails: %v", err))
			return
		}
		cl.SetRootsProvider(staticRoots{[]mcp.Root{{URI: "file:///r"}}})
		tok := func(t string) context.Context { return context.WithValue(context.Background(), c19Tok{}, t) }
		type step struct {
			name string
			run  func() error
		}
		expectFail := func(name string) bool { return cs.BeforeErr == name }
		var failed bool
		do := func(s step) {
			if failed {
				return
			}
			before := len(ss.fab.Log())
			var err error
			done := &hx.Flag{}
			vsched.Go("op-"+s.name, func() { err = s.run(); done.Set() })
			vsched.Quiesce()
			if !done.Get() {
				viol = append(viol, V(k("op-hangs:"+s.name), "%s did not return; blocked %v", s.name, vsched.LiveThreads()))
				failed = true
				return
			}
			if expectFail(s.name) {
				if err == nil || !strings.Contains(err.Error(), boom.Error()) {
					viol = append(viol, V(k("before-error-ignored:"+s.name), "the before-request function returned an error for %s but the operation returned %v", s.name, err))
				}
				if n := len(ss.fab.Log()) - before; n != 0 {
					viol = append(viol, V(k("sent-despite-before-error:"+s.name), "the before-request function failed for %s but %d request(s) reached the network", s.name, n))
				}
				if s.name == "init" {
					failed = true
				}
				return
			}
			if err != nil {
				viol = append(viol, V(k("op-fails:"+s.name), "%s failed: %v", s.name, err))
			}
		}
		if cs.FirstInit != 0 {
			// the first handshake is refused without a session id; the client then initializes again
			var e1 error
			d1 := &hx.Flag{}
			vsched.Go("op-init-refused", func() { _, e1 = cl.Initialize(tok("init"), &mcp.InitializeRequest{}); d1.Set() })
			vsched.Quiesce()
			if !d1.Get() || e1 == nil {
				viol = append(viol, V(k("first-init-not-refused"), "the server refused the first initialize with %d but Initialize returned %v (done=%v)", cs.FirstInit, e1, d1.Get()))
				return
			}
		}
		do(step{"init", func() error { _, e := cl.Initialize(tok("init"), &mcp.InitializeRequest{}); return e }})
		if !failed {
			vsched.Quiesce()
			// server-issued requests on the background stream (answered by the client over HTTP)
			if w := ss.background(); w != nil {
				w.Frame(`{"jsonrpc":"2.0","id":901,"method":"roots/list"}`)
				w.Frame(`{"jsonrpc":"2.0","id":902,"method":"no/such"}`)
				vsched.Quiesce()
			}
			do(step{"listtools", func() error { _, e := cl.ListTools(tok("listtools"), &mcp.ListToolsRequest{}); return e }})
			do(step{"calltool", func() error {
				rq := &mcp.CallToolRequest{}
				rq.Params.Name = "t"
				_, e := cl.CallTool(tok("calltool"), rq)
				return e
			}})
			do(step{"listprompts", func() error { _, e := cl.ListPrompts(tok("listprompts"), &mcp.ListPromptsRequest{}); return e }})
			do(step{"getprompt", func() error {
				rq := &mcp.GetPromptRequest{}
				rq.Params.Name = "p"
				_, e := cl.GetPrompt(tok("getprompt"), rq)
				return e
			}})
			do(step{"listresources", func() error { _, e := cl.ListResources(tok("listresources"), &mcp.ListResourcesRequest{}); return e }})
			do(step{"readresource", func() error {
				rq := &mcp.ReadResourceRequest{}
				rq.Params.URI = "res://r"
				_, e := cl.ReadResource(tok("readresource"), rq)
				return e
			}})
			do(step{"rootschanged", func() error { return cl.SendRootsListChangedNotification(tok("rootschanged")) }})
			if sc, ok := cl.(mcp.SessionClient); ok && cs.Client != "ls" && cs.TermFails == 0 {
				do(step{"terminate", func() error { return sc.TerminateSession(tok("terminate")) }})
			}
			if sc, ok := cl.(mcp.SessionClient); ok && cs.Client != "ls" && cs.TermFails != 0 && !failed {
				// the server refuses to end the session: the operation fails, the session and the client's use of it go on
				d := &hx.Flag{}
				var terr error
				vsched.Go("op-terminate-refused", func() { terr = sc.TerminateSession(tok("terminate")); d.Set() })
				vsched.Quiesce()
				if d.Get() && terr == nil {
					viol = append(viol, V(k("terminate-refused-but-ok"), "the server answered the session DELETE with %d but TerminateSession returned nil", cs.TermFails))
				}
				do(step{"listtools", func() error { _, e := cl.ListTools(tok("listtools"), &mcp.ListToolsRequest{}); return e }})
				do(step{"rootschanged", func() error { return cl.SendRootsListChangedNotification(tok("rootschanged")) }})
			}
			if cs.Reopen && !failed {
				// a second life of the same client object: everything configured still applies
				do(step{"close", func() error { return cl.Close() }})
				do(step{"init", func() error { _, e := cl.Initialize(tok("init"), &mcp.InitializeRequest{}); return e }})
				vsched.Quiesce()
				do(step{"listtools", func() error { _, e := cl.ListTools(tok("listtools"), &mcp.ListToolsRequest{}); return e }})
				do(step{"rootschanged", func() error { return cl.SendRootsListChangedNotification(tok("rootschanged")) }})
				if sc, ok := cl.(mcp.SessionClient); ok {
					do(step{"terminate", func() error { return sc.TerminateSession(tok("terminate")) }})
				}
			}
		}
		vsched.Quiesce()
		// ---- every request the server received
		issued := false
		kinds := map[string]int{}
		for _, x := range ss.fab.Log() {
			kind := x.Method
			body := string(x.ReqBody)
			wantTok := ""
			switch {
			case x.Method == "GET":
				kind, wantTok = "GET-stream", "init"
			case x.Method == "DELETE":
				kind, wantTok = "DELETE", "terminate"
			case strings.Contains(body, `"initialize"`):
				kind, wantTok = "POST-initialize", "init"
			case strings.Contains(body, `"notifications/initialized"`):
				kind, wantTok = "POST-initialized", "init"
			case strings.Contains(body, `"tools/list"`):
				kind, wantTok = "POST-request", "listtools"
			case strings.Contains(body, `"tools/call"`):
				kind, wantTok = "POST-request", "calltool"
			case strings.Contains(body, `"prompts/list"`):
				kind, wantTok = "POST-request", "listprompts"
			case strings.Contains(body, `"prompts/get"`):
				kind, wantTok = "POST-request", "getprompt"
			case strings.Contains(body, `"resources/list"`):
				kind, wantTok = "POST-request", "listresources"
			case strings.Contains(body, `"resources/read"`):
				kind, wantTok = "POST-request", "readresource"
			case strings.Contains(body, `roots/list_changed"`):
				kind, wantTok = "POST-notification", "rootschanged"
			case strings.Contains(body, `"id":901`):
				kind, wantTok = "POST-answer-to-server-request", "init"
			case strings.Contains(body, `"id":902`):
				kind, wantTok = "POST-error-answer-to-server-request", "init"
			}
			kinds[kind]++
			where := fmt.Sprintf("%s %s [%s]", x.Method, x.Path, kind)
			isEndpointPost := cs.Client == "ls" && x.Method == "POST" // goes to the endpoint the server announced
			if !isEndpointPost && x.Path != wantPath {
				viol = append(viol, V(k("path:"+kind), "%s went to %q, configured path %q", where, x.Path, wantPath))
			}
			if cs.URLQuery && !isEndpointPost && x.Query != "api_key=k1&x=a%20b" {
				viol = append(viol, V(k("url-query:"+kind), "%s was sent with the query %q, the configured URL carries %q", where, x.Query, "api_key=k1&x=a%20b"))
			}
			if isEndpointPost && x.Path != "/message" {
				viol = append(viol, V(k("path:"+kind), "%s went to %q, the announced endpoint is /message", where, x.Path))
			}
			if cs.Static && (x.ReqHeader.Get("X-Static") != "s1" || x.ReqHeader.Get("Authorization") != "Bearer tok") {
				viol = append(viol, V(k("static-header:"+kind), "%s lacks the configured static headers", where))
			}
			if got := x.ReqHeader.Values("X-Multi"); cs.Static && strings.Join(got, ",") != "m1,m2,m3" {
				viol = append(viol, V(k("static-header-values:"+kind), "%s carries %q for a static header configured with the values [m1 m2 m3]", where, got))
			}
			if !cs.Static && (x.ReqHeader.Get("X-Static") != "" || len(x.ReqHeader.Values("X-Multi")) != 0) {
				viol = append(viol, V(k("static-header-unconfigured:"+kind), "%s carries static headers that were never configured", where))
			}
			if cs.Handler && x.ReqHeader.Get("X-Via-Handler") != "1" {
				viol = append(viol, V(k("handler-bypassed:"+kind), "%s did not go through the configured request handler", where))
			}
			if cs.Before {
				n := len(x.ReqHeader.Values("X-Before-Count"))
				if n != 1 {
					viol = append(viol, V(k("before-count:"+kind), "%s passed the before-request function %d times (want exactly once)", where, n))
				} else if got := x.ReqHeader.Get("X-Ctx-Tok"); got != wantTok {
					viol = append(viol, V(k("before-context:"+kind), "%s passed the before-request function with context token %q, expected %q", where, got, wantTok))
				}
			}
			if cs.Client != "ls" {
				if issued && x.ReqHeader.Get("Mcp-Session-Id") != ss.sid {
					viol = append(viol, V(k("session-id:"+kind), "%s does not carry the issued session id", where))
				}
				if strings.Contains(body, `"initialize"`) && x.Status == 200 {
					issued = true // the answer to this request issued the session id
				}
				if x.Method == "DELETE" && x.Status == 200 {
					issued = false // the session is over; a later handshake starts without one
				}
			}
		}
		if cs.BeforeErr == "" {
			need := []string{"POST-initialize", "POST-initialized", "POST-request", "POST-notification", "POST-answer-to-server-request", "POST-error-answer-to-server-request", "GET-stream"}
			if cs.Client != "ls" {
				need = append(need, "DELETE")
			}
			if cs.FirstInit != 0 {
				// a client whose first initialize was answered without a session id does not open a listening
				// stream afterwards (it has switched its GET stream off): those kinds do not occur in this history
				need = []string{"POST-initialize", "POST-initialized", "POST-request", "POST-notification", "DELETE"}
			}
			for _, n := range need {
				if kinds[n] == 0 {
					viol = append(viol, V(k("kind-not-exercised:"+n), "the history did not make the client emit a %s request (harness coverage)", n))
				}
			}
		}
		obs.Add("%d requests %d kinds", len(ss.fab.Log()), len(kinds))
		cl.Close()
		ss.stop()
	})
	o := finishOutcome(res, obs, viol, true)
	cr.ObsKey = cr.Desc + o.ObsKey
	cr.Violations = o.Violations
	cr.Broken = o.Broken
	return cr
}

func init() {
	RegisterEnum(&Enum{Name: "c19/configs", Doc: "every subset of {static headers, before-request function, custom request handler, custom path} x before-request failing at one operation x {Streamable/JSON answers, Streamable/SSE answers, legacy SSE} client; a history that makes the client emit every request kind; every request received by a recording server is checked",
		Count: func(tier string) int { return len(c19Cases(tier)) }, Eval: c19Eval})
	RegisterCheck("C19", func(c *Ctx) {
		c.Level = "exploration"
		c.Rule = "complete enumeration of the 16 configuration subsets x before-request behaviours x 3 client/answer kinds (Streamable with JSON answers, Streamable with SSE answers, legacy SSE); per case one history emitting every request kind (initialize, initialized, requests, notification, GET stream, answers to a server-issued roots/list and to an unknown server request, DELETE / legacy connect GET and POSTs); every request the recording server received is checked for path, static headers, session id, passage through the custom handler, and exactly one before-request call with the operation's (or the handshake's) context token"
		c.Assume = append(c.Assume, "a custom http.Client cannot be configured through the public options and is therefore not a dimension", "memnet replaces net/http; default schedule")
		c.Enumerate("c19/configs")
	})
}
