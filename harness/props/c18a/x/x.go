// Package x (first of two packages with the same name) for the C18 type corpus.
package x

// T shares its package-qualified short name ("x.T") with c18b/x.T.
type T struct {
	A string `json:"a"`
}
