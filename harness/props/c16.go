package props

import (
	"context"
	"encoding/json"
	"errors"
	"fmt"
	"net/http"
	"strings"

	mcp "trpc.group/trpc-go/trpc-mcp-go"
	"verif.local/engine/explore"
	"verif.local/engine/memnet"
	"verif.local/engine/vsched"
	"verif.local/harness/hx"
)

// C16 — handshake: version negotiation, advertised capabilities, client state machine.

// ---- server side ------------------------------------------------------------------------

type c16SrvCase struct {
	Mode    string
	Version string // raw JSON of the protocolVersion member ("\x00absent" = member removed)
	Reg1    int    // bitmask registered before the first initialize: 1 prompt, 2 resource
	Reg2    int    // additionally registered between the two initializes
	API     int    // how the resource is registered: 0 RegisterResource, 1 RegisterResources (multi-content), 2 RegisterResourceTemplate only counts as "no resource"
}

func c16Versions() []string {
	return []string{`"2025-03-26"`, `"2024-11-05"`, `""`, `"2025-03-26 "`, `"2024-11-05\n"`, `" 2025-03-26"`, `"1999-01-01"`, `"9999-12-31"`, `"2025-3-26"`, `"latest"`,
		`"` + strings.Repeat("v", 10000) + `"`, `null`, `true`, `20250326`, `[]`, `{}`, "\x00absent"}
}

func c16SrvCases(tier string) []c16SrvCase {
	var out []c16SrvCase
	for _, m := range AllModes {
		for _, v := range c16Versions() {
			for r1 := 0; r1 < 4; r1++ {
				for _, r2 := range []int{0, 3 &^ r1} {
					if tier != "thorough" && r2 != 0 && !strings.HasPrefix(v, `"20`) {
						continue
					}
					out = append(out, c16SrvCase{m, v, r1, r2, 0})
					if (r1|r2)&2 != 0 && v == `"2025-03-26"` {
						out = append(out, c16SrvCase{m, v, r1, r2, 1}) // the other registration entry point
					}
				}
			}
		}
	}
	return out
}

func c16Reg(r *Rig, mask int, api int) {
	if mask&1 != 0 {
		r.RegisterPrompt(&mcp.Prompt{Name: "p"}, func(ctx context.Context, req *mcp.GetPromptRequest) (*mcp.GetPromptResult, error) {
			return &mcp.GetPromptResult{}, nil
		})
	}
	if mask&2 != 0 && api == 0 {
		r.RegisterResource(&mcp.Resource{Name: "r", URI: "res://r"}, func(ctx context.Context, req *mcp.ReadResourceRequest) (mcp.ResourceContents, error) {
			return mcp.TextResourceContents{URI: "res://r", Text: "x"}, nil
		})
	}
	if mask&2 != 0 && api == 1 {
		r.RegisterResources(&mcp.Resource{Name: "r", URI: "res://r"}, func(ctx context.Context, req *mcp.ReadResourceRequest) ([]mcp.ResourceContents, error) {
			return []mcp.ResourceContents{mcp.TextResourceContents{URI: "res://r", Text: "x"}}, nil
		})
	}
}

func c16SrvEval(tier string, i int) CaseResult {
	cs := c16SrvCases(tier)[i]
	cr := CaseResult{Desc: fmt.Sprintf("mode=%s protocolVersion=%s registered=%02b then +%02b api=%d", cs.Mode, truncate(cs.Version, 30), cs.Reg1, cs.Reg2, cs.API), Nontrivial: true}
	var viol []explore.Violation
	obs := &hx.Log{}
	k := func(s string) string { return fmt.Sprintf("%s:%s:%s", s, cs.Mode, truncate(cs.Version, 24)) }
	supported := map[string]bool{"2025-03-26": true, "2024-11-05": true}
	res := vsched.Run(vsched.Config{}, func() {
		r := NewRig(cs.Mode)
		c16Reg(r, cs.Reg1, cs.API)
		r.Start()
		check := func(step int, mask int, rp *RawPeer, id string) {
			params := `{"capabilities":{},"clientInfo":{"name":"c","version":"1"}`
			if cs.Version != "\x00absent" {
				params += `,"protocolVersion":` + cs.Version
			}
			params += `}`
			f, err := rp.Call(fmt.Sprintf(`{"jsonrpc":"2.0","id":%q,"method":"initialize","params":%s}`, id, params), fmt.Sprintf("%q", id))
			if err != nil {
				viol = append(viol, V(k("no-answer"), "initialize #%d got no answer: %v", step, err))
				return
			}
			var m struct {
				Result *struct {
					ProtocolVersion string                 `json:"protocolVersion"`
					ServerInfo      map[string]interface{} `json:"serverInfo"`
					Capabilities    map[string]interface{} `json:"capabilities"`
				} `json:"result"`
				Error *struct {
					Code int `json:"code"`
				} `json:"error"`
			}
			json.Unmarshal([]byte(f), &m)
			isString := strings.HasPrefix(cs.Version, `"`)
			if !isString {
				if m.Error == nil || m.Error.Code != -32602 {
					viol = append(viol, V(k("bad-version-type"), "protocolVersion %s (not a string) must be refused with -32602, got %s", truncate(cs.Version, 20), truncate(f, 120)))
				}
				obs.Add("refused")
				return
			}
			if m.Result == nil {
				viol = append(viol, V(k("init-refused"), "initialize with version %s failed: %s", truncate(cs.Version, 30), truncate(f, 120)))
				return
			}
			var req string
			json.Unmarshal([]byte(cs.Version), &req)
			want := "2025-03-26"
			if supported[req] {
				want = req
			}
			if m.Result.ProtocolVersion != want {
				viol = append(viol, V(k("negotiation"), "requested %q, answered %q, expected %q", truncate(req, 30), truncate(m.Result.ProtocolVersion, 30), want))
			}
			if !supported[m.Result.ProtocolVersion] {
				viol = append(viol, V(k("unsupported-version-answered"), "answered with version %q which the server does not support", truncate(m.Result.ProtocolVersion, 30)))
			}
			if m.Result.ServerInfo["name"] != "verif-server" || m.Result.ServerInfo["version"] != "1.2.3" {
				viol = append(viol, V(k("server-info"), "serverInfo %v, configured verif-server/1.2.3", m.Result.ServerInfo))
			}
			_, hasT := m.Result.Capabilities["tools"]
			_, hasP := m.Result.Capabilities["prompts"]
			_, hasR := m.Result.Capabilities["resources"]
			if !hasT || hasP != (mask&1 != 0) || hasR != (mask&2 != 0) {
				viol = append(viol, V(k("capabilities"), "initialize #%d with registered kinds %02b advertises tools=%v prompts=%v resources=%v", step, mask, hasT, hasP, hasR))
			}
			obs.Add("v=%s caps=%v%v%v", m.Result.ProtocolVersion, hasT, hasP, hasR)
		}
		rp1 := NewRawPeer(r)
		if cs.Mode == "ls" {
			if err := rp1.OpenStream(); err != nil {
				viol = append(viol, V("setup-handshake-fails", "setting the scenario up with well-behaved peers fails: %v", err))
				return
			}
		}
		check(1, cs.Reg1, rp1, "i1")
		if cs.Reg2 != 0 {
			c16Reg(r, cs.Reg2, cs.API)
			rp2 := rp1
			if cs.Mode != "io" {
				rp2 = NewRawPeer(r)
				if cs.Mode == "ls" {
					rp2.OpenStream()
				}
			}
			check(2, cs.Reg1|cs.Reg2, rp2, "i2")
		}
	})
	o := finishOutcome(res, obs, viol, true)
	cr.ObsKey = cr.Desc + o.ObsKey
	cr.Violations = o.Violations
	cr.Broken = o.Broken
	return cr
}

// ---- client side ------------------------------------------------------------------------

var c16Events = []string{"init-ok", "init-transport-error", "init-rpc-error", "init-malformed", "init-notif-refused",
	"op-listtools", "op-calltool", "op-listprompts", "op-getprompt", "op-listresources", "op-readresource", "op-rootschanged", "close"}

type c16Model struct {
	Initialized bool
	Closed      bool
}

func c16Histories(depth int) [][]string {
	var out [][]string
	var gen func(cur []string)
	gen = func(cur []string) {
		if len(cur) > 0 {
			out = append(out, append([]string(nil), cur...))
		}
		if len(cur) == depth {
			return
		}
		for _, e := range c16Events {
			// prune: long runs of plain operations add nothing
			if len(cur) >= 2 && strings.HasPrefix(e, "op-") && strings.HasPrefix(cur[len(cur)-1], "op-") && strings.HasPrefix(cur[len(cur)-2], "op-") {
				continue
			}
			gen(append(cur, e))
		}
	}
	gen(nil)
	return out
}

type c16CliCase struct {
	Mode string
	Hist []string
}

var c16HistCache = map[int][][]string{}

func c16CliCases(tier string) []c16CliCase {
	depth := 3
	if tier == "thorough" {
		depth = 4
	}
	h, ok := c16HistCache[depth]
	if !ok {
		h = c16Histories(depth)
		c16HistCache[depth] = h
	}
	var out []c16CliCase
	for _, m := range []string{"sj", "ls", "io"} {
		for _, x := range h {
			out = append(out, c16CliCase{m, x})
		}
	}
	return out
}

func c16CliEval(tier string, i int) CaseResult {
	cs := c16CliCases(tier)[i]
	cr := CaseResult{Desc: fmt.Sprintf("client=%s history=%s", cs.Mode, strings.Join(cs.Hist, " ")), Nontrivial: true}
	var viol []explore.Violation
	obs := &hx.Log{}
	res := vsched.Run(vsched.Config{}, func() {
		ss := newScriptedServer(cs.Mode)
		behaviour := "ok"
		ss.initHook = func(w scriptWriter, id string) bool {
			switch behaviour {
			case "rpc-error":
				w.Frame(fmt.Sprintf(`{"jsonrpc":"2.0","id":%s,"error":{"code":-32000,"message":"init refused"}}`, id))
				return true
			case "malformed":
				w.Frame(fmt.Sprintf(`{"jsonrpc":"2.0","id":%s,"result":"not an object"}`, id))
				return true
			}
			return false
		}
		if ss.fab != nil {
			ss.fab.Intercept = func(req *http.Request, x *memnet.Exchange) (*http.Response, error, bool) {
				if behaviour == "transport-error" && req.Method == http.MethodPost && strings.Contains(string(x.ReqBody), `"initialize"`) {
					return nil, errors.New("dial tcp 10.0.0.2:80: connect: connection refused"), true
				}
				return nil, nil, false
			}
		}
		cl, err := ss.client()
		if err != nil {
			viol = append(viol, V("setup-handshake-fails", "setting the scenario up with well-behaved peers fails: %v", err))
			return
		}
		var m c16Model
		ctx := context.Background()
		for step, ev := range cs.Hist {
			last := step == len(cs.Hist)-1
			before := len(ss.received)
			where := fmt.Sprintf("[%s] after %s: %s", cs.Mode, strings.Join(cs.Hist[:step], " "), ev)
			k := func(s string) string { return fmt.Sprintf("%s:%s:%s", s, cs.Mode, ev) }
			var evErr error
			done := &hx.Flag{}
			vsched.Go("step", func() {
				defer done.Set()
				switch {
				case strings.HasPrefix(ev, "init-"):
					behaviour = strings.TrimPrefix(ev, "init-")
					ss.noInitted = behaviour == "notif-refused"
					if cs.Mode == "io" && behaviour == "transport-error" {
						behaviour = "rpc-error" // a pipe has no connection-refused; the closest is a refusal
					}
					_, evErr = cl.Initialize(ctx, &mcp.InitializeRequest{})
				case ev == "close":
					evErr = cl.Close()
				case ev == "op-listtools":
					_, evErr = cl.ListTools(ctx, &mcp.ListToolsRequest{})
				case ev == "op-calltool":
					rq := &mcp.CallToolRequest{}
					rq.Params.Name = "t"
					_, evErr = cl.CallTool(ctx, rq)
				case ev == "op-listprompts":
					_, evErr = cl.ListPrompts(ctx, &mcp.ListPromptsRequest{})
				case ev == "op-getprompt":
					rq := &mcp.GetPromptRequest{}
					rq.Params.Name = "p"
					_, evErr = cl.GetPrompt(ctx, rq)
				case ev == "op-listresources":
					_, evErr = cl.ListResources(ctx, &mcp.ListResourcesRequest{})
				case ev == "op-readresource":
					rq := &mcp.ReadResourceRequest{}
					rq.Params.URI = "u"
					_, evErr = cl.ReadResource(ctx, rq)
				case ev == "op-rootschanged":
					evErr = cl.SendRootsListChangedNotification(ctx)
				}
			})
			vsched.Quiesce()
			if !done.Get() {
				vsched.Sleep(61e9)
				vsched.Quiesce()
			}
			if !done.Get() {
				if last {
					viol = append(viol, V(k("hangs"), "%s never returned; blocked: %v", where, vsched.LiveThreads()))
				}
				return
			}
			traffic := len(ss.received) - before
			// ---- model step and comparison
			switch {
			case strings.HasPrefix(ev, "init-"):
				if m.Initialized {
					if last && (evErr == nil || traffic != 0) {
						viol = append(viol, V(k("second-handshake"), "%s -> a second Initialize must be refused without traffic: err=%v, %d messages sent", where, evErr, traffic))
					}
				} else if evErr == nil {
					if last && ev != "init-ok" && !(cs.Mode == "io" && ev == "init-notif-refused") {
						viol = append(viol, V(k("handshake-should-fail"), "%s -> Initialize succeeded although the server %s", where, ev))
					}
					m.Initialized = true
				} else {
					if last && ev == "init-ok" && !m.Closed {
						viol = append(viol, V(k("handshake-fails"), "%s -> a correct handshake failed: %v", where, evErr))
					}
					m.Initialized = false
				}
			case ev == "close":
				m.Initialized = false
				m.Closed = true
			case ev == "op-rootschanged":
				// a notification: allowed to need the handshake or not; nothing prescribed beyond no crash
			default:
				if !m.Initialized {
					if last && (evErr == nil || !strings.Contains(strings.ToLower(evErr.Error()), "not initialized")) {
						viol = append(viol, V(k("op-before-handshake"), "%s -> an operation before a successful handshake must fail with a not-initialized error, got %v", where, evErr))
					}
					if last && traffic != 0 {
						viol = append(viol, V(k("traffic-before-handshake"), "%s -> %d messages reached the server although the client is not initialized", where, traffic))
					}
				} else if last && evErr != nil {
					viol = append(viol, V(k("op-fails"), "%s -> operation on an initialized client failed: %v", where, evErr))
				}
			}
			if last {
				want := mcp.StateDisconnected
				if m.Initialized {
					want = mcp.StateInitialized
				}
				if got := cl.GetState(); got != want {
					viol = append(viol, V(k("state"), "%s -> GetState()=%q, the history implies %q", where, got, want))
				}
				obs.Add("init=%v closed=%v err=%v", m.Initialized, m.Closed, evErr != nil)
			}
		}
		cl.Close()
		ss.stop()
	})
	o := finishOutcome(res, obs, viol, true)
	cr.ObsKey = o.ObsKey
	cr.Violations = o.Violations
	cr.Broken = o.Broken
	cr.Trans = len(cs.Hist)
	return cr
}

// c16During: operations issued from another goroutine while the handshake is still in flight
// (the server withholds its answer to initialize) are "before a successful handshake": they fail
// with a not-initialized error and nothing but the handshake reaches the server.
func c16During(tier string, i int) CaseResult {
	mode := []string{"sj", "ss", "ls", "io"}[i]
	cr := CaseResult{Desc: "client=" + mode + ": operations while Initialize is in flight", Nontrivial: true}
	var viol []explore.Violation
	obs := &hx.Log{}
	k := func(s string) string { return s + ":" + mode }
	res := vsched.Run(vsched.Config{}, func() {
		ss := newScriptedServer(mode)
		gate := &hx.Flag{}
		ss.gateInit = gate
		cl, err := ss.client()
		if err != nil {
			viol = append(viol, V("setup-handshake-fails", "setting the scenario up with well-behaved peers fails: %v", err))
			return
		}
		var ierr error
		idone := &hx.Flag{}
		vsched.Go("init", func() { _, ierr = cl.Initialize(context.Background(), &mcp.InitializeRequest{}); idone.Set() })
		vsched.Quiesce()
		if idone.Get() {
			viol = append(viol, V(k("init-returned-early"), "Initialize returned (%v) although the server has not answered", ierr))
			return
		}
		ops := map[string]func() error{
			"ListTools":     func() error { _, e := cl.ListTools(context.Background(), &mcp.ListToolsRequest{}); return e },
			"ListPrompts":   func() error { _, e := cl.ListPrompts(context.Background(), &mcp.ListPromptsRequest{}); return e },
			"ListResources": func() error { _, e := cl.ListResources(context.Background(), &mcp.ListResourcesRequest{}); return e },
			"CallTool": func() error {
				rq := &mcp.CallToolRequest{}
				rq.Params.Name = "t"
				_, e := cl.CallTool(context.Background(), rq)
				return e
			},
		}
		for _, name := range []string{"ListTools", "CallTool", "ListPrompts", "ListResources"} {
			name := name
			var e error
			d := &hx.Flag{}
			vsched.Go("op-"+name, func() { e = ops[name](); d.Set() })
			vsched.Quiesce()
			switch {
			case !d.Get():
				viol = append(viol, V(k("op-during-handshake-waits"), "%s issued during the handshake neither failed nor returned (it was sent or queued); blocked: %v", name, vsched.LiveThreads()))
			case e == nil:
				viol = append(viol, V(k("op-during-handshake"), "%s issued while Initialize is still in flight succeeded", name))
			case !strings.Contains(strings.ToLower(e.Error()), "not initialized"):
				viol = append(viol, V(k("op-during-handshake-error"), "%s issued during the handshake failed with %q, not with a not-initialized error", name, e))
			}
			if st := cl.GetState(); st == mcp.StateInitialized {
				viol = append(viol, V(k("state-during-handshake"), "GetState() reports %s while the handshake is in flight", st))
			}
		}
		for _, m := range ss.received {
			if !strings.Contains(m, `"initialize"`) {
				viol = append(viol, V(k("traffic-during-handshake"), "the server received %s before the handshake completed", truncate(m, 120)))
				break
			}
		}
		gate.Set()
		vsched.Quiesce()
		if !idone.Get() || ierr != nil {
			viol = append(viol, V(k("init-fails"), "Initialize after the server answered: done=%v err=%v", idone.Get(), ierr))
		}
		obs.Add("received=%d", len(ss.received))
		cl.Close()
		ss.stop()
	})
	o := finishOutcome(res, obs, viol, true)
	cr.ObsKey = cr.Desc + o.ObsKey
	cr.Violations = o.Violations
	cr.Broken = o.Broken
	return cr
}

// c16StdioRestart: the stdio client's own way of starting over. The server process exits on its own
// (and is reaped: exec.Cmd.Wait closes the parent's pipe ends) or not, then the application calls
// RestartProcess or Close. Whatever those return, the client is uninitialized afterwards: GetState
// says so, an operation fails with the not-initialized error without traffic, and a new Initialize
// is not refused as a second handshake.
func c16StdioRestart(tier string, i int) CaseResult {
	hist := [][]string{{"restart"}, {"child-exit", "restart"}, {"child-exit", "close"}, {"child-exit", "restart", "restart"}, {"restart", "close"}, {"child-exit", "close", "restart"}}[i]
	cr := CaseResult{Desc: "client=io history=init-ok " + strings.Join(hist, " "), Nontrivial: true}
	var viol []explore.Violation
	obs := &hx.Log{}
	k := func(s string) string { return fmt.Sprintf("%s:io:%s", s, strings.Join(hist, "+")) }
	res := vsched.Run(vsched.Config{}, func() {
		ss := newScriptedServer("io")
		cl0, err := ss.connect()
		if err != nil {
			viol = append(viol, V("setup-handshake-fails", "setting the scenario up with well-behaved peers fails: %v", err))
			return
		}
		cl := cl0.(*mcp.StdioClient)
		ctx := context.Background()
		for _, ev := range hist {
			done := &hx.Flag{}
			var evErr error
			vsched.Go("step-"+ev, func() {
				defer done.Set()
				switch ev {
				case "child-exit":
					ss.stop() // the child's stdout ends
					if ss.childExit != nil {
						ss.childExit() // the process watcher notices
					}
					// exec.Cmd.Wait closes the parent's ends of StdinPipe / StdoutPipe once the child is reaped
					memnet.WEnd{P: ss.c2s}.Close()
					memnet.REnd{P: ss.s2c}.Close()
				case "restart":
					evErr = cl.RestartProcess(ctx) // (there is no program to start under the harness: it fails after the old process is closed)
				case "close":
					evErr = cl.Close()
				}
			})
			vsched.Quiesce()
			if !done.Get() {
				viol = append(viol, V(k("hangs"), "%s never returned; blocked: %v", ev, vsched.LiveThreads()))
				return
			}
			obs.Add("%s err=%v", ev, evErr != nil)
		}
		before := len(ss.received)
		if st := cl.GetState(); st == mcp.StateInitialized {
			viol = append(viol, V(k("state"), "after init-ok %s GetState() still reports %q", strings.Join(hist, " "), st))
		}
		_, opErr := cl.ListTools(ctx, &mcp.ListToolsRequest{})
		if opErr == nil || !strings.Contains(strings.ToLower(opErr.Error()), "not initialized") {
			viol = append(viol, V(k("op-after-restart"), "after init-ok %s an operation must fail with the not-initialized error, got %v", strings.Join(hist, " "), opErr))
		}
		if n := len(ss.received) - before; n != 0 {
			viol = append(viol, V(k("traffic-after-restart"), "%d messages were sent by a client that is not initialized", n))
		}
		idone := &hx.Flag{}
		var ierr error
		vsched.Go("init-again", func() { _, ierr = cl.Initialize(ctx, &mcp.InitializeRequest{}); idone.Set() })
		vsched.Quiesce()
		if !idone.Get() {
			vsched.Sleep(61e9)
			vsched.Quiesce()
		}
		if idone.Get() && ierr != nil && strings.Contains(strings.ToLower(ierr.Error()), "already initialized") {
			viol = append(viol, V(k("init-refused-as-second-handshake"), "after init-ok %s a new Initialize is refused as a second handshake: %v", strings.Join(hist, " "), ierr))
		}
		cl.Close()
	})
	o := finishOutcome(res, obs, viol, true)
	cr.ObsKey = cr.Desc + o.ObsKey
	cr.Violations = o.Violations
	cr.Broken = o.Broken
	return cr
}

func init() {
	RegisterEnum(&Enum{Name: "c16/stdio-restart", Doc: "stdio client: after a successful handshake the server process exits (and is reaped) or not, then RestartProcess / Close in six orders: the client is uninitialized afterwards (GetState, not-initialized error without traffic, a new Initialize is not refused as a second handshake)",
		Count: func(string) int { return 6 }, Eval: c16StdioRestart})
}

func init() {
	RegisterEnum(&Enum{Name: "c16/during-handshake", Doc: "operations issued from another goroutine while Initialize waits for the server's answer, on the 4 client flavours: not-initialized error, no traffic, state not initialized",
		Count: func(string) int { return 4 }, Eval: c16During})
	RegisterEnum(&Enum{Name: "c16/server", Doc: "initialize with every version-string class x registered capability kinds x registration between two initializes x six server kinds/modes",
		Count: func(tier string) int { return len(c16SrvCases(tier)) }, Eval: c16SrvEval})
	RegisterEnum(&Enum{Name: "c16/client", Doc: "all client call histories up to depth 3 (4 thorough) over {Initialize(ok / transport error / JSON-RPC error / malformed result / initialized refused), 7 operations, Close} on the Streamable, legacy SSE and stdio clients against a recording scripted server; reference state machine",
		Count: func(tier string) int { return len(c16CliCases(tier)) }, Eval: c16CliEval})
	RegisterCheck("C16", func(c *Ctx) {
		c.Level = "model_checking"
		c.Rule = "client side: every history up to the depth bound is replayed on a fresh real client against a recording scripted server, and the last transition is compared with a reference state machine {uninitialized, initialized} x {closed} (error class, zero traffic before handshake, second handshake refused, GetState); server side: complete enumeration of version strings x capability registrations x server kinds against the negotiation rule"
		c.Assume = append(c.Assume, "every history is a model trace validated against the implementation (the model is the oracle)", "whether Initialize may succeed again after Close is not prescribed; the model follows the implementation there")
		c.Enumerate("c16/server")
		c.Enumerate("c16/client")
		c.Enumerate("c16/during-handshake")
		c.Enumerate("c16/stdio-restart")
	})
	_ = hx.Nop{}
}
